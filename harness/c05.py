"""C05 - no key sequence can crash the line editor or break its state invariants.
Model: coq/Model/C05_{Dispatch,Editor,Run}.v; theorems: coq/Props/C05.v.

Ties, re-established on every run:
  * Gen/C05_Bindings.v regenerated from the live registry; the Escape theorem is re-proved over it;
  * exploration of the real PromptSession (c05_drive.py) with the property oracle after every key;
  * every handler call seen during the exploration is replayed on the model:
      kind 1  dispatch   (atom valuation, key buffer, flush) -> table row chosen / Wait
      kind 2  handler    (modelled handler, state, arg, data) -> state after _call_handler
      kind 5  handler, Vi-state projection (accept_search)
  * kind 3  Buffer mutator sequences on a real Buffer  (L1)
  * L2: live states through the real _call_handler with a no-op handler (kind 2, HIgnore)
"""
import json
import multiprocessing
import os
import types

from common import *  # noqa
import c05_drive as drv
import c05_gen as gen
import c05_table

PROP = "C05"
TABLES = ["Whitespace", "C05_Bindings"]
MODELS = [("c05", "Extract/ExC05.v", "run_C05")]


# --------------------------------------------------------------------------
# exploration (runs in worker processes)

def family_of_exception(exc, handler=None):
    """exc = 'Type@file:function<handlerfile:handler' -> a family name for known-finding matching"""
    head, _, via = exc.partition("<")
    if head.startswith("IndexError@key_binding/bindings/vi.py:") and (
            head.endswith(":_yank_to_register") or head.endswith(":delete_or_change_operator")):
        return "register-operator-motion"
    if head.startswith("AssertionError@document.py:get_cursor_") and head.endswith("_position"):
        return "updown-count-below-1"
    if head.startswith("Exception@application/application.py:exit"):
        return "exit-after-done"
    if head == "AssertionError@document.py:__init__" and via == "named_commands.py:yank":
        return "yank-lines-count-below-1"
    if head == "AssertionError@document.py:__init__" and handler and ("[_search_next" in handler or "[_search_previous" in handler):
        return "search-text-object-other-entry"
    if head == "AssertionError@buffer.py:go_to_index":
        return "completion-count-below-1"
    if head == "AssertionError@buffer.py:_search":
        return "search-count-below-1"
    if head == "IndexError@key_binding/bindings/vi.py:_delete_before_multiple_cursors":
        return "multicursor-stale-backspace"
    if head == "ValueError@key_binding/key_processor.py:arg":
        return "arg-value-error"          # refined in judge() from the keys typed
    return exc


def _digit_run_before(keys, j):
    """number of digit keys typed directly before key j (the pending numeric argument)"""
    n = 0
    i = j - 1
    while i >= 0 and len(keys[i]) == 1 and keys[i] in "0123456789":
        n += 1
        i -= 1
    return n


def judge(cfg, keys, r):
    """All oracle failures of one run: [(tags, clause text, index of the key)]"""
    out = []
    for j, (tok, exc, b, a) in enumerate(r["trace"]):
        if exc == "Hang":
            out.append(({"clause": "hang"}, "key processing did not return within the watchdog", j))
            continue
        if exc:
            fam = family_of_exception(exc, a.get("handler"))
            if fam == "arg-value-error":
                # C05-F14 only on evidence: the pending argument (KeyProcessor.arg before this key; the command
                # reading it may have waited in the key buffer, e.g. `d` before `w`) has more digits than int() converts
                fam = "arg-too-many-digits" if max(b.get("argdigits", 0), _digit_run_before(keys, j)) > 4300 else "arg-value-error-short"
            out.append(({"clause": "exception", "family": fam},
                        "exception escapes the key processor: " + exc, j))
        for cl, tag in drv.oracle_state(a):
            if tag == "multicursor-range":
                if any(t == tag for _, t in drv.oracle_state(b)):
                    continue            # report the key that took the positions out of the text, once
                h = (a.get("handler") or "?").split(".")[-1]
                fam = "history-in-insert-multiple" if h in ("previous_history", "next_history") else h
                out.append(({"clause": tag, "family": fam}, cl + " (after %s)" % h, j))
            elif tag == "vi-nav-cursor":
                if any(t == tag for _, t in drv.oracle_state(b)):
                    continue            # report the key after which the cursor first rests there, once
                h = (a.get("handler") or "?")
                # in a read-only buffer the only way there is a handler whose edit raised the swallowed
                # EditReadOnlyBuffer (the fix-up is skipped on that path)
                fam = "readonly-swallowed-edit" if a["ro"] else h.split(".")[-1]
                if tok in ("<yield>", "<release>"):
                    # C05-F13 only when the evidence says so: a completer is configured (its answer always arrives as a
                    # background task, gated or not), Escape
                    # was pressed earlier, Vi already was in navigation mode before this step, and the step
                    # inserted one of the completer's words into the focused buffer
                    words = ("alpha", "alpine", "beta", "界面")
                    inserted = b["text"] != a["text"] and any(w in a["text"] and w not in b["text"] for w in words)
                    if (cfg.get("completer") and "<escape>" in keys[:j] and b["mode"] == "vi-navigation"
                            and b["buf"] == a["buf"] and inserted):
                        fam = "async-completion-landed-in-navigation-mode"
                    else:
                        fam = "after-event-loop-step"
                out.append(({"clause": tag, "family": fam}, cl + " (after %s)" % h.split(".")[-1], j))
            else:
                out.append(({"clause": tag, "editing": a["editing"]}, cl, j))
        if "escape_calls" in a:
            # every dispatch of a key sequence ending in Escape during this step (also an Escape that waited in
            # the key buffer and is dispatched by a later key or by the flush), judged right after its handler
            if not exc:
                for pre, post, hname in a["escape_calls"]:
                    for cl, tag in drv.oracle_escape(pre, post):
                        fam = "escape-as-argument" if pre["kbuf"] > 0 else "escape-direct"
                        out.append(({"clause": tag, "family": fam}, cl + " (dispatched to %s)" % hname, j))
                if tok == "<escape>" and not a["escape_calls"] and a["kbuf"] == 0:
                    # Escape left the key buffer without any handler being called for it (dropped)
                    for cl, tag in drv.oracle_escape(b, a):
                        out.append(({"clause": tag, "family": "escape-not-dispatched"}, cl + " (Escape was dropped, no handler called)", j))
        elif tok == "<escape>" and not exc:
            for cl, tag in drv.oracle_escape(b, a):
                fam = "escape-as-argument" if b["kbuf"] > 0 else "escape-direct"
                out.append(({"clause": tag, "family": fam}, cl + " (dispatched to %s)" % a.get("handler"), j))
    oc = r["outcome"]
    if oc[0] == "accept" and r["trace"]:
        # "the value returned on accept is exactly the buffer text at that moment"
        if oc[1] != r.get("text_at_exit"):
            out.append(({"clause": "accept"}, "accept returned %r but the buffer text at that moment was %r" % (oc[1], r.get("text_at_exit")),
                        len(r["trace"]) - 1))
    if oc[0] == "error" and oc[1] != "TimeoutError":
        out.append(({"clause": "exception", "family": "prompt-result:" + oc[1]},
                    "prompt_async ended with " + oc[1], len(r["trace"]) - 1))
    for le in r["loop_errors"]:
        out.append(({"clause": "loop-exception", "family": str(le)}, "exception in an event-loop callback: %s" % le,
                    len(r["trace"]) - 1))
    return out


_REF_SIG = None


def ref_sig():
    global _REF_SIG
    if _REF_SIG is None:
        t = c05_table.dump_table("default")
        _REF_SIG = [(b["keys"], b["filter"], b["eager"], b["handler"]) for b in t["bindings"]]
    return _REF_SIG


def explore_chunk(chunk):
    """chunk: list of (cfg, keys).  Returns compact, picklable results."""
    sig = ref_sig()
    res = {"n": 0, "keys": 0, "fails": [], "dispatch": {}, "handler": {}, "registry_mismatch": 0,
           "outcomes": {}, "handlers_seen": {}, "modes": {}, "nontrivial": 0, "hangs": []}
    for cfg, keys in chunk:
        rec = {"dispatch": [], "handler": []}
        try:
            r = drv.run_case(cfg, keys, yield_every=7, instrument=(sig, rec))
        except BaseException as e:  # noqa  (driver failure: report, never hide)
            res["fails"].append(({"clause": "driver", "family": type(e).__name__}, "driver failed: %r" % (e,), cfg, keys, len(keys)))
            continue
        res["n"] += 1
        res["keys"] += len(r["trace"])
        res["registry_mismatch"] += rec.get("registry_mismatch", 0)
        res["outcomes"][r["outcome"][0]] = res["outcomes"].get(r["outcome"][0], 0) + 1
        changed = False
        for tok, exc, b, a in r["trace"]:
            h = a.get("handler")
            if h:
                res["handlers_seen"][h] = res["handlers_seen"].get(h, 0) + 1
            mk = a["editing"] + ":" + a["mode"] if a["editing"] == "VI" else "EMACS"
            res["modes"][mk] = res["modes"].get(mk, 0) + 1
            if (b["text"], b["cur"], b["mode"]) != (a["text"], a["cur"], a["mode"]):
                changed = True
        res["nontrivial"] += 1 if changed else 0
        for tags, cl, j in judge(cfg, keys, r):
            if tags.get("clause") == "hang":
                res["hangs"].append((cfg, keys[:j + 1]))
                continue
            res["fails"].append((tags, cl, cfg, keys[:j + 1], j))
        for bits, kb, flush, outc in rec["dispatch"]:
            k = json.dumps([1, bits, kb, flush])
            if k not in res["dispatch"]:
                res["dispatch"][k] = outc
            elif res["dispatch"][k] != outc:
                res["fails"].append(({"clause": "dispatch-nondeterministic"}, "same valuation and keys, two outcomes", cfg, keys, 0))
        for hid, pre, arg, data, code, post, name in rec["handler"]:
            if hid in (39, 40):
                case = [7, pre, hid - 39]
                result = [code, post]
            elif hid == 2:
                case = [5, hid, pre, arg, S(data)]
                result = [code, post[9], post[10], post[11], post[12], post[13]]
            else:
                case = [2, hid, pre, arg, S(data)]
                result = [code, post]
            k = json.dumps(sx_norm(case))
            if k not in res["handler"]:
                res["handler"][k] = (sx_norm(result), name)
    return res


def run_exploration(chk, cases, procs=4):
    chunks = [cases[i::procs * 4] for i in range(procs * 4)]
    chunks = [c for c in chunks if c]
    if procs > 1:
        with multiprocessing.get_context("fork").Pool(procs) as pool:
            parts = pool.map(explore_chunk, chunks)
    else:
        parts = [explore_chunk(c) for c in chunks]
    return parts


def show_keys(keys):
    """keys for a message: runs of one token are written token*count (the replay file keeps the full list)"""
    out, i = [], 0
    while i < len(keys):
        j = i
        while j < len(keys) and keys[j] == keys[i]:
            j += 1
        out.append(keys[i] if j - i < 4 else "%s*%d" % (keys[i], j - i))
        i = j
    return " ".join(out)


# --------------------------------------------------------------------------
# KeyPressEvent.arg on the real class (model: event_arg, case kind 6)

def arg_cases(chk):
    rng = chk.rng
    strs = [None, "-", "", "0", "5", "007", "999999", "1000000", "1000001", "12345678", "-7", "-007", "-0", "-999999",
            "-1000000", "-12345678", "0" * 4300, "0" * 4301, "0" * 4301 + "5", "-" + "0" * 4290 + "1234567890", "-" + "1" * 4301]
    strs += ["1" * k for k in (639, 640, 641, 4299, 4300, 4301, 5000)]
    for _ in range(60 if chk.tier == "thorough" else 25):
        n = rng.choice([1, 2, 3, 5, 6, 7, 8, 9, 12])
        strs.append(("-" if rng.random() < 0.3 else "") + "".join(rng.choice("0123456789") for _ in range(n)))
    for _ in range(6 if chk.tier == "thorough" else 2):
        n = rng.randint(4290, 4310)
        # (a negative argument of 19..4300 digits is returned as it is - an integer the wire format of the
        # extracted model, 63-bit atoms, cannot carry: negative long strings are drawn beyond the limit only)
        neg = rng.random() < 0.3
        strs.append(("-" if neg else "") + "".join(rng.choice("0123456789") for _ in range(max(n, 4301) if neg else n)))
    return [[6, ([] if s is None else [S(s)]), 1] for s in strs], strs      # 1 = the code since fix 7b1fd9f


def impl_arg(s):
    import weakref
    from prompt_toolkit.key_binding.key_processor import KeyPressEvent

    class _P:
        pass
    p = _P()
    ev = KeyPressEvent(weakref.ref(p), s, [], [], False)
    try:
        return [0, ev.arg]
    except ValueError:
        return [4]
    except AssertionError:
        return [1]


def shrink(cfg, keys, tags, budget=40):
    """Greedy removal of keys while a failure with the same tags is still the result."""
    def fails(ks):
        try:
            r = drv.run_case(cfg, ks)
        except BaseException:  # noqa
            return False
        return any(t == tags for t, _, _ in judge(cfg, ks, r))
    cur = list(keys)
    n = 0
    i = 0
    while i < len(cur) and n < budget:
        cand = cur[:i] + cur[i + 1:]
        n += 1
        if cand and fails(cand):
            cur = cand
        else:
            i += 1
    return cur


# --------------------------------------------------------------------------
# L1: Buffer mutators on a real Buffer

BOPS = {1: "text=", 2: "cursor_position=", 3: "set_document", 4: "insert_text", 5: "delete_before_cursor", 6: "delete",
        7: "cursor_left", 8: "cursor_right", 9: "cursor_up", 10: "cursor_down", 11: "start_selection",
        12: "exit_selection", 13: "go_to_history", 14: "history_backward", 15: "history_forward", 16: "auto_up",
        17: "auto_down", 18: "paste_clipboard_data"}


def buf_state(b, vi=None):
    sel = b.selection_state
    types_ = {"CHARACTERS": 0, "LINES": 1, "BLOCK": 2}
    st = [S(b.text), b.cursor_position, [] if sel is None else [sel.original_cursor_position, types_[sel.type.value]],
          list(b.multiple_cursor_positions), 1 if b.read_only() else 0,
          [] if b.preferred_column is None else [b.preferred_column],
          [S(l) for l in b._working_lines], b.working_index]
    return st + (vi or [0, 0, 0, [], 0, 0])


def make_buffer(st):
    from collections import deque
    from prompt_toolkit.buffer import Buffer
    from prompt_toolkit.document import Document
    from prompt_toolkit.selection import SelectionState, SelectionType
    text, cur, sel, mc, ro, pref, wl, wi = st[:8]
    b = Buffer(read_only=bool(ro))
    b._working_lines = deque(unS(l) for l in wl)
    b._Buffer__working_index = wi
    b._working_lines[wi] = unS(text)
    b._Buffer__cursor_position = cur
    if sel:
        b.selection_state = SelectionState(sel[0], [SelectionType.CHARACTERS, SelectionType.LINES, SelectionType.BLOCK][sel[1]])
    b.multiple_cursor_positions = list(mc)
    b.preferred_column = pref[0] if pref else None
    return b


def impl_bop(b, op):
    from prompt_toolkit.clipboard import ClipboardData
    from prompt_toolkit.document import Document
    from prompt_toolkit.selection import PasteMode, SelectionType
    k = op[0]
    if k == 1:
        b.text = unS(op[1])
    elif k == 2:
        b.cursor_position = op[1]
    elif k == 3:
        b.set_document(Document(unS(op[1]), op[2]), bypass_readonly=bool(op[3]))
    elif k == 4:
        b.insert_text(unS(op[1]), overwrite=bool(op[2]), move_cursor=bool(op[3]))
    elif k == 5:
        b.delete_before_cursor(op[1])
    elif k == 6:
        b.delete(op[1])
    elif k == 7:
        b.cursor_left(op[1])
    elif k == 8:
        b.cursor_right(op[1])
    elif k == 9:
        b.cursor_up(op[1])
    elif k == 10:
        b.cursor_down(op[1])
    elif k == 11:
        b.start_selection([SelectionType.CHARACTERS, SelectionType.LINES, SelectionType.BLOCK][op[1]])
    elif k == 12:
        b.exit_selection()
    elif k == 13:
        b.go_to_history(op[1])
    elif k == 14:
        b.history_backward(op[1])
    elif k == 15:
        b.history_forward(op[1])
    elif k == 16:
        b.auto_up(op[1], go_to_start_of_line_if_history_changes=bool(op[2]))
    elif k == 17:
        b.auto_down(op[1], go_to_start_of_line_if_history_changes=bool(op[2]))
    elif k == 18:
        b.paste_clipboard_data(ClipboardData(unS(op[1]), [SelectionType.CHARACTERS, SelectionType.LINES][op[2]]),
                               paste_mode=[PasteMode.EMACS, PasteMode.VI_BEFORE, PasteMode.VI_AFTER][op[3]], count=op[4])
    else:
        raise ValueError(k)


def impl_bops(case):
    from prompt_toolkit.buffer import EditReadOnlyBuffer
    _, st, ops = case
    b = make_buffer(st)
    out, trace = [], []
    for op in ops:
        code = 0
        t0, c0 = b.text, b.cursor_position
        try:
            with_watchdog(lambda: impl_bop(b, op), 5)
        except AssertionError:
            code = 1
        except IndexError:
            code = 2
        except EditReadOnlyBuffer:
            code = 3
        except Hang:
            code = 98
        except Exception:  # noqa
            code = 99
        try:
            st_after = buf_state(b)
            t1, c1 = b.text, b.cursor_position
        except Exception as e:  # noqa  - the buffer cannot even be read any more
            out.append([97, []])
            trace.append((op, 97, t0, c0, "", 0, None, bool(b.read_only()), type(e).__name__, b.working_index, len(b._working_lines)))
            break
        out.append([code, st_after])
        sel = b.selection_state
        trace.append((op, code, t0, c0, t1, c1, None if sel is None else sel.original_cursor_position,
                      bool(b.read_only()), None, b.working_index, len(b._working_lines)))
    return out, trace


def oracle_bop(op, code, t0, c0, t1, c1, anchor, ro, unreadable=None, wi=0, nlines=1):
    """C05_buffer_inv / C05_buffer_windex_inv / C05_buffer_errors_declared / exact Ok conditions, on the real Buffer."""
    if not (0 <= wi < nlines):
        return "working index %d outside 0..%d" % (wi, nlines - 1)
    if code == 97:
        return "after the operation the buffer state cannot be read (%s)" % unreadable
    if not (0 <= c1 <= len(t1)):
        return "cursor %d outside 0..%d" % (c1, len(t1))
    if anchor is not None and not (0 <= anchor <= len(t1)):
        return "selection anchor %d outside 0..%d" % (anchor, len(t1))
    if code not in (0, 1, 3):
        return "undeclared exception (code %d)" % code
    if code == 3 and not ro:
        return "EditReadOnlyBuffer on a writable buffer"
    k = op[0]
    if not ro and code != 0:
        if k in (4, 6) or (k == 5 and op[1] >= 0) or (k in (9, 10) and op[1] >= 1):
            return "%s raised with valid arguments" % BOPS[k]
    if ro and t1 != t0 and k not in (13, 14, 15, 16, 17) and not (k == 3 and op[3]):
        return "text of a read-only buffer changed"
    return None


def rand_state(rng, small=False):
    alpha = ["a", "b", " ", "\n", "界", "x"]
    def rt(n):
        return "".join(rng.choice(alpha) for _ in range(rng.randint(0, n)))
    wl = [rt(6) for _ in range(rng.randint(1, 4))]
    wi = rng.randint(0, len(wl) - 1)
    text = rt(4 if small else 14)
    cur = rng.randint(0, len(text))
    sel = [] if rng.random() < 0.6 else [rng.randint(0, len(text)), rng.randint(0, 1)]
    pref = [] if rng.random() < 0.6 else [rng.randint(0, 5)]
    return [S(text), cur, sel, [], 1 if rng.random() < 0.15 else 0, pref, [S(l) for l in wl], wi]


def rand_bop(rng, tlen):
    k = rng.choice([1, 2, 3, 4, 4, 5, 6, 7, 8, 9, 9, 10, 10, 11, 12, 13, 14, 15, 16, 17, 18, 18])
    cnt = lambda: rng.choice([-1, 0, 1, 1, 1, 2, 3, tlen + 1, 10 ** 6])  # noqa
    rt = lambda n: "".join(rng.choice(["a", " ", "\n", "界"]) for _ in range(rng.randint(0, n)))  # noqa
    if k == 1:
        return [1, S(rt(8))]
    if k == 2:
        return [2, rng.randint(-3, tlen + 3)]
    if k == 3:
        t = rt(8)
        return [3, S(t), rng.randint(-1, len(t) + 1), rng.randint(0, 1)]
    if k == 4:
        return [4, S(rt(3)), rng.randint(0, 1), rng.randint(0, 1)]
    if k in (5, 6, 7, 8, 9, 10, 14, 15):
        return [k, cnt()]
    if k == 11:
        return [11, rng.randint(0, 2)]
    if k == 12:
        return [12]
    if k == 13:
        return [13, rng.randint(-7, 6)]
    if k in (16, 17):
        return [k, cnt(), rng.randint(0, 1)]
    return [18, S(rt(4)), rng.randint(0, 1), rng.randint(0, 2), rng.choice([-1, 0, 1, 1, 2, 3])]


def gen_bop_cases(chk):
    rng = chk.rng
    n = 6000 if chk.tier == "thorough" else 900
    cases = []
    for _ in range(n):
        st = rand_state(rng, small=rng.random() < 0.5)
        ops = [rand_bop(rng, len(st[0])) for _ in range(rng.randint(1, 12))]
        cases.append([3, st + [0, 0, 0, [], 0, 0], ops])
    return cases


# --------------------------------------------------------------------------
# L2: _fix_vi_cursor_position on live states

def fixvi_cases_and_results(chk):
    """Live states pushed through the real KeyProcessor._call_handler with a
    handler that does nothing: what remains is the post-command work
    (_fix_vi_cursor_position, leaving temporary navigation mode).  The model
    side is `call_handler HIgnore` (case kind 2, handler 27)."""
    import asyncio
    rng = chk.rng
    n = 1500 if chk.tier == "thorough" else 400
    states = []
    for _ in range(n):
        st = rand_state(rng, small=rng.random() < 0.6)
        st[3] = []
        vi = [rng.choice([1, 1, 1, 0]), rng.choice([0, 1, 2, 2, 2, 3, 4]), 1 if rng.random() < 0.1 else 0, [],
              1 if rng.random() < 0.1 else 0, 1 if rng.random() < 0.15 else 0]
        if vi[2]:
            vi[3] = [rng.randint(1, 3)]
        states.append(st + vi)

    async def main():
        from prompt_toolkit.application.current import set_app
        from prompt_toolkit.document import Document
        from prompt_toolkit.enums import EditingMode
        from prompt_toolkit.filters import to_filter
        from prompt_toolkit.key_binding.key_bindings import Binding
        from prompt_toolkit.key_binding.key_processor import KeyPress
        from prompt_toolkit.key_binding.vi_state import InputMode
        from prompt_toolkit.keys import Keys
        from prompt_toolkit.selection import SelectionState, SelectionType
        s = drv.Session({"mode": "vi", "multiline": True, "text": "", "history": []})
        await s.start()
        out = []
        modes = [InputMode.INSERT, InputMode.INSERT_MULTIPLE, InputMode.NAVIGATION, InputMode.REPLACE, InputMode.REPLACE_SINGLE]
        noop = Binding((Keys.Any,), handler=lambda event: None)
        try:
            app = s.app
            b = s.session.default_buffer
            with set_app(app):
                for st in states:
                    text, cur, sel, mc, ro, pref, wl, wi, evi, mode, op, oparg, dg, tmp = st
                    b.read_only = to_filter(False)
                    b.set_document(Document(unS(text), cur), bypass_readonly=True)
                    b.selection_state = SelectionState(sel[0], [SelectionType.CHARACTERS, SelectionType.LINES][sel[1]]) if sel else None
                    b.multiple_cursor_positions = []
                    b.preferred_column = pref[0] if pref else None
                    b.read_only = to_filter(bool(ro))
                    app.editing_mode = EditingMode.VI if evi else EditingMode.EMACS
                    vs = app.vi_state
                    vs.input_mode = modes[mode]
                    vs.operator_func = (lambda e, t: None) if op else None
                    vs.operator_arg = oparg[0] if oparg else None
                    vs.waiting_for_digraph = bool(dg)
                    vs.temporary_navigation_mode = bool(tmp)
                    app.key_processor.arg = None
                    pre = sx_norm(s.model_state())
                    code = 0
                    try:
                        with_watchdog(lambda: app.key_processor._call_handler(noop, [KeyPress("x")]), 5)
                    except Exception:  # noqa
                        code = 99
                    out.append((pre, [code, sx_norm(s.model_state())]))
        finally:
            await s.finish()
        return out
    results = asyncio.run(main())
    cases = [[2, 27, pre, 1, []] for pre, _ in results]
    return cases, [r for _, r in results]


def oracle_fixvi(case, res):
    """C05_vi_fixup on the implementation's result."""
    if res[0] != 0:
        return "_call_handler raised with a handler that does nothing"
    st = res[1]
    text, cur = unS(st[0]), st[1]
    evi, mode, op, dg, tmp, ro, sel = st[8], st[9], st[10], st[12], st[13], st[4], st[2]
    nav = evi and not op and not dg and not sel and (mode == 2 or tmp or ro)
    if not nav:
        return None
    a = text.rfind("\n", 0, cur) + 1
    e = text.find("\n", cur)
    e = len(text) if e < 0 else e
    if e > a and cur == e:
        return "after _fix_vi_cursor_position the cursor %d rests past the end of the non-empty line %r" % (cur, text[a:e])
    return None


# --------------------------------------------------------------------------

def gen_explore_cases(chk, all_keys):
    rng = chk.rng
    thorough = chk.tier == "thorough"
    cases = []
    dist = {"random": 0, "exhaustive_vi": 0, "directed": 0}
    # directed: the families known by hand, and short probes around every multi-key prefix
    directed = [
        (dict(mode="emacs", multiline=True, text="hello\nworld", cursor=3), ["<escape>", "-", "<down>"]),
        (dict(mode="emacs", multiline=True, text="hello\nworld", cursor=8), ["<escape>", "0", "<up>"]),
        (dict(mode="vi", multiline=False, text="hello world", cursor=3), ["<escape>", '"', "a", "y", "w"]),
        (dict(mode="vi", multiline=False, text="hello world", cursor=3), ["<escape>", '"', "a", "d", "^"]),
        (dict(mode="vi", multiline=False, text="hello world", cursor=3), ["<escape>", "c", "f", "<escape>"]),
        (dict(mode="emacs", multiline=False, text="hello", cursor=3), ["<s-left>", "<c-c>", "<c-m>"]),
        (dict(mode="vi", multiline=True, text="ab\ncd\nef", cursor=0), gen.tokenize("<escape><c-v>jlIxy<backspace><delete><left><right><escape>")),
        (dict(mode="vi", multiline=True, text="ab\ncd\nef", cursor=1), gen.tokenize("<escape><c-v>jA<paste:><paste:zz>q<escape>")),
        (dict(mode="vi", multiline=True, text="abc\ndef\nghi", cursor=1, history=["x"]), gen.tokenize("<escape><c-v>jjA<c-up><backspace>z")),
        (dict(mode="emacs", multiline=False, text="foo bar foo", cursor=5, read_only=True), gen.tokenize("<c-r>foo<c-m><escape>-n")),
        (dict(mode="emacs", multiline=False, text="ab", cursor=1, clipboard=["whole line", "LINES"]), gen.tokenize("<escape>0<c-y>")),
        (dict(mode="vi", multiline=True, text="ab cd\n\nef", cursor=3, history=["h1"]), ["<escape>", '"', "<c-m>", "k"]),
        (dict(mode="vi", multiline=True, text="abc\ndef\nghi", cursor=1, history=["x"]), gen.tokenize("<escape><c-v>jjA<pageup><backspace>")),
        (dict(mode="vi", multiline=True, text="foo bar", cursor=2, read_only=True), ["<escape>", "<", "<end>", "L"]),
    ]
    for cfg, keys in directed:
        cases.append((cfg, keys))
        dist["directed"] += 1
    nrand = 6000 if thorough else 650
    for _ in range(nrand):
        cfg = gen.rand_config(rng)
        cases.append((cfg, gen.rand_keys(rng, cfg, all_keys, maxlen=60 if thorough else 40)))
        dist["random"] += 1
    dist["block_insert_family"] = dist["search_family"] = 0
    for cfg, keys in gen.block_insert_family(thorough):
        cases.append((cfg, keys))
        dist["block_insert_family"] += 1
    for cfg, keys in gen.search_family(thorough):
        cases.append((cfg, keys))
        dist["search_family"] += 1
    for name, fam in (("ctrl_o_family", gen.ctrl_o_family), ("history_count_family", gen.history_count_family),
                      ("search_history_family", gen.search_history_family), ("completion_family", gen.completion_family),
                      ("long_arg_family", gen.long_arg_family), ("yank_arg_family", gen.yank_arg_family),
                      ("empty_line_operator_family", gen.empty_line_operator_family),
                      ("insert_completion_family", gen.insert_completion_family)):
        dist[name] = 0
        for cfg, keys in fam(thorough):
            cases.append((cfg, keys))
            dist[name] += 1
    if thorough:
        for cfg, keys in gen.exhaustive_vi_thorough():
            cases.append((cfg, keys))
            dist["exhaustive_vi"] += 1
    else:
        for cfg, keys in gen.exhaustive_vi_quick():
            cases.append((cfg, keys))
            dist["exhaustive_vi"] += 1
    return cases, dist


def main(tier):
    if os.environ.get("VERIF_C05_DEBUG"):
        import faulthandler
        faulthandler.dump_traceback_later(int(os.environ["VERIF_C05_DEBUG"]), exit=True)
    chk = Check(PROP, tier)
    pr = chk.proofs("Props/C05.v", tables=TABLES)
    okm, logm = build_model("c05", "Extract/ExC05.v", "run_C05", tables=TABLES)
    if not okm:
        chk.violation("tie", "model does not build: " + logm[-400:], {"kind": "model-build"}, {"log": logm[-3000:]}, no_input=True)
        proof_gate(chk, pr)
        return chk.finish()

    all_keys = gen.table_keys()
    cases, dist = gen_explore_cases(chk, all_keys)
    procs = int(os.environ.get("VERIF_C05_PROCS", "4"))
    parts = run_exploration(chk, cases, procs)

    # ---- merge
    dispatch, handler = {}, {}
    handlers_seen, modes, outcomes = {}, {}, {}
    nseq = nkeys = nontriv = mism = 0
    fails, hangs = [], []
    for p in parts:
        nseq += p["n"]
        nkeys += p["keys"]
        nontriv += p["nontrivial"]
        mism += p["registry_mismatch"]
        fails += p["fails"]
        hangs += p["hangs"]
        for k, v in p["dispatch"].items():
            dispatch.setdefault(k, v)
        for k, v in p["handler"].items():
            handler.setdefault(k, v)
        for d, src in ((handlers_seen, p["handlers_seen"]), (modes, p["modes"]), (outcomes, p["outcomes"])):
            for k, v in src.items():
                d[k] = d.get(k, 0) + v
    chk.coverage["evaluations"] += nkeys
    if mism:
        chk.violation("tie", "the live key-binding registry differs from the regenerated table in %d sessions" % mism,
                      {"kind": "registry"}, {"sessions": mism}, no_input=True)

    # ---- oracle failures on the real editor: one (shrunk) report per family
    seen = {}
    oracle_failed_any = False
    for tags, clause, cfg, keys, j in fails:
        key = json.dumps(tags, sort_keys=True)
        if key not in seen or len(keys) < len(seen[key][3]):
            seen[key] = (tags, clause, cfg, keys, seen.get(key, (0, 0, 0, 0, 0))[4] + 1 if key in seen else 1)
        else:
            t = seen[key]
            seen[key] = (t[0], t[1], t[2], t[3], t[4] + 1)
    for key, (tags, clause, cfg, keys, cnt) in sorted(seen.items()):
        known = match_known(chk.known, tags)
        if known is None and tags.get("clause") != "driver":
            keys = shrink(cfg, keys, tags)
            oracle_failed_any = True
        for _ in range(cnt if known is not None else 1):
            chk.violation("oracle", "%s; config=%s keys=%s" % (clause, json.dumps(cfg, ensure_ascii=False), show_keys(keys)),
                          tags, {"cfg": cfg, "keys": keys, "clause": clause,
                                 "how": "PromptSession on pipe input + DummyOutput; keys fed one by one through app.key_processor (harness/c05_drive.py run_case)"})
    if hangs:
        chk.note("liveness observation (not claimed by C05): %d sequence(s) did not return within the watchdog, e.g. config=%s keys=%s"
                 % (len(hangs), json.dumps(hangs[0][0], ensure_ascii=False), " ".join(hangs[0][1])))

    # ---- correspondence: dispatch + handler cases seen live, Buffer mutators, fix_vi
    dcases = [json.loads(k) for k in dispatch]
    dres = [dispatch[k] for k in dispatch]
    hkeys = list(handler)
    hcases = [json.loads(k) for k in hkeys]
    hres = [handler[k][0] for k in hkeys]
    hnames = [handler[k][1] for k in hkeys]
    bcases = gen_bop_cases(chk)
    bres, b_bad = [], set()
    for i, c in enumerate(bcases):
        out, trace = impl_bops(c)
        bres.append(out)
        chk.count_case(c, any(tr[1] == 0 and (tr[2], tr[3]) != (tr[4], tr[5]) for tr in trace))
        for tr in trace:
            bad = oracle_bop(*tr)
            if bad:
                b_bad.add(i)
                chk.violation("oracle", "Buffer.%s: %s (case %r)" % (BOPS[tr[0][0]], bad, c),
                              {"clause": "buffer-layer", "op": BOPS[tr[0][0]]}, {"case": c, "clause": bad})
                break
    fcases, fres = fixvi_cases_and_results(chk)
    f_bad = set()
    for i, (c, r) in enumerate(zip(fcases, fres)):
        chk.count_case(c, c[2][1] != r[1][1])
        bad = oracle_fixvi(c, r)
        if bad:
            f_bad.add(i)
            chk.violation("oracle", bad, {"clause": "vi-nav-cursor", "layer": "fix"}, {"case": c, "clause": bad})
    acases, astrs = arg_cases(chk)
    ares, a_bad = [], set()
    for i, (c, s) in enumerate(zip(acases, astrs)):
        r = with_watchdog(lambda: impl_arg(s), 10)
        ares.append(r)
        chk.count_case(c, s not in (None, "", "-"))
        if r[0] != 0:
            # property text: no exception escapes (event.arg is evaluated inside the key handlers)
            a_bad.add(i)
            nd_ = len((s or "").lstrip("-"))
            chk.violation("oracle", "KeyPressEvent.arg raises %s for an argument of %d digits (%s)"
                          % ({4: "ValueError", 1: "AssertionError"}.get(r[0], "?"), nd_, (s or "")[:12] + ("..." if len(s or "") > 12 else "")),
                          {"clause": "exception", "family": "arg-too-many-digits" if nd_ > 4300 else "arg-value-error-short",
                           "layer": "event-arg"}, {"arg": s, "how": "KeyPressEvent(ref, arg, [], [], False).arg"})
    allcases = dcases + hcases + bcases + fcases + acases
    allres = dres + hres + bres + fres + ares
    nd, nh, nb = len(dcases), len(hcases), len(bcases)
    nf = len(fcases)
    for c in dcases:
        chk.count_case(c, True)
    for c in hcases:
        chk.count_case(c, True)

    def tagger(c, a, m):
        k = c[0]
        if k == 1:
            return {"layer": "dispatch", "keys": json.dumps(c[2])}
        if k in (2, 5, 7):
            i = allcases.index(c)
            return {"layer": "handler", "handler": hnames[i - nd].split(".")[-1] if nd <= i < nd + nh else "?"}
        if k == 3:
            for j, (x, y) in enumerate(zip(a, m if isinstance(m, list) else [])):
                if x != y:
                    return {"layer": "buffer", "op": BOPS.get(c[2][j][0], "?")}
            return {"layer": "buffer"}
        if k == 6:
            return {"layer": "event-arg"}
        return {"layer": "?"}

    def oracle_failed(i):
        if i < nd + nh:
            return oracle_failed_any
        if i < nd + nh + nb:
            return (i - nd - nh) in b_bad
        if i < nd + nh + nb + nf:
            return (i - nd - nh - nb) in f_bad
        return (i - nd - nh - nb - nf) in a_bad

    model_results, nbad = correspondence(
        chk, "c05", allcases, allres, tagger,
        describe=lambda c, a, m: "case=%r impl=%r model=%r" % (str(c)[:300], str(a)[:200], str(m)[:200]),
        oracle_failed=oracle_failed)

    k = 600 if chk.tier == "thorough" else 120
    idx = sorted(chk.rng.sample(range(len(allcases)), min(k, len(allcases))))
    pairs = [(allcases[i], allres[i]) for i in idx]
    bad, logs = vm_crosscheck(PROP, "run_C05", "Model.C05_Run", pairs, per_file=60)
    chk.coverage["vm_compute_crosschecked"] = len(pairs)
    model_bad = set(i for i, (a, m) in enumerate(zip(allres, model_results)) if sx_norm(a) != m)
    vm_bad = set(idx[b] for b in bad if isinstance(b, int))
    if any(not isinstance(b, int) for b in bad):
        chk.violation("tie", "vm_compute cross-check failed to run: " + (logs[0][-300:] if logs else ""), {"kind": "vm"}, {"log": logs}, no_input=True)
    elif vm_bad != (model_bad & set(idx)):
        chk.violation("tie", "extracted model and in-Coq evaluation disagree on cases %r" % sorted(vm_bad ^ (model_bad & set(idx)))[:5],
                      {"kind": "extraction"}, {"cases": [allcases[i] for i in sorted(vm_bad ^ (model_bad & set(idx)))[:5]]}, no_input=True)

    proof_gate(chk, pr)
    t = c05_table.dump_table("default")
    modelled_seen = sorted(set(n for n in hnames))
    chk.coverage["input_distribution"] = dict(
        dist, sequences=nseq, key_presses=nkeys, sequences_changing_state=nontriv, outcomes=outcomes, vi_modes_visited=modes,
        distinct_handlers_dispatched=len(handlers_seen), handlers_in_table=len(set(b["handler"] for b in t["bindings"])),
        dispatch_cases=nd, handler_cases=nh, modelled_handlers_exercised=len(modelled_seen), buffer_op_cases=nb,
        fix_vi_cases=len(fcases), table_bindings=len(t["bindings"]), table_atoms=len(t["atoms"]), hangs=len(hangs))
    chk.coverage["rule"] = (
        "evaluations = key presses delivered to a real PromptSession (oracle evaluated after each) + Buffer-operation and "
        "fix_vi cases; distinct non-trivial = distinct (valuation, key buffer) dispatch cases + distinct (handler, state, arg, data) "
        "cases + Buffer/fix cases that changed state; exploration: random sequences (<= %d keys) over printable characters, every key of "
        "the binding table, counts, register/macro prefixes, both modes x single/multi-line x read-only x 16 seed texts + random texts; "
        "exhaustive Vi sequences of length <= %d over a 24-key alphabet on seed documents" % (60 if tier == "thorough" else 40, 3 if tier == "thorough" else 2))
    chk.sample({"dispatch_case": dcases[0] if dcases else None, "result": dres[0] if dres else None})
    if hcases:
        chk.sample({"handler_case": str(hcases[0])[:300], "handler": hnames[0], "result": str(hres[0])[:200]})
    chk.assumptions += [
        "proved: buffer layer (18 mutators), Vi cursor fix, Escape dispatch over the regenerated table for all atom valuations, 38 handler models; "
        "also proved: working index within range (all mutators), multiple-cursor range invariant for entering insert-multiple mode and for its five editing handlers, dispatch soundness for any key buffer, "
        "Escape behind ANY key buffer over the regenerated table (induction over the retry loop of _process; at most two keys are ever pending), "
        "KeyPressEvent.arg with int()'s 4300-digit limit (total since fix 7b1fd9f, the code before it pinned with its refuted witness); "
        "everything else (the other ~290 handlers, "
        "foreign edits in insert-multiple mode, completion/search/undo state, the accumulation of the argument string) is explored with the oracle, not proved",
        "Escape theorem hypotheses: vi_mode, not emacs_mode, buffer_has_focus, not in_quoted_insert at every evaluation of the retry loop, application not finished",
        "accept_search is modelled only in its effect on the Vi state (its early returns are unreachable under its is_searching filter)",
        "history search (enable_history_search), completion state and BLOCK clipboard data are outside the Buffer model",
        "multiple-cursor range: invariant theorem for the five insert-multiple handlers (C05_multicursor_inv) and for entering the mode (C05_enter_insert_multiple); foreign edits while in it are oracle + correspondence only",
        "mouse events, CPR responses with malformed data, suspend, open-in-editor and system prompt keys are not key presses of the quantifier and are not fed",
        "a hang (e.g. recursive macro) is a liveness observation outside the property text: recorded as NOTE, not claimed",
    ]
    return chk.finish()


def replay(data):
    rep = data["replay"]
    if "cfg" in rep:
        r = drv.run_case(rep["cfg"], rep["keys"])
        rc = 0
        n = len(r["trace"])
        for i, (tok, exc, b, a) in enumerate(r["trace"]):
            if n > 200 and not exc and 20 <= i < n - 5:
                if i == 20:
                    print("... (%d keys without exception not shown)" % (n - 25))
                continue
            print("%-12s exc=%s text=%r cursor=%d mode=%s op=%s sel=%s mc=%s" % (tok, exc, a["text"], a["cur"], a["mode"], a["op"], a["sel"], a["mc"]))
        for tags, cl, j in judge(rep["cfg"], rep["keys"], r):
            print("ORACLE FAILS at key %d (%s): %s %r" % (j, rep["keys"][j] if j < len(rep["keys"]) else "?", cl, tags))
            rc = 1
        print("outcome:", r["outcome"])
        return rc
    if "arg" in rep:
        r = impl_arg(rep["arg"])
        s = rep["arg"] or ""
        print("KeyPressEvent.arg for an argument string of %d characters (%s...) -> %s"
              % (len(s), s[:12], {0: "value %r" % (r[1:],), 4: "ValueError", 1: "AssertionError"}[r[0]]))
        if r[0] != 0:
            print("ORACLE FAILS: an exception escapes (event.arg is evaluated inside the key handler)")
        return 0 if r[0] == 0 else 1
    case = rep["case"]
    if case[0] == 3:
        out, trace = impl_bops(case)
        rc = 0
        for tr in trace:
            bad = oracle_bop(*tr)
            print("op=%s%r -> code=%d text=%r cursor=%d  %s" % (BOPS[tr[0][0]], tr[0][1:], tr[1], tr[4], tr[5], "ORACLE FAILS: " + bad if bad else "oracle ok"))
            rc = rc or (1 if bad else 0)
        m = run_model("c05", [case])[0]
        print("model agrees" if m == sx_norm(out) else "model differs: %r" % (m,))
        return rc
    m = run_model("c05", [case])[0]
    print("case:", case)
    print("implementation:", rep.get("impl"))
    print("model now:", m)
    return 0 if m == rep.get("impl") else 1
