"""Shared machinery of the /verif checks.

A property module (harness/cNN.py) describes:
  PROP            "C01"
  TABLES          names for gen/gen_tables.py to regenerate from /repo
  COQ_PROPS       "Props/C01.v" (theorem statements; its closure is the proof obligation set)
  MODELS          {name: (extract_v, ml_basename, run_function)} extracted model binaries
and calls the helpers below.  Everything that touches /repo does so through
PYTHONPATH=/repo/src with the working tree as it is now.
"""
import fcntl
import hashlib
import json
import os
import shutil
import random
import re
import signal
import subprocess
import sys
import time

VERIF = os.path.dirname(os.path.dirname(os.path.abspath(__file__)))
COQ = os.path.join(VERIF, "coq")
BUILD = os.path.join(VERIF, "build")
EVID = os.path.join(VERIF, "evidence")
REPLAY = os.path.join(VERIF, "replay")
PY = "/venv/bin/python"
COQ_TIMEOUT = int(os.environ.get("VERIF_COQ_TIMEOUT", "1500"))

# The registered commands always run against /repo.  VERIF_REPO=<scratch
# worktree> exists only so that mutation experiments can run in parallel
# without touching /repo; such runs write their evidence/replay files under
# build/scratch-* and never into /verif/evidence.
REPO = os.environ.get("VERIF_REPO", "/repo").rstrip("/")
SCRATCH = REPO != "/repo"
if SCRATCH:
    _tag = hashlib.sha1(REPO.encode()).hexdigest()[:8]
    EVID = os.path.join(BUILD, "scratch-" + _tag, "evidence")
    REPLAY = os.path.join(BUILD, "scratch-" + _tag, "replay")
sys.path.insert(0, REPO + "/src")
os.environ.setdefault("PYTHONHASHSEED", "0")


def assert_repo():
    import prompt_toolkit
    f = os.path.realpath(prompt_toolkit.__file__)
    if not f.startswith(REPO + "/src/"):
        raise SystemExit("prompt_toolkit imported from %s, not %s/src" % (f, REPO))


# --------------------------------------------------------------------------
# S-expressions (wire format shared with coq/Lib/Sx.v)

def S(s):
    """str -> list of code points"""
    return [ord(c) for c in s]


def unS(l):
    return "".join(chr(c) for c in l)


def sx_dump(x):
    if isinstance(x, bool):
        return "1" if x else "0"
    if isinstance(x, int):
        return str(x)
    if isinstance(x, str):
        return "(" + " ".join(str(ord(c)) for c in x) + ")"
    if x is None:
        return "()"
    return "(" + " ".join(sx_dump(y) for y in x) + ")"


def sx_norm(x):
    """canonical python value: ints and nested lists only"""
    if isinstance(x, bool):
        return 1 if x else 0
    if isinstance(x, int):
        return x
    if isinstance(x, str):
        return [ord(c) for c in x]
    if x is None:
        return []
    return [sx_norm(y) for y in x]


def sx_parse(s):
    toks = re.findall(r"\(|\)|-?\d+", s)
    pos = 0

    def go():
        nonlocal pos
        t = toks[pos]
        pos += 1
        if t == "(":
            out = []
            while toks[pos] != ")":
                out.append(go())
            pos += 1
            return out
        return int(t)
    v = go()
    if pos != len(toks):
        raise ValueError("trailing tokens in sx: %r" % s[:80])
    return v


def sx_coq(x):
    x = sx_norm(x)
    if isinstance(x, int):
        return "A (%d)" % x if x < 0 else "A %d" % x
    return "L [" + "; ".join(sx_coq(y) for y in x) + "]"


# --------------------------------------------------------------------------
# Watchdog for implementation runs

class Hang(Exception):
    pass


def _alarm(signum, frame):
    raise Hang()


def with_watchdog(fn, seconds=5):
    """Run fn(); raise Hang if it takes longer than `seconds`."""
    old = signal.signal(signal.SIGALRM, _alarm)
    signal.setitimer(signal.ITIMER_REAL, seconds)
    try:
        return fn()
    finally:
        signal.setitimer(signal.ITIMER_REAL, 0)
        signal.signal(signal.SIGALRM, old)


# --------------------------------------------------------------------------
# Coq build

class BuildLock:
    def __enter__(self):
        os.makedirs(BUILD, exist_ok=True)
        self.f = open(os.path.join(BUILD, ".lock"), "w")
        fcntl.flock(self.f, fcntl.LOCK_EX)
        return self

    def __exit__(self, *a):
        fcntl.flock(self.f, fcntl.LOCK_UN)
        self.f.close()


def run(cmd, cwd=None, timeout=None, env=None, input=None):
    e = dict(os.environ)
    e["PYTHONPATH"] = REPO + "/src"
    e["PYTHONHASHSEED"] = "0"
    if env:
        e.update(env)
    try:
        p = subprocess.run(cmd, cwd=cwd, timeout=timeout, env=e, input=input,
                           stdout=subprocess.PIPE, stderr=subprocess.STDOUT, text=True)
        return p.returncode, p.stdout
    except subprocess.TimeoutExpired as ex:
        out = ex.stdout or ""
        if isinstance(out, bytes):
            out = out.decode("utf-8", "replace")
        return 124, out + "\n[timeout after %ss]" % timeout


def all_v_files():
    out = []
    for sub in ("Lib", "Gen", "Model", "Proofs", "Props"):
        d = os.path.join(COQ, sub)
        for root, _, files in os.walk(d):
            for f in files:
                if f.endswith(".v"):
                    out.append(os.path.relpath(os.path.join(root, f), COQ))
    return sorted(out)


def ensure_makefile():
    files = all_v_files()
    proj = "-Q . PTK\n-arg -w -arg -notation-overridden,-deprecated-hint-without-locality,-deprecated-instance-without-locality\n" + "\n".join(files) + "\n"
    p = os.path.join(COQ, "_CoqProject")
    old = open(p).read() if os.path.exists(p) else None
    if old != proj or not os.path.exists(os.path.join(COQ, "Makefile")):
        with open(p, "w") as f:
            f.write(proj)
        rc, out = run(["coq_makefile", "-f", "_CoqProject", "-o", "Makefile"], cwd=COQ, timeout=120)
        if rc != 0:
            raise SystemExit("coq_makefile failed:\n" + out)


def gen_tables(names):
    """Regenerate Gen/*.v from the working tree.  Returns (ok, output)."""
    if not names:
        return True, ""
    rc, out = run([PY, os.path.join(VERIF, "gen", "gen_tables.py")] + list(names), timeout=600)
    return rc == 0, out


_STMT = re.compile(r"^\s*(?:Local\s+|Global\s+)?(Theorem|Lemma|Corollary|Example|Fact|Proposition|Remark)\s+([A-Za-z0-9_']+)", re.M)


def coq_closure(vfile):
    """PTK files `vfile` (relative to coq/) depends on, transitively, including
    itself - computed by coqdep over every .v file of the development."""
    files = all_v_files()
    extra = [vfile] if vfile not in files else []
    rc, out = run(["coqdep", "-Q", ".", "PTK"] + files + extra, cwd=COQ, timeout=120)
    deps = {}
    for line in out.split("\n"):
        m = re.match(r"(\S+)\.vo .*?: (\S+\.v)((?: \S+\.vo)*)\s*$", line)
        if m:
            deps[m.group(2)] = [d[:-1] for d in m.group(3).split()]
    seen = []
    todo = [vfile]
    while todo:
        f = todo.pop()
        if f in seen:
            continue
        seen.append(f)
        todo.extend(deps.get(f, []))
    return [f for f in seen if os.path.exists(os.path.join(COQ, f))]


def count_statements(files):
    per = {}
    for f in files:
        src = open(os.path.join(COQ, f)).read()
        src = re.sub(r"\(\*.*?\*\)", "", src, flags=re.S)
        per[f] = [m.group(2) for m in _STMT.finditer(src)]
    return per


FORBIDDEN = re.compile(r"\b(Admitted|admit|Axiom|Axioms|Parameter|Parameters|Conjecture|Conjectures|Hypothesis|Hypotheses|Variable|Variables|Unset\s+Guard|bypass_check|type-in-type|impredicative-set|Admit\s+Obligations)\b")


def forbidden_scan(files):
    """Forbidden declarations in the closure.  Variable/Hypothesis are allowed
    inside a Section only."""
    bad = []
    for f in files:
        src = open(os.path.join(COQ, f)).read()
        src = re.sub(r"\(\*.*?\*\)", lambda m: " " * len(m.group(0)), src, flags=re.S)
        depth = 0
        for ln, line in enumerate(src.split("\n"), 1):
            if re.match(r"\s*Section\s+\w+", line):
                depth += 1
            if re.match(r"\s*End\s+\w+", line) and depth > 0:
                depth -= 1
            for m in FORBIDDEN.finditer(line):
                w = m.group(1)
                if w.startswith(("Variable", "Hypothes")) and depth > 0:
                    continue
                bad.append("%s:%d:%s" % (f, ln, w))
    return bad


def enclosing_statement(vfile, line):
    try:
        src = open(os.path.join(COQ, vfile)).read().split("\n")
    except OSError:
        return None
    for i in range(min(line, len(src)) - 1, -1, -1):
        m = _STMT.match(src[i])
        if m:
            return m.group(2)
    return None


class ProofResult:
    def __init__(self):
        self.ok = False
        self.log = ""
        self.closure = []
        self.statements = {}
        self.obligations = 0
        self.discharged = 0
        self.assumptions = {}      # theorem -> text
        self.failed_at = None      # (file, line, lemma)
        self.forbidden = []
        self.checker_cmd = ""


def build_proofs(props_v, jobs=8, tables=()):
    """Regenerate `tables` from the working tree, make the .vo closure of
    coq/<props_v>, then recompile the Props file itself to capture Print
    Assumptions.  All under the global build lock."""
    r = ProofResult()
    with BuildLock():
        okg, outg = gen_tables(tables)
        r.gen_ok, r.gen_log = okg, outg
        if not okg:
            r.log = outg
            r.failed_at = ("gen/gen_tables.py", 0, "table generation")
            return r
        ensure_makefile()
        target = props_v[:-2] + ".vo"
        r.checker_cmd = "cd coq && make -j%d %s && coqc -Q . PTK %s" % (jobs, target, props_v)
        rc, out = run(["make", "-j%d" % jobs, target], cwd=COQ, timeout=COQ_TIMEOUT)
        r.log = out
        r.closure = coq_closure(props_v)
        r.statements = count_statements(r.closure)
        r.obligations = sum(len(v) for v in r.statements.values())
        r.forbidden = forbidden_scan(r.closure)
        if rc == 0:
            rc2, out2 = run(["coqc", "-Q", ".", "PTK", props_v], cwd=COQ, timeout=COQ_TIMEOUT)
            r.log += out2
            if rc2 == 0:
                r.ok = True
                r.assumptions = parse_assumptions(out2)
            else:
                rc = rc2
                out = out2
        if rc != 0:
            m = re.search(r'File "\./([^"]+)", line (\d+)', out)
            if m:
                f, ln = m.group(1), int(m.group(2))
                r.failed_at = (f, ln, enclosing_statement(f, ln))
            else:
                r.failed_at = (props_v, 0, None)
        # discharged = statements in files whose .vo is present and newer than the source
        for f, names in r.statements.items():
            vo = os.path.join(COQ, f[:-2] + ".vo")
            if os.path.exists(vo) and os.path.getmtime(vo) >= os.path.getmtime(os.path.join(COQ, f)):
                if r.ok or not (r.failed_at and r.failed_at[0] == f):
                    r.discharged += len(names)
    return r


def parse_assumptions(out):
    """Output of a Props file: each `Print Assumptions T.` prints either
    'Closed under the global context' or 'Axioms:' + list.  We key them in
    order of appearance (the caller zips with the theorem names)."""
    blocks = []
    cur = None
    for line in out.split("\n"):
        if line.startswith("Closed under the global context"):
            blocks.append("Closed under the global context")
            cur = None
        elif line.startswith("Axioms:"):
            cur = [line]
            blocks.append(cur)
        elif cur is not None:
            if line.strip() == "" and False:
                cur = None
            else:
                cur.append(line)
    return ["\n".join(b).strip() if isinstance(b, list) else b for b in blocks]


# --------------------------------------------------------------------------
# Extracted model binaries

DRIVER_ML = r'''
open %(MOD)s
let rec pos_of_int n = if n = 1 then XH else if n land 1 = 0 then XO (pos_of_int (n lsr 1)) else XI (pos_of_int (n lsr 1))
let z_of_int n = if n = 0 then Z0 else if n > 0 then Zpos (pos_of_int n) else Zneg (pos_of_int (-n))
let rec int_of_pos = function XH -> 1 | XO p -> 2 * int_of_pos p | XI p -> 2 * int_of_pos p + 1
let int_of_z = function Z0 -> 0 | Zpos p -> int_of_pos p | Zneg p -> - (int_of_pos p)
let parse (s : string) : sx =
  let n = String.length s in
  let i = ref 0 in
  let skip () = while !i < n && (s.[!i] = ' ' || s.[!i] = '\n' || s.[!i] = '\r') do incr i done in
  let rec go () : sx =
    skip ();
    if s.[!i] = '(' then begin
      incr i;
      let acc = ref [] in
      skip ();
      while s.[!i] <> ')' do acc := go () :: !acc; skip () done;
      incr i;
      L (List.rev !acc)
    end else begin
      let j = !i in
      if s.[!i] = '-' then incr i;
      while !i < n && s.[!i] >= '0' && s.[!i] <= '9' do incr i done;
      A (z_of_int (int_of_string (String.sub s j (!i - j))))
    end in
  go ()
let rec print (b : Buffer.t) (x : sx) : unit =
  match x with
  | A z -> Buffer.add_string b (string_of_int (int_of_z z))
  | L l ->
      Buffer.add_char b '(';
      List.iteri (fun k y -> if k > 0 then Buffer.add_char b ' '; print b y) l;
      Buffer.add_char b ')'
let () =
  let b = Buffer.create 65536 in
  (try
    while true do
      let line = input_line stdin in
      if String.length line > 0 then begin
        Buffer.clear b;
        (try print b (%(RUN)s (parse line)) with Stack_overflow -> Buffer.add_string b "(-998)");
        Buffer.add_char b '\n';
        print_string (Buffer.contents b)
      end
    done
  with End_of_file -> ())
'''


def build_model(name, extract_v, run_fn, tables=()):
    """Extract coq/<extract_v> (which must end with `Extraction "<name>_model.ml" ...`)
    and link it with the generic line driver into build/<name>_model.
    Returns (ok, log).  Rebuilt when any .vo in the closure is newer."""
    exe = os.path.join(BUILD, name + "_model")
    with BuildLock():
        okg, outg = gen_tables(tables)
        if not okg:
            return False, outg
        ensure_makefile()
        closure = coq_closure(extract_v)
        deps = [c for c in closure if c != extract_v]
        log = ""
        for d in deps:
            pass
        targets = [d[:-2] + ".vo" for d in deps]
        rc, out = run(["make", "-j8"] + targets, cwd=COQ, timeout=COQ_TIMEOUT)
        log += out
        if rc != 0:
            return False, log
        newest = max(os.path.getmtime(os.path.join(COQ, d[:-2] + ".vo")) for d in deps)
        newest = max(newest, os.path.getmtime(os.path.join(COQ, extract_v)),
                     os.path.getmtime(os.path.abspath(__file__)))
        if os.path.exists(exe) and os.path.getmtime(exe) >= newest:
            return True, log
        rc, out = run(["coqc", "-Q", COQ, "PTK", os.path.join(COQ, extract_v)], cwd=BUILD, timeout=COQ_TIMEOUT)
        log += out
        if rc != 0:
            return False, log
        mod = (name + "_model")
        mod = mod[0].upper() + mod[1:]
        drv = os.path.join(BUILD, name + "_driver.ml")
        with open(drv, "w") as f:
            f.write(DRIVER_ML % {"MOD": mod, "RUN": run_fn})
        rc, out = run(["ocamlfind", "ocamlopt", "-O2" if False else "-inline", "20", "-w", "-a",
                       name + "_model.mli", name + "_model.ml", name + "_driver.ml", "-o", exe],
                      cwd=BUILD, timeout=600)
        log += out
        return rc == 0, log


def run_model(name, cases, timeout=1800, shards=8):
    """cases: list of python sx values -> list of python sx results."""
    exe = os.path.join(BUILD, name + "_model")
    if not cases:
        return []
    n = len(cases)
    shards = max(1, min(shards, n // 200 + 1))
    chunks = [cases[i::shards] for i in range(shards)]
    procs = []
    for ch in chunks:
        data = "\n".join(sx_dump(c) for c in ch) + "\n"
        p = subprocess.Popen(["/bin/sh", "-c", "ulimit -s unlimited 2>/dev/null; exec " + exe],
                             stdin=subprocess.PIPE, stdout=subprocess.PIPE, text=True)
        procs.append((p, data))
    outs = []
    import threading
    results = [None] * shards

    def work(k):
        p, data = procs[k]
        try:
            o, _ = p.communicate(data, timeout=timeout)
        except subprocess.TimeoutExpired:
            p.kill()
            o = ""
        results[k] = o
    ths = [threading.Thread(target=work, args=(k,)) for k in range(shards)]
    for t in ths:
        t.start()
    for t in ths:
        t.join()
    out = [None] * n
    for k in range(shards):
        lines = [l for l in (results[k] or "").split("\n") if l]
        idxs = list(range(k, n, shards))
        for j, i in enumerate(idxs):
            out[i] = sx_parse(lines[j]) if j < len(lines) else ["MODEL-NO-OUTPUT"]
    return out


def vm_crosscheck(prop, run_fn, require, pairs, per_file=400, jobs=8):
    """Evaluate the model inside Coq (vm_compute) on (case, expected) pairs and
    return the indices where they differ.  Checks the extraction + driver."""
    os.makedirs(BUILD, exist_ok=True)
    files = []
    for k in range(0, len(pairs), per_file):
        part = pairs[k:k + per_file]
        name = "cases_%s_p%d_%d" % (prop, os.getpid(), k // per_file)
        path = os.path.join(BUILD, name + ".v")
        with open(path, "w") as f:
            f.write("From Coq Require Import ZArith List.\nImport ListNotations.\nOpen Scope Z_scope.\n")
            f.write("From PTK Require Import Lib.Sx %s.\n" % require)
            f.write("Definition cases : list (sx * sx) := [\n")
            f.write(";\n".join("(%s, %s)" % (sx_coq(c), sx_coq(o)) for c, o in part))
            f.write("].\nEval vm_compute in (mismatches %s cases).\n" % run_fn)
        files.append((k, path))
    bad = []
    procs = []
    logs = []

    def launch(k, path):
        return subprocess.Popen(["/bin/sh", "-c", "ulimit -s unlimited 2>/dev/null; exec timeout 900 coqc -Q %s PTK %s" % (COQ, path)],
                                cwd=BUILD, stdout=subprocess.PIPE, stderr=subprocess.STDOUT, text=True)
    pending = list(files)
    running = []
    while pending or running:
        while pending and len(running) < jobs:
            k, path = pending.pop(0)
            running.append((k, path, launch(k, path)))
        k, path, p = running.pop(0)
        out, _ = p.communicate()
        m = re.search(r"=\s*\[([^\]]*)\]", out)
        if p.returncode != 0 or not m:
            logs.append(out[-2000:])
            bad.append(("coqc-failed", k))
        else:
            for t in re.findall(r"-?\d+", m.group(1)):
                bad.append(k + int(t))
        for ext in (".v", ".vo", ".glob", ".vok", ".vos"):
            try:
                os.remove(path[:-2] + ext)
            except OSError:
                pass
        try:
            os.remove(os.path.join(BUILD, "." + os.path.basename(path)[:-2] + ".aux"))
        except OSError:
            pass
    return bad, logs


# --------------------------------------------------------------------------
# Known findings, violations, evidence

def load_known(prop):
    p = os.path.join(VERIF, "known_findings.json")
    if not os.path.exists(p):
        return []
    data = json.load(open(p))
    return [f for f in data.get("findings", []) if f.get("property") == prop and f.get("status") == "known"]


def match_known(known, tags):
    for k in known:
        m = k.get("match", {})
        if m and all(tags.get(a) == b for a, b in m.items()):
            return k
    return None


class Check:
    """One run of one property's check."""

    def __init__(self, prop, tier):
        self.prop = prop
        self.tier = tier if tier in ("quick", "thorough") else "quick"
        self.seed = int(os.environ.get("VERIF_SEED", "0") or 0)
        self.rng = random.Random(self.seed * 1000003 + int(hashlib.sha1(prop.encode()).hexdigest()[:8], 16))
        self.t0 = time.time()
        self.known = load_known(prop)
        self.violations = []       # dicts
        self.known_hits = {}       # finding id -> count
        self.coverage = {"evaluations": 0, "distinct_nontrivial": 0, "samples": [],
                         "obligations": 0, "discharged": 0, "checker_cmd": "", "trusted_base": [],
                         "traces_validated_against_impl": 0}
        self.assumptions = []
        self.notes = []
        self._distinct = set()
        self._vkeys = {}
        self.violation_count = 0
        assert_repo()

    # -- bookkeeping
    def count_case(self, case, nontrivial):
        self.coverage["evaluations"] += 1
        if nontrivial:
            h = hashlib.sha1(json.dumps(sx_norm(case)).encode()).digest()[:8]
            self._distinct.add(h)

    def sample(self, obj, limit=6):
        if len(self.coverage["samples"]) < limit:
            self.coverage["samples"].append(obj)

    def note(self, s):
        self.notes.append(s)
        print("NOTE: " + s)
        sys.stdout.flush()

    # -- violations
    def violation(self, kind, what, tags, replay, no_input=False):
        k = match_known(self.known, tags)
        if k is not None:
            self.known_hits.setdefault(k["id"], [k, 0])[1] += 1
            return
        key = (kind, json.dumps(tags, sort_keys=True, default=str))
        n = self._vkeys.get(key, 0)
        self._vkeys[key] = n + 1
        self.violation_count += 1
        if n == 0:      # one report per (kind, tags) family: the first (smallest-scope) input found
            self.violations.append({"kind": kind, "what": what, "tags": tags, "replay": replay, "no_input": no_input, "key": key})

    def proofs(self, props_v, theorem_names=None, extra_trusted=(), tables=()):
        r = build_proofs(props_v, tables=tables)
        self.coverage["obligations"] = r.obligations
        self.coverage["discharged"] = r.discharged
        self.coverage["checker_cmd"] = r.checker_cmd
        self.coverage["proof_files"] = {f: len(v) for f, v in r.statements.items()}
        tb = ["Coq 8.16.1 kernel (coqc), vm_compute; no native_compute",
              "hand-written Gallina model tied to /repo by the correspondence run recorded in this file",
              "gen/gen_tables.py (tables regenerated from /repo on this run)",
              "extraction: ExtrOcamlBasic only; OCaml 4.13.1 ocamlopt; build/<prop>_driver.ml line driver (cross-checked by in-Coq vm_compute evaluation)",
              "CPython 3.12 (/venv/bin/python) as the implementation's runtime; harness generators/canonicalisers"]
        tb.extend(extra_trusted)
        self.coverage["trusted_base"] = tb
        names = theorem_names or r.statements.get(props_v, [])
        # `Print Assumptions X.` commands of the Props file, in order of appearance:
        # their outputs appear in the same order in coqc's output
        try:
            src = re.sub(r"\(\*.*?\*\)", "", open(os.path.join(COQ, props_v)).read(), flags=re.S)
        except OSError:
            src = ""
        printed = re.findall(r"Print\s+Assumptions\s+([A-Za-z0-9_']+)\s*\.", src)
        ax = {n: "(no Print Assumptions command)" for n in names}
        for i, n in enumerate(printed):
            ax[n] = r.assumptions[i] if r.ok and i < len(r.assumptions) else "(not checked)"
        self.coverage["print_assumptions"] = ax
        self.coverage["theorems"] = names
        if r.forbidden:
            self.violation("proof", "forbidden declaration in the development: " + ", ".join(r.forbidden[:5]),
                           {"kind": "forbidden"}, {"forbidden": r.forbidden}, no_input=True)
        if r.ok:
            nonclosed = {n: a for n, a in ax.items() if not a.startswith("Closed")}
            self.coverage["axioms_used"] = sorted(set(
                l.split(":")[0].strip() for a in nonclosed.values() for l in a.split("\n")[1:] if l and not l.startswith(" ")))
        if r.ok and self.tier == "thorough":
            # independent re-check of the compiled closure (coqchk) + its own axiom listing
            mod = "PTK." + props_v[:-2].replace("/", ".")
            # coqchk takes minutes, so it must neither hold the build lock nor be disturbed by a
            # concurrent rebuild of a shared .vo: under the lock the target is brought up to date and
            # the compiled files (.vo only, a few tens of MB) are copied to a private directory;
            # coqchk then re-checks that copy with the lock released.
            snap = os.path.join(BUILD, "coqchk-%d" % os.getpid())
            shutil.rmtree(snap, ignore_errors=True)
            with BuildLock():
                run(["make", "-j4", props_v[:-2] + ".vo"], cwd=COQ, timeout=COQ_TIMEOUT)
                for root, _dirs, files in os.walk(COQ):
                    for fn in files:
                        if fn.endswith(".vo"):
                            dst = os.path.join(snap, os.path.relpath(root, COQ))
                            os.makedirs(dst, exist_ok=True)
                            shutil.copy2(os.path.join(root, fn), os.path.join(dst, fn))
            try:
                rc, out = run(["coqchk", "-silent", "-o", "-Q", ".", "PTK", mod], cwd=snap, timeout=3600)
            finally:
                shutil.rmtree(snap, ignore_errors=True)
            m = re.search(r"\* Axioms:(.*?)\n\s*\n\* Constants", out, re.S)
            axioms = " ".join(m.group(1).split()) if m else "(not parsed)"
            self.coverage["coqchk"] = {"cmd": "coqchk -silent -o -Q . PTK " + mod, "rc": rc, "axioms": axioms,
                                       "summary": out[-600:]}
            if rc != 0:
                self.violation("proof", "coqchk rejects the compiled development: " + out[-300:], {"kind": "coqchk"},
                               {"log": out[-3000:]}, no_input=True)
        self.proof_result = r
        return r

    # -- finishing
    def finish(self):
        cov = self.coverage
        cov["distinct_nontrivial"] = len(self._distinct)
        wall = time.time() - self.t0
        os.makedirs(EVID, exist_ok=True)
        os.makedirs(REPLAY, exist_ok=True)
        for fid, (k, n) in sorted(self.known_hits.items()):
            print("KNOWN-FINDING: property=%s %s [%s; %d case(s) this run]" % (self.prop, k.get("what", fid), fid, n))
        cov["known_findings_hit"] = {fid: n for fid, (k, n) in self.known_hits.items()}
        lines = []
        for i, v in enumerate(self.violations[:20]):
            path = os.path.join(REPLAY, "%s-%s-%d-%d.json" % (self.prop, self.tier, self.seed, i))
            with open(path, "w") as f:
                json.dump({"property": self.prop, "kind": v["kind"], "what": v["what"], "tags": v["tags"],
                           "replay": v["replay"], "seed": self.seed, "tier": self.tier,
                           "cases_in_this_family": self._vkeys.get(v["key"], 1)}, f, indent=1, default=str)
            line = "VIOLATION property=%s replay=%s" % (self.prop, path)
            if v["no_input"]:
                line += " no-failing-input-found"
            lines.append((line, v["what"]))
        ev = {"property_id": self.prop, "tier": self.tier, "seed": self.seed, "level": "proof",
              "coverage": cov, "assumptions": self.assumptions, "wall_s": round(wall, 2),
              "violations": len(self.violations), "notes": self.notes}
        with open(os.path.join(EVID, self.prop + ".json"), "w") as f:
            json.dump(ev, f, indent=1, default=str)
        for line, what in lines:
            print("# " + what.replace("\n", " ")[:300])
            print(line)
        print("%s %s: %d evaluations, %d distinct non-trivial, obligations %d/%d, %d violation(s), %.1fs" % (
            self.prop, self.tier, cov["evaluations"], cov["distinct_nontrivial"], cov["discharged"],
            cov["obligations"], len(self.violations), wall))
        sys.stdout.flush()
        return 1 if self.violations else 0


def correspondence(chk, model_name, cases, impl_results, tagger, describe=None,
                   oracle_failed=None):
    """Diff the implementation's canonical results against the extracted model.
    `oracle_failed(i)` tells whether the property oracle already failed on case i
    (then the mismatch is reported through the oracle violation, with input)."""
    model_results = run_model(model_name, cases)
    nbad = 0
    for i, (c, a, m) in enumerate(zip(cases, impl_results, model_results)):
        a = sx_norm(a)
        if a != m:
            nbad += 1
            if nbad > 50:
                continue
            tags = dict(tagger(c, a, m)) if tagger else {}
            tags.setdefault("kind", "correspondence")
            has_input = bool(oracle_failed and oracle_failed(i))
            chk.violation("correspondence",
                          "model %s and implementation differ%s" % (model_name, (": " + describe(c, a, m)) if describe else ""),
                          tags, {"case": sx_norm(c), "impl": a, "model": m, "model_fn": model_name},
                          no_input=not has_input)
    chk.coverage["traces_validated_against_impl"] += len(cases) - nbad
    return model_results, nbad


def load_corpus(prop):
    """Minimised past disagreements; run first."""
    d = os.path.join(VERIF, "corpus", prop)
    out = []
    if os.path.isdir(d):
        for f in sorted(os.listdir(d)):
            if f.endswith(".json"):
                out.append(sx_norm(json.load(open(os.path.join(d, f)))["case"]))
    return out


def proof_gate(chk, pr):
    """A proof obligation that no longer checks is a violation: with the failing
    input when the oracle/correspondence search found one, otherwise named
    no-failing-input-found."""
    if pr.ok:
        if pr.obligations != pr.discharged:
            chk.violation("proof", "obligations %d != discharged %d" % (pr.obligations, pr.discharged),
                          {"kind": "proof"}, {"statements": pr.statements}, no_input=True)
        return
    f, ln, lemma = pr.failed_at or ("?", 0, None)
    has_input = any(not v["no_input"] for v in chk.violations)
    chk.violation("proof", "proof obligation no longer checks: %s (%s line %d)" % (lemma, f, ln),
                  {"kind": "proof", "lemma": lemma},
                  {"theorem": lemma, "file": f, "line": ln, "coqc_log_tail": pr.log[-3000:],
                   "failing_input": "see the other replay files of this run" if has_input else None},
                  no_input=not has_input)
