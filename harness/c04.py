"""C04 - key-binding dispatch.  Models: coq/Model/C04_KeyProc.v (KeyProcessor +
KeyBindings getters), C04_Filters.v (memoised filter algebra), C04_Registry.v
(KeyBindings + the four wrappers); theorems: coq/Props/C04.v.

Three case families, told apart by the first element of a case:
  (1 env bindings ops fuel)   drive a real KeyProcessor over a real KeyBindings registry
  (2 nconds ops)              build real Filter objects with & | ~
  (3 nconds objects ops)      add/remove/lookup through real KeyBindings and wrappers
"""
import itertools
from collections import deque

from common import *  # noqa

PROP = "C04"
TABLES = []
MODELS = [("c04", "Extract/ExC04.v", "run_C04")]

NCOND = 3
FUEL = 40


# --------------------------------------------------------------------------
# shared: keys, filters

def keymap():
    from prompt_toolkit.keys import Keys
    return {0: Keys.Any, 1: "a", 2: "b", 3: "c", 4: "d", 5: Keys.ControlX, 6: Keys.CPRResponse, 7: Keys.SIGINT}


_APP = None


def app_context():
    """One dummy Application for the whole run (as tests/test_key_binding.py
    set_dummy_app does); no flush timer (timeoutlen None): the timeout is the
    explicit _Flush item."""
    global _APP
    if _APP is None:
        from prompt_toolkit.application import Application
        from prompt_toolkit.application.current import set_app
        from prompt_toolkit.input.defaults import create_pipe_input
        from prompt_toolkit.layout import Layout, Window
        from prompt_toolkit.output import DummyOutput
        cm = create_pipe_input()
        inp = cm.__enter__()
        app = Application(layout=Layout(Window()), output=DummyOutput(), input=inp)
        app.timeoutlen = None
        sa = set_app(app)
        sa.__enter__()
        import asyncio
        _APP = (app, cm, sa, asyncio.new_event_loop())
    return _APP[0]


def new_application_run():
    """the application is 'running' and not finished: app.future is a fresh pending future, so that
    event.app.exit() works and app.is_done is what KeyProcessor reads"""
    app = app_context()
    app.future = _APP[3].create_future()
    return app


class Env:
    """switchable conditions"""

    def __init__(self, vals):
        from prompt_toolkit.filters import Condition
        self.v = [bool(x) for x in vals]
        self.conds = [Condition(lambda i=i: self.v[i] if i < len(self.v) else False) for i in range(8)]

    def build(self, f):
        """fexpr (wire form) -> real Filter built with the real operators"""
        from prompt_toolkit.filters import Always, Never
        t = f[0]
        if t == 0:
            return Always()
        if t == 1:
            return Never()
        if t == 2:
            return self.conds[f[1]]
        if t == 3:
            return ~self.build(f[1])
        if t == 4:
            return self.build(f[1]) & self.build(f[2])
        if t == 5:
            return self.build(f[1]) | self.build(f[2])
        raise ValueError(f)

    def top(self, f):
        """argument for add(filter=...): literals as bools, like user code"""
        if f == [0]:
            return True
        if f == [1]:
            return False
        return self.build(f)

    def table(self, flt, n):
        """truth table of a real filter, binary counting order, first condition most significant"""
        saved = list(self.v)
        out = []
        for bits in itertools.product([False, True], repeat=n):
            self.v = list(bits) + [False] * 8
            out.append(1 if flt() else 0)
        self.v = saved
        return out


def feval(f, e):
    t = f[0]
    if t == 0:
        return True
    if t == 1:
        return False
    if t == 2:
        return bool(e[f[1]]) if f[1] < len(e) else False
    if t == 3:
        return not feval(f[1], e)
    if t == 4:
        return feval(f[1], e) and feval(f[2], e)
    return feval(f[1], e) or feval(f[2], e)


# --------------------------------------------------------------------------
# family 1: key processor

class HandlerError(Exception):
    pass


class Abort(BaseException):
    """more than `fuel` items popped during one process_keys(): the run diverges"""


class CountingDeque(deque):
    def __init__(self, it=(), run=None):
        super().__init__(it)
        self.run = run

    def popleft(self):
        r = self.run
        if r.in_reentry:
            # process_keys() called from inside a handler: the item it takes is discarded with the rest of the queue
            x = super().popleft()
            r.reentry_pops.append(x)
            return x
        if r.sends >= r.fuel:
            raise Abort()
        r.sends += 1
        x = super().popleft()
        r.on_pop(x)
        return x

    def remove(self, x):
        # process_keys after is_done: the first cursor position report is taken out of the queue
        r = self.run
        if r.sends >= r.fuel:
            raise Abort()
        r.sends += 1
        super().remove(x)
        r.on_pop(x, taken=True)

    def extendleft(self, it):
        items = list(it)
        r = self.run
        if not r.in_handler:
            # _process hands the pending keys back (application finished); the front of the queue is then reversed(items)
            r.on_back(list(reversed(items)))
        super().extendleft(items)


class ObsList(list):
    """KeyProcessor.key_buffer with its deletions observed: `del buffer[:1]` with no handler call and no
    hand-back since the previous deletion is a drop - seen here, not inferred"""

    def __init__(self, it=(), run=None):
        super().__init__(it)
        self.run = run

    def __delitem__(self, idx):
        gone = self[idx] if isinstance(idx, slice) else [self[idx]]
        r = self.run
        owner, r.del_owner = r.del_owner, None
        if owner is None:
            r.obs_drops.extend(r.RK.get(k.key, -7) for k in gone)
        elif owner[0] == "call" and len(gone) != owner[1]:
            r.obs_drops.append(-8)       # keys removed after a handler call are not its key_sequence
        super().__delitem__(idx)


class KPRun:
    def __init__(self, case, wrap=0):
        from prompt_toolkit.key_binding.key_bindings import (ConditionalKeyBindings, DynamicKeyBindings,
                                                             KeyBindings, merge_key_bindings)
        from prompt_toolkit.key_binding.key_processor import KeyPress, KeyProcessor, _Flush
        self.app = new_application_run()
        _, env, bindings, ops, fuel = case
        self.KM = keymap()
        self.RK = {v: k for k, v in self.KM.items()}
        self.KeyPress, self.Flush = KeyPress, _Flush
        self.env = Env(env)
        self.nenv = len(env)
        self.bindings = bindings
        self.fuel = fuel
        self.ops = ops
        kb = KeyBindings()
        for idx, b in enumerate(bindings):
            ks, f, eg, gl, hid, acts = b[:6]
            kb.add(*[self.KM[k] for k in ks], filter=self.init_filter(f), eager=self.env.top(eg),
                   is_global=bool(gl))(self.handler_for(idx, b))
        self.kb = kb
        reg = kb
        if wrap == 1:
            reg = merge_key_bindings([kb])
        elif wrap == 2:
            reg = DynamicKeyBindings(lambda: kb)
        elif wrap == 3:
            reg = ConditionalKeyBindings(merge_key_bindings([KeyBindings(), kb]), True)
        run = self
        self.del_owner = None     # who accounts for the next deletion from key_buffer: ("call", n) / ("back",) / None = a drop
        self.obs_drops = []

        class ObsKP(KeyProcessor):
            # reset() assigns `self.key_buffer = []` before it starts the generator, which keeps that very list
            @property
            def key_buffer(self_):
                return self_._c04_buffer

            @key_buffer.setter
            def key_buffer(self_, v):
                self_._c04_buffer = ObsList(v, run)

        self.p = ObsKP(reg)
        # observation state
        self.stream = []      # keys popped since the last reset
        self.accounted = 0
        self.events = []
        self.popped = []
        self.sends = 0
        self.since_pop = 0    # events since the last pop (0 = first pass of the generator loop)
        self.last_item_flush = False
        self.calls = []       # oracle records
        self.drops = []
        self.backs = []
        self.cpr_snap = None
        self.env_for_pending = None
        self.cpr_broken = []
        self.cpr_calls = []
        self.done_pops = []
        self.in_handler = False
        self.in_reentry = False
        self.reentry_pops = []
        self.watchdog_s = 10
        self.raise_info = None

    last_pos = None

    def handler_for(self, idx, b):
        return self.make_handler(idx, b[5])

    def init_filter(self, f):
        return self.env.top(f)

    def pos_of(self, idx):
        """binding index reported for a call of handler idx (position in KeyBindings.bindings at call time)"""
        return idx

    def reg_desc(self):
        """descriptions of the bindings registered right now, in order"""
        return self.bindings

    def to_item(self, k):
        return self.Flush if k == -1 else self.KeyPress(self.KM[k])

    def from_item(self, kp):
        return -1 if kp is self.Flush else self.RK.get(kp.key, -7)

    def prev_now(self):
        p = self.p
        h = p._previous_handler
        if h is None and not p._previous_key_sequence:
            return []
        i = getattr(getattr(h, "handler", None), "_c04i", -7)
        if self.last_pos is not None:
            i = self.last_pos.get(i, -7)
        return [i, [self.RK.get(k.key, -7) for k in p._previous_key_sequence]]

    def check_cpr_frame(self):
        """a delivered cursor position report must have left the pending keys (key_buffer) alone - that much is the
        property text ("every key ... still pending, in input order"); the previous-key bookkeeping, is_repeat and
        the repetition argument are compared through the model only (C04_cpr_delivery), not demanded here"""
        if self.cpr_snap is not None:
            now = [self.RK.get(k.key, -7) for k in self.p.key_buffer]
            if now != self.cpr_snap:
                self.cpr_broken.append({"before": self.cpr_snap, "after": now})
            self.cpr_snap = None

    def on_pop(self, kp, taken=False):
        k = self.from_item(kp)
        self.check_cpr_frame()
        self.sync(len(self.p.key_buffer))     # the generator is at `yield`: settle the drops of the previous send
        self.popped.append(k)
        if k != 6 and self.app.is_done:
            self.done_pops.append(k)      # a typed key popped although the application is finished
        self.events.append([7] if taken else [4, k])
        if k == 6:
            # a cursor position report is not a typed key: it never enters the key buffer
            self.cpr_snap = [self.RK.get(x.key, -7) for x in self.p.key_buffer]
            return
        self.since_pop = 0
        self.env_for_pending = None
        self.last_item_flush = (k == -1)
        if k != -1:
            self.stream.append(k)

    def sync(self, buffer_len):
        """keys popped but neither delivered nor in the buffer any more were dropped (one per pass of the
        generator loop, from the front; no key is popped during a send, so the pending keys at each drop are known)"""
        pos = len(self.stream) - buffer_len
        if pos < self.accounted:
            self.events.append([9, self.accounted - pos])     # a key seen twice: never equals a model event
            return pos
        if self.accounted < 0:
            # only after a reset that did not empty key_buffer: more keys pending than were received since
            self.events.append([9, -self.accounted])
            self.accounted = 0
        for j in range(self.accounted, pos):
            self.events.append([1, self.stream[j]])
            self.drops.append({"key": self.stream[j], "buffer": self.stream[j:], "env": list(self.env.v[:self.nenv]), "bindings": self.reg_desc(),
                               "flush": self.last_item_flush, "first_pass": self.since_pop == 0})
            self.since_pop += 1
        self.accounted = pos
        return pos

    def on_back(self, items):
        p = self.p
        bufsnap = [self.RK.get(k.key, -7) for k in p.key_buffer]
        pos = self.sync(len(bufsnap))
        keys = [self.from_item(x) for x in items]
        self.events.append([3, keys])
        self.backs.append({"handed_back": keys, "buffer": bufsnap, "pending_in_input_order": self.stream[pos:]})
        self.del_owner = ("back",)
        self.since_pop += 1
        self.accounted = pos + len(bufsnap)

    def make_handler(self, idx, acts):
        def handler(event):
            self.in_handler = True
            try:
                return body(event)
            finally:
                self.in_handler = False

        handler._c04i = idx

        def body(event):
            p = event.key_processor
            bufsnap = [self.RK.get(k.key, -7) for k in p.key_buffer]
            ks = [self.RK.get(k.key, -7) for k in event.key_sequence]
            if ks == [6]:
                return cpr_body(event, bufsnap)
            pos = self.sync(len(bufsnap))
            pidx = self.pos_of(idx)
            if self.last_pos is not None:
                self.last_pos[idx] = pidx
            self.calls.append({"i": pidx, "ks": ks, "buffer": bufsnap, "env": list(self.env.v[:self.nenv]), "bindings": self.reg_desc(),
                               "flush": self.last_item_flush, "first_pass": self.since_pop == 0,
                               "pos": pos, "prev_end": self.accounted, "stream": list(self.stream)})
            self.events.append([0, pidx, ks])
            self.del_owner = ("call", len(ks))
            self.since_pop += 1
            self.accounted = pos + len(ks)
            for a in acts:
                if a[0] == 0:
                    if a[1] < self.nenv:
                        self.env.v[a[1]] = not self.env.v[a[1]]
                elif a[0] == 1:
                    self.raise_info = (bufsnap[len(ks):], [self.from_item(x) for x in p.input_queue])
                    raise HandlerError()
                elif a[0] == 2:
                    self.events.append([5, a[1], a[2]])
                    p.feed_multiple([self.to_item(k) for k in a[2]], first=bool(a[1]))
                elif a[0] == 3:
                    try:
                        event.app.exit()
                    except Exception:
                        self.raise_info = (bufsnap[len(ks):], [self.from_item(x) for x in p.input_queue])
                        raise HandlerError()
                elif a[0] == 5:
                    # the handler registers a binding: kb.add(...)(handler)
                    nb = a[1]
                    self.kb.add(*[self.KM[k] for k in nb[0]], filter=self.env.build(nb[1]), eager=self.env.top(nb[2]),
                                is_global=bool(nb[3]))(self.handler_for(None, nb))
                elif a[0] == 6:
                    # the handler unregisters a handler: kb.remove(function); ValueError when it is not registered
                    try:
                        self.kb.remove(self.fns.get(a[1]) or (lambda event: None))
                    except ValueError:
                        self.raise_info = (bufsnap[len(ks):], [self.from_item(x) for x in p.input_queue])
                        raise HandlerError()
                elif a[0] == 4:
                    # the handler calls process_keys() itself
                    self.raise_info = (bufsnap[len(ks):], [self.from_item(x) for x in p.input_queue])
                    self.in_reentry = True
                    try:
                        p.process_keys()
                    except ValueError as x:
                        if "generator already executing" not in str(x):
                            raise
                        raise HandlerError()
                    finally:
                        self.in_reentry = False

        def cpr_body(event, bufsnap):
            # called by _handle_cpr_response: not a key delivery
            p = event.key_processor
            b = self.bindings[idx]
            self.cpr_calls.append({"i": idx, "keys": b[0], "env": list(self.env.v[:self.nenv]), "is_repeat": event.is_repeat,
                                   "arg_present": event.arg_present})
            self.events.append([6, idx])
            if self.env_for_pending is None:
                # the pending keys were examined under these condition values; a report handler may change them
                self.env_for_pending = [1 if x else 0 for x in self.env.v[:self.nenv]]
            for a in acts:
                if a[0] == 0:
                    if a[1] < self.nenv:
                        self.env.v[a[1]] = not self.env.v[a[1]]
                elif a[0] == 1:
                    self.cpr_snap = None
                    self.raise_info = (bufsnap, [self.from_item(x) for x in p.input_queue])
                    raise HandlerError()
                elif a[0] == 2:
                    self.events.append([5, a[1], a[2]])
                    p.feed_multiple([self.to_item(k) for k in a[2]], first=bool(a[1]))
                elif a[0] == 3:
                    try:
                        event.app.exit()
                    except Exception:
                        self.cpr_snap = None
                        self.raise_info = (bufsnap, [self.from_item(x) for x in p.input_queue])
                        raise HandlerError()
        return handler

    def run(self):
        out = []
        self.op_records = []
        p = self.p
        for its in self.ops:
            sigint = its == [-1001]
            if len(its) == 1 and its[0] <= -2 and not sigint:
                if its[0] == -1000:
                    # the application is finished from outside a handler
                    if not self.app.is_done:
                        self.app.exit()
                else:
                    # a condition changes outside any handler
                    c = -2 - its[0]
                    if c < self.nenv:
                        self.env.v[c] = not self.env.v[c]
                buf = [self.RK.get(k.key, -7) for k in p.key_buffer]
                q = [self.from_item(x) for x in p.input_queue]
                envv = [1 if x else 0 for x in self.env.v[:self.nenv]]
                out.append([0, [], [], buf, q, envv, 1 if self.app.is_done else 0, self.prev_now()])
                self.op_records.append({"status": 0, "events": [], "popped": [], "buf": buf, "queue": q, "env": envv,
                                        "calls": [], "drops": [], "backs": [], "done": self.app.is_done, "after_raise": None, "last_flush": self.last_item_flush,
                                        "since_pop": self.since_pop, "stream": list(self.stream), "accounted": self.accounted,
                                        "items": its, "ext_flip": True})
                continue
            if not isinstance(p.input_queue, CountingDeque):
                p.input_queue = CountingDeque(p.input_queue, self)
            self.events, self.popped, self.sends, self.raise_info = [], [], 0, None
            self.del_owner, self.obs_drops = None, []
            ncalls0 = len(self.calls)
            ndrops0 = len(self.drops)
            ncpr0 = len(self.cpr_calls)
            nbacks0 = len(self.backs)
            done0 = self.app.is_done
            if not sigint:
                p.feed_multiple([self.to_item(k) for k in its])
            status = 0
            try:
                # send_sigint = feed(KeyPress(Keys.SIGINT), first=True) + process_keys()
                with_watchdog(p.send_sigint if sigint else p.process_keys, self.watchdog_s)
            except HandlerError:
                status = 1
            except Abort:
                status = 97
            except Hang:
                status = 98
            except Exception as e:  # noqa
                status = 99
                self.exc = repr(e)
            after_raise = None
            if status == 1:
                lb, lq = self.raise_info
                self.events.append([2, lb, lq])
                after_raise = ([self.RK.get(k.key, -7) for k in p.key_buffer], [self.from_item(x) for x in p.input_queue])
                self.stream, self.accounted = [], 0
            elif status == 0:
                self.check_cpr_frame()
                self.sync(len(p.key_buffer))
            buf = [self.RK.get(k.key, -7) for k in p.key_buffer]
            q = [self.from_item(x) for x in p.input_queue]
            envv = [1 if x else 0 for x in self.env.v[:self.nenv]]
            if status == 97:
                # the model stops before the pop that exceeds the budget and reports no events for the
                # unfinished part; compare what is comparable: the status only
                out.append([97])
                self.op_records.append({"status": 97})
                break
            out.append([status, self.events, self.popped, buf, q, envv, 1 if self.app.is_done else 0, self.prev_now()])
            self.op_records.append({"status": status, "events": self.events, "popped": self.popped, "buf": buf,
                                    "queue": q, "env": envv, "calls": self.calls[ncalls0:], "drops": self.drops[ndrops0:], "backs": self.backs[nbacks0:], "done": self.app.is_done, "done0": done0,
                                    "cpr_calls": self.cpr_calls[ncpr0:], "cpr_broken": list(self.cpr_broken), "done_pops": list(self.done_pops), "env_for_pending": self.env_for_pending,
                                    "after_raise": after_raise, "last_flush": self.last_item_flush,
                                    "since_pop": self.since_pop, "stream": list(self.stream),
                                    "accounted": self.accounted, "items": its, "bindings_end": self.reg_desc(),
                                    "obs_drops": list(self.obs_drops), "buffer_observed": isinstance(p.key_buffer, ObsList)})
            if status in (98, 99):
                break
        return out


class KPRunM(KPRun):
    """family 5: handlers that mutate the registry during a pass.  case = [5, env, bindings, table, ops, fuel];
    table rows [hid, [[0, binding] | [1, hid], ...]]: what the handler with identity hid does to the KeyBindings
    first (kb.add / kb.remove(handler)), before its other actions.  Handler identities are unique per description."""

    def __init__(self, case, wrap=0):
        _, env, bindings, table, ops, fuel = case
        self.table = {}
        for h, ms in table:
            self.table.setdefault(h, ms)        # the first row of a handler counts (Model muts_of)
        self.fns, self.desc_of, self.last_pos = {}, {}, {}
        KPRun.__init__(self, [1, env, bindings, ops, fuel], wrap)

    def handler_for(self, idx, b):
        hid = b[4]
        if hid not in self.fns:
            acts = [[5, m[1]] if m[0] == 0 else [6, m[1]] for m in self.table.get(hid, [])] + list(b[5])
            self.fns[hid] = self.make_handler(hid, acts)
            self.desc_of[hid] = b
        return self.fns[hid]

    def init_filter(self, f):
        # always a Filter object: add() does not register a binding whose filter is an instance of Never,
        # so the initial registry is what the same adds give in the model (positions matter here)
        return self.env.build(f)

    def pos_of(self, hid):
        fn = self.fns.get(hid)
        ps = [i for i, b in enumerate(self.kb._bindings) if b.handler is fn]
        return ps[-1] if ps else -7      # identical bindings registered twice: dispatch picks the last registered

    def reg_desc(self):
        return [self.desc_of.get(getattr(b.handler, "_c04i", None), [[-7], [1], [1], 0, -7, []]) for b in self.kb._bindings]

    def run(self):
        out = KPRun.run(self)
        if len(out) == len(self.ops) and not (out and out[-1][0] in (97, 98, 99)):
            out.append([60, [getattr(b.handler, "_c04i", -7) for b in self.kb._bindings]])
        return out


def kp_model_post(m):
    """model result -> comparable form (an out-of-fuel op is compared by status only)"""
    if not isinstance(m, list):
        return m
    out = []
    for r in m:
        if isinstance(r, list) and r and r[0] == 97:
            out.append([97])
        else:
            out.append(r)
    return out


# ---- the documented rule, transcribed for the implementation's own records

def b_exact(b, ks):
    return len(b[0]) == len(ks) and all(x == y or x == 0 for x, y in zip(b[0], ks))


def b_longer(b, ks):
    return len(b[0]) > len(ks) and all(x == y or x == 0 for x, y in zip(b[0], ks))


def best_of(cands):
    """cands: list of (index, binding) in registration order -> the last registered among those with
    the fewest wildcards"""
    if not cands:
        return None
    mn = min(sum(1 for k in b[0] if k == 0) for _, b in cands)
    return [i for i, b in cands if sum(1 for k in b[0] if k == 0) == mn][-1]


def kp_oracle(case, recs):
    """Returns None or (clause, family, detail)."""
    bindings = case[2]
    ib = list(enumerate(bindings))
    for n, r in enumerate(recs):
        if r["status"] == 97:
            return None
        if r["status"] in (98, 99):
            return ("process_keys hung or raised something else than the handler's exception", "crash", {"op": n})
        for c in r["calls"]:
            e, ks, bufc = c["env"], c["ks"], c["buffer"]
            ib = list(enumerate(c["bindings"] if "bindings" in c else bindings))     # the registry as it was when the handler was called
            if not 0 <= c["i"] < len(ib):
                return ("a handler was called that is not registered", "specificity", {k: c[k] for k in ("i", "ks", "buffer")})
            b = ib[c["i"]][1]
            # each key delivered once, in input order
            if c["pos"] < c["prev_end"]:
                return ("a key was delivered to two handler invocations", "conservation", c)
            if bufc[:len(ks)] != ks or c["stream"][c["pos"]:] != bufc or not ks:
                return ("key_sequence is not the head of the pending keys, in input order", "conservation", c)
            if not (b_exact(b, ks) and feval(b[1], e)):
                return ("invoked binding is not an active exact match of its key_sequence", "specificity", c)
            act = [(i, x) for i, x in ib if b_exact(x, ks) and feval(x[1], e)]
            whole = len(ks) == len(bufc)
            if whole:
                eag = [(i, x) for i, x in act if feval(x[2], e)]
                pool = eag if eag else act
                if best_of(pool) != c["i"]:
                    return ("invoked binding is not the last-registered most specific active match%s" % (" among eager ones" if eag else ""),
                            "specificity", c)
                longer = any(b_longer(x, ks) and feval(x[1], e) for _, x in ib)
                flush = c["flush"] and c["first_pass"]
                if longer and not flush and not eag:
                    return ("handler fired while a longer active binding was still possible (no flush, not eager)", "rule-wait", c)
            else:
                if best_of(act) != c["i"]:
                    return ("retry: invoked binding is not the last-registered most specific active match", "specificity", c)
                for m in range(len(ks) + 1, len(bufc) + 1):
                    if any(b_exact(x, bufc[:m]) and feval(x[1], e) for _, x in ib):
                        return ("retry: a longer prefix of the pending keys had an active match", "rule-retry", c)
                if any(b_longer(x, bufc) and feval(x[1], e) for _, x in ib) and not (c["flush"] and c["first_pass"]):
                    return ("retry: a prefix was dispatched while a longer active binding was still possible (no flush)", "rule-wait", c)
        # dropped keys: the single key had no active match when it was dropped (necessary condition);
        # the environment only changes in handlers
        for d in r["drops"]:
            e, bd = d["env"], d["buffer"]
            ib = list(enumerate(d["bindings"] if "bindings" in d else bindings))
            for m in range(1, len(bd) + 1):
                if any(b_exact(x, bd[:m]) and feval(x[1], e) for _, x in ib):
                    return ("a key was dropped although a prefix of the pending keys had an active match", "rule-drop", d)
            if any(b_longer(x, bd) and feval(x[1], e) for _, x in ib) and not (d["flush"] and d["first_pass"]):
                return ("a key was dropped while a longer active binding was still possible (no flush)", "rule-wait", d)
        ib = list(enumerate(r["bindings_end"] if "bindings_end" in r else bindings))
        if "obs_drops" in r:
            inferred = [ev[1] for ev in r["events"] if ev[0] == 1]
            if not r["buffer_observed"] or r["obs_drops"] != inferred:
                return ("the keys physically removed from key_buffer without a handler call are not exactly the keys that were "
                        "received and neither delivered, handed back nor left pending (a key was lost or duplicated)",
                        "conservation", {"op": n, "removed_without_handler": r["obs_drops"], "unaccounted": inferred})
        if any(ev[0] == 9 for ev in r["events"]):
            return ("pending keys exceed the keys received (a key was duplicated)", "conservation", {"op": n, "events": r["events"]})
        if r["status"] == 1:
            if r["after_raise"] != ([], []):
                return ("handler exception did not leave the processor reset (key_buffer/input_queue not empty)", "exception-reset",
                        {"op": n, "after": r["after_raise"]})
        if r.get("cpr_broken"):
            return ("a cursor position report changed the pending keys (key_buffer)", "cpr-frame", r["cpr_broken"][0])
        for c in r.get("cpr_calls", []):
            # property text only: the handler that receives the report is the last-registered most specific active exact
            # match of (CPRResponse,).  (That wildcard bindings never receive one, is_repeat and the repetition argument
            # are beyond the text: they are in the model, C04_cpr_binding / correspondence.)
            act = [(i, x) for i, x in ib if b_exact(x, [6]) and feval(x[1], c["env"])]
            if best_of(act) != c["i"]:
                return ("a cursor position report was not delivered to the last-registered most specific active match of (CPRResponse,)",
                        "cpr-binding", c)
        for bk in r["backs"]:
            if not (bk["handed_back"] == bk["buffer"] == bk["pending_in_input_order"]):
                return ("the application was finished by a handler and the pending keys were not handed back to the input queue "
                        "in the order they were typed", "hand-back-order", bk)
        last_back = max([j for j, ev in enumerate(r["events"]) if ev[0] == 3], default=-1)
        if r["backs"] and r["status"] == 0 and not any(ev[0] == 5 for ev in r["events"][last_back + 1:]):
            # (a report handler running afterwards may still feed keys in front)
            hb = r["backs"][-1]["handed_back"]
            if r["queue"][:len(hb)] != hb or r["buf"]:
                return ("after the application was finished the keys not delivered are not at the front of the input queue, in input order",
                        "hand-back-order", {"op": n, "queue": r["queue"], "expected_front": hb})
        if r.get("done_pops"):
            return ("a typed key was popped from the input queue although a handler had already finished the application "
                    "(it is type-ahead for the next application)", "done-stops", {"op": n, "popped_while_done": r["done_pops"]})
        if r["status"] == 0 and r["done"] and r.get("done0") and any(k != 6 for k in r["popped"]):
            return ("keys were processed although the application was already finished", "done-stops", {"op": n})
        if r["status"] == 0 and not r.get("ext_flip") and not r["done"] and any(k != 6 for k in r["popped"]):
            buf, e = r["buf"], (r.get("env_for_pending") or r["env"])
            if r["queue"]:
                return ("process_keys returned with a non-empty input queue", "queue", {"op": n})
            if r["stream"][r["accounted"]:] != buf:
                return ("pending keys are not the tail of the keys received", "conservation", {"op": n, "buf": buf})
            if buf:
                act = [(i, x) for i, x in ib if b_exact(x, buf) and feval(x[1], e)]
                eag = [1 for i, x in act if feval(x[2], e)]
                longer = any(b_longer(x, buf) and feval(x[1], e) for _, x in ib)
                if eag:
                    return ("keys left pending although an active eager binding matches them", "rule-eager", {"op": n, "buf": buf, "env": e})
                if not longer:
                    return ("keys left pending although no longer active binding is possible", "rule-fire", {"op": n, "buf": buf, "env": e})
                if r["last_flush"] and r["since_pop"] == 0:
                    return ("keys left pending after a timeout flush", "rule-flush", {"op": n, "buf": buf, "env": e})
    return None


# --------------------------------------------------------------------------
# family 2: filter algebra

def fl_impl(case):
    from prompt_toolkit.filters import Always, Never
    from prompt_toolkit.filters.base import _AndList, _Invert, _OrList
    from prompt_toolkit.filters.utils import to_filter
    _, nc, ops = case
    env = Env([0] * nc)
    objs = [to_filter(True), to_filter(False)]
    out, recs = [], []

    def ident(o):
        for i, x in enumerate(objs):
            if x is o:
                return i
        objs.append(o)
        return len(objs) - 1

    def describe(o):
        if isinstance(o, Always):
            return [0]
        if isinstance(o, Never):
            return [1]
        if isinstance(o, _AndList):
            return [3, [ident(x) for x in o.filters]]
        if isinstance(o, _OrList):
            return [4, [ident(x) for x in o.filters]]
        if isinstance(o, _Invert):
            return [5, ident(o.filter)]
        return [2, getattr(o, "_c04", -7)]

    for op in ops:
        t = op[0]
        args = [a for a in op[1:]] if t >= 3 else []
        if any(a >= len(objs) for a in args):
            out.append([-1])
            break
        if t == 0:
            from prompt_toolkit.filters import Condition
            c = op[1]
            r = Condition(lambda c=c: env.v[c] if c < len(env.v) else False)
            r._c04 = c
        elif t == 1:
            r = Always()
        elif t == 2:
            r = Never()
        elif t == 3:
            r = objs[op[1]] & objs[op[2]]
        elif t == 4:
            r = objs[op[1]] | objs[op[2]]
        else:
            r = ~objs[op[1]]
        i = ident(r)
        d = describe(r)
        tab = env.table(r, nc)
        out.append([i, d, tab, len(objs)])
        recs.append({"op": op, "id": i, "table": tab,
                     "args": [env.table(objs[a], nc) for a in args]})
    return out, recs


def fl_oracle(recs):
    for r in recs:
        t = r["op"][0]
        if t == 3 and r["table"] != [x & y for x, y in zip(*r["args"])]:
            return ("(f & g)() != f() and g()", "and", r)
        if t == 4 and r["table"] != [x | y for x, y in zip(*r["args"])]:
            return ("(f | g)() != f() or g()", "or", r)
        if t == 5 and r["table"] != [1 - x for x in r["args"][0]]:
            return ("(~f)() != not f()", "invert", r)
    return None


# --------------------------------------------------------------------------
# family 3: registries

_REAL_MX = None


def real_maxsizes():
    """maxsize of the two SimpleCaches of a fresh KeyBindings, read from the real object (never a copied constant)"""
    global _REAL_MX
    if _REAL_MX is None:
        from prompt_toolkit.key_binding.key_bindings import KeyBindings
        kb = KeyBindings()
        _REAL_MX = [kb._get_bindings_for_keys_cache.maxsize, kb._get_bindings_starting_with_keys_cache.maxsize]
        if not all(isinstance(x, int) and x > 0 for x in _REAL_MX):
            raise RuntimeError("unexpected SimpleCache sizes in KeyBindings: %r" % (_REAL_MX,))
    return list(_REAL_MX)


class capped:
    """run the real registries with other SimpleCache sizes: every SimpleCache the key_bindings module creates
    (KeyBindings.__init__, hence every wrapper's _bindings2) gets maxsize mx[0] / mx[1] instead of the real
    pair; the class is the real SimpleCache (its get/clear run unchanged)"""

    def __init__(self, mx):
        self.mx = list(mx)

    def __enter__(self):
        import prompt_toolkit.key_binding.key_bindings as KBM
        from prompt_toolkit.cache import SimpleCache
        real = real_maxsizes()
        self.KBM, self.orig = KBM, KBM.SimpleCache
        if self.mx != real:
            m = {real[0]: self.mx[0], real[1]: self.mx[1]}

            class Capped(SimpleCache):
                def __init__(self, maxsize=8):
                    super().__init__(maxsize=m[maxsize])      # an unknown size: KeyError, fail closed
            KBM.SimpleCache = Capped

    def __exit__(self, *a):
        self.KBM.SimpleCache = self.orig
        return False


class RegRun:
    def __init__(self, case):
        from prompt_toolkit.key_binding.key_bindings import (ConditionalKeyBindings, DynamicKeyBindings,
                                                             GlobalOnlyKeyBindings, KeyBindings, merge_key_bindings)
        _, nc, objs, ops, mx = case
        self.nc = nc
        self.mx = mx
        self.KM = keymap()
        self.RK = {v: k for k, v in self.KM.items()}
        self.env = Env([0] * nc)
        self.handlers = {}
        self.savers = {}
        self.objs = []
        self.desc = objs
        self.sel = {}
        self.ok = True
        for i, o in enumerate(objs):
            t = o[0]
            kids = [o[1]] if t in (1, 4) else (o[1] if t in (2, 3) else [])
            if any(k >= i for k in kids):
                self.ok = False
                break
            if t == 0:
                self.objs.append(KeyBindings())
            elif t == 1:
                self.objs.append(ConditionalKeyBindings(self.objs[o[1]], self.env.top(o[2])))
            elif t == 2:
                self.objs.append(merge_key_bindings([self.objs[k] for k in o[1]]))
            elif t == 3:
                self.sel[i] = None
                self.objs.append(DynamicKeyBindings(lambda i=i, cands=o[1]: (
                    self.objs[cands[self.sel[i]]] if self.sel[i] is not None and self.sel[i] < len(cands) else None)))
            else:
                self.objs.append(GlobalOnlyKeyBindings(self.objs[o[1]]))
        self.ops = ops

    def handler(self, h):
        if h not in self.handlers:
            def fn(event, h=h):
                return None
            fn._c04 = h
            self.handlers[h] = fn
        return self.handlers[h]

    def saver(self, sv):
        """save_before callables by identity; 0 = leave the default"""
        if sv not in self.savers:
            def fn(event):
                return True
            fn._c04s = sv
            self.savers[sv] = fn
        return self.savers[sv]

    def extra_kw(self, b):
        """record_in_macro / save_before keyword arguments of an 8-field binding description"""
        kw = {}
        if len(b) > 6:
            kw["record_in_macro"] = bool(b[6])
            if b[7] != 0:
                kw["save_before"] = self.saver(b[7])
        return kw

    def ver(self, i, v):
        """canonical form of object i's version value v (what Model enc_ver prints)"""
        t = self.desc[i][0]
        if t == 0:
            return [0, v] if isinstance(v, int) else [-7, repr(v)]
        if v == ():
            return [1]
        if t in (1, 4):
            return self.ver(self.desc[i][1], v)
        if t == 2:
            kids = self.desc[i][1]
            if not isinstance(v, tuple) or len(v) != len(kids):
                return [-7, repr(v)]
            return [1] + [self.ver(k, x) for k, x in zip(kids, v)]
        if not (isinstance(v, tuple) and len(v) == 2):
            return [-7, repr(v)]
        ident, x = v
        if ident == id(self.objs[i]._dummy):
            return [2, i, [0, x]]
        for j, o in enumerate(self.objs):
            if id(o) == ident:
                return [2, j, self.ver(j, x)]
        return [-7, "unknown id"]

    def ckeys(self, cache):
        ks = [[self.RK.get(k, -7) for k in key] for key in reversed(cache._keys)]      # newest first
        if set(cache._data) != set(cache._keys) or len(cache._data) != len(cache._keys):
            ks.append([-7])
        return ks

    def state(self):
        """version / _last_version and the keys held by the SimpleCaches, object by object"""
        out = []
        for i, o in enumerate(self.objs):
            t = self.desc[i][0]
            if t == 0:
                out.append([self.ver(i, o._version), self.ckeys(o._get_bindings_for_keys_cache),
                            self.ckeys(o._get_bindings_starting_with_keys_cache)])
            elif t == 3:
                out.append([])
            else:
                b2 = o._bindings2
                out.append([self.ver(i, o._last_version), self.ckeys(b2._get_bindings_for_keys_cache),
                            self.ckeys(b2._get_bindings_starting_with_keys_cache)])
        return out

    def canon(self, b):
        return [[self.RK.get(k, -7) for k in b.keys], getattr(b.handler, "_c04", -7),
                self.env.table(b.filter, self.nc), self.env.table(b.eager, self.nc), 1 if b.is_global() else 0,
                1 if b.record_in_macro() else 0, getattr(b.save_before, "_c04s", 0)]

    # uncached recomputation from the lists of the underlying KeyBindings objects, written independently
    def spec_flat(self, i):
        o = self.desc[i]
        t = o[0]
        if t == 0:
            return [self.canon(b) for b in self.objs[i]._bindings]
        if t == 1:
            ft = [1 if feval(o[2], list(bits)) else 0 for bits in itertools.product([0, 1], repeat=self.nc)]
            return [[b[0], b[1], [x & y for x, y in zip(ft, b[2])], b[3], b[4], b[5], b[6]] for b in self.spec_flat(o[1])]
        if t == 2:
            return [b for k in o[1] for b in self.spec_flat(k)]
        if t == 3:
            s = self.sel[i]
            return self.spec_flat(o[1][s]) if s is not None and s < len(o[1]) else []
        return [b for b in self.spec_flat(o[1]) if b[4]]

    def spec_lookup(self, which, i, ks):
        bs = self.spec_flat(i)
        if which:
            m = [b for b in bs if b_exact(b, ks)]
            return sorted(m, key=lambda b: -sum(1 for k in b[0] if k == 0))
        return [b for b in bs if b_longer(b, ks)]

    def run(self):
        out, recs = [], []
        if not self.ok:
            return [[-1]], []
        for op in self.ops:
            t = op[0]
            tgt = op[1]
            if tgt >= len(self.objs) or (t in (0, 1, 2, 7) and self.desc[tgt][0] != 0) or (t == 3 and self.desc[tgt][0] != 3):
                out.append([-1])
                break
            try:
                if t == 0:
                    ks, f, eg, gl, hid, acts = op[2][:6]
                    self.objs[tgt].add(*[self.KM[k] for k in ks], filter=self.env.build(f), eager=self.env.top(eg),
                                       is_global=bool(gl), **self.extra_kw(op[2]))(self.handler(hid))
                    out.append([0])
                elif t == 7:
                    # a pre-built Binding object (key_binding decorator), then add(...)(binding)
                    from prompt_toolkit.key_binding.key_bindings import key_binding
                    pre, arg = op[2], op[3]
                    bobj = key_binding(filter=self.env.top(pre[1]), eager=self.env.top(pre[2]), is_global=bool(pre[3]),
                                       **self.extra_kw(pre))(self.handler(pre[4]))
                    self.objs[tgt].add(*[self.KM[k] for k in arg[0]], filter=self.env.build(arg[1]), eager=self.env.top(arg[2]),
                                       is_global=bool(arg[3]))(bobj)
                    out.append([0])
                elif t == 1:
                    st = 0
                    try:
                        self.objs[tgt].remove(*[self.KM[k] for k in op[2]])
                    except UnboundLocalError:
                        st = 2
                    except ValueError:
                        st = 1
                    out.append([st])
                elif t == 2:
                    st = 0
                    try:
                        self.objs[tgt].remove(self.handler(op[2]))
                    except UnboundLocalError:
                        st = 2
                    except ValueError:
                        st = 1
                    out.append([st])
                    recs.append({"op": op, "status": st})
                elif t == 3:
                    self.sel[tgt] = None if op[2] < 0 else op[2]
                    out.append([0])
                elif t in (4, 5):
                    keys = tuple(self.KM[k] for k in op[2])
                    o = self.objs[tgt]
                    got = with_watchdog(lambda: (o.get_bindings_for_keys(keys) if t == 4 else o.get_bindings_starting_with_keys(keys)), 5)
                    c = [self.canon(b) for b in got]
                    out.append([0, c])
                    recs.append({"op": op, "got": c, "spec": self.spec_lookup(t == 4, tgt, op[2])})
                else:
                    c = [self.canon(b) for b in with_watchdog(lambda: self.objs[tgt].bindings, 5)]
                    out.append([0, c])
                    recs.append({"op": op, "got": c, "spec": self.spec_flat(tgt)})
            except Exception as e:  # noqa
                out.append([99])
                recs.append({"op": op, "exc": repr(e)})
                break
        else:
            try:
                st = self.state()
            except Exception as e:  # noqa  (an object without the expected attributes: never equals the model's state)
                st = [[-7, repr(e)[:80]]]
            out.append([50, st])
            real = real_maxsizes()
            for i, x in enumerate(st):
                if x and len(x) == 3 and (len(x[1]) > self.mx[0] or len(x[2]) > self.mx[1]):
                    recs.append({"op": ["state", i], "bound": [len(x[1]), len(x[2])], "maxsize": self.mx})
        return out, recs


def reg_oracle(recs):
    for r in recs:
        if "exc" in r:
            return ("registry operation raised " + r["exc"], "crash", r)
        if "bound" in r:
            return ("a SimpleCache holds more entries than its maxsize", "cache-bound", r)
        if "got" in r and r["got"] != r["spec"]:
            return ("lookup through the registry differs from recomputation over the current binding lists", "cache",
                    {"op": r["op"], "got": r["got"], "expected": r["spec"]})
    return None


# --------------------------------------------------------------------------
# family 4: GlobalOnlyKeyBindings with a dynamic is_global

def gd_impl(case):
    from prompt_toolkit.key_binding.key_bindings import GlobalOnlyKeyBindings, KeyBindings
    _, env0, ops = case
    KM = keymap()
    RK = {v: k for k, v in KM.items()}
    env = Env(env0)
    n = len(env0)
    kb = KeyBindings()
    g = GlobalOnlyKeyBindings(kb)
    handlers = {}
    out, recs = [], []
    seen = []          # per binding: set of is_global values under the condition values seen since it was added
    descr = []

    def note_env():
        for i, d in enumerate(descr):
            seen[i].add(feval(d[3], [1 if x else 0 for x in env.v[:n]]))

    for op in ops:
        if op[0] == 0:
            h = op[2]
            if h not in handlers:
                def fn(event):
                    return None
                fn._c04 = h
                handlers[h] = fn
            kb.add(*[KM[k] for k in op[1]], is_global=env.top(op[3]))(handlers[h])
            descr.append(op)
            seen.append(set())
            note_env()
        elif op[0] == 1:
            if op[1] < n:
                env.v[op[1]] = not env.v[op[1]]
            note_env()
        else:
            shown = [[[RK.get(k, -7) for k in b.keys], getattr(b.handler, "_c04", -7)] for b in with_watchdog(lambda: g.bindings, 5)]
            out.append(shown)
            recs.append({"shown": shown, "all": [[d[1], d[2]] for d in descr], "seen": [sorted(x) for x in seen]})
    return out, recs


def gd_oracle(recs):
    """the property text: lookups reflect the bindings added since - whatever is_global did in between, a binding
    that was global all along is shown, one that never was is not, and nothing else appears"""
    for r in recs:
        it = iter(r["all"])
        if not all(any(x == y for y in it) for x in r["shown"]):
            return ("the global-only wrapper shows something that is not (in order) in the KeyBindings", "global-dyn", r)
        for b, sv in zip(r["all"], r["seen"]):
            if sv == [True] and b not in r["shown"]:
                return ("a binding added since, global all along, is missing from the global-only wrapper", "global-dyn", r)
            if sv == [False] and r["shown"].count(b) > sum(1 for x, s2 in zip(r["all"], r["seen"]) if x == b and s2 != [False]):
                return ("a binding that was never global is shown by the global-only wrapper", "global-dyn", r)
    return None


def gen_globaldyn(chk, dist):
    rng = chk.rng
    cases = []
    for _ in range(15000 if chk.tier == "thorough" else 1500):
        ops = []
        for _ in range(rng.randint(2, 14)):
            r = rng.random()
            if r < 0.4:
                ops.append([0, rng.choice([[1], [2], [1, 2]]), rng.randrange(3), rng.choice([[0], [1], [2, 0], [2, 1], [3, [2, 0]], rand_f(rng, 2, 2)])])
            elif r < 0.65:
                ops.append([1, rng.randrange(2)])
            else:
                ops.append([2])
        ops.append([2])
        cases.append([4, [rng.randint(0, 1), rng.randint(0, 1)], ops])
        dist["global_dynamic"] += 1
    return cases


# --------------------------------------------------------------------------
# generators

def rand_f(rng, depth, nc=NCOND):
    r = rng.random()
    if depth == 0 or r < 0.3:
        r2 = rng.random()
        if r2 < 0.15:
            return [0]
        if r2 < 0.25:
            return [1]
        return [2, rng.randrange(nc)]
    if r < 0.5:
        return [3, rand_f(rng, depth - 1, nc)]
    if r < 0.78:
        return [4, rand_f(rng, depth - 1, nc), rand_f(rng, depth - 1, nc)]
    return [5, rand_f(rng, depth - 1, nc), rand_f(rng, depth - 1, nc)]


def rand_keys(rng, alpha=(1, 2, 3, 4), anyp=0.2, maxlen=3):
    n = rng.choice([1, 1, 1, 2, 2, 3][:2 * maxlen])
    return [0 if rng.random() < anyp else rng.choice(alpha) for _ in range(n)]


def rand_binding(rng, hid, alpha=(1, 2, 3, 4), acts=True, feed_extra=()):
    f = [0] if rng.random() < 0.45 else rand_f(rng, rng.choice([0, 1, 2, 3]))
    r = rng.random()
    eg = [1] if r < 0.6 else ([0] if r < 0.85 else rand_f(rng, 1))
    al = []
    if acts:
        for _ in range(rng.choice([0, 0, 0, 1, 1, 2])):
            r = rng.random()
            if r < 0.5:
                al.append([0, rng.randrange(NCOND)])
            elif r < 0.66:
                al.append([1])
            elif r < 0.76:
                al.append([3])
            else:
                al.append([2, rng.randint(0, 1), [rng.choice(list(alpha) + [-1] + list(feed_extra)) for _ in range(rng.choice([1, 1, 2]))]])
    return [rand_keys(rng, alpha), f, eg, 1 if rng.random() < 0.3 else 0, hid, al]


def gen_keyproc(chk, dist):
    rng = chk.rng
    thorough = chk.tier == "thorough"
    cases, wraps = [], []
    # (a) small scope: every pair of bindings from a pool x every item sequence up to length 4
    pool_keys = [[1], [2], [0], [1, 1], [1, 2], [2, 1], [1, 0], [0, 1], [0, 0], [2, 2], [2, 0], [0, 2],
                 [1, 1, 1], [1, 2, 2], [0, 1, 2]]
    pool = []
    for ks in pool_keys:
        for f in ([0], [2, 0], [3, [2, 0]]):
            for eg in ([1], [0], [2, 0]):
                pool.append([ks, f, eg, 0, 0, []])
    for ks in ([1], [2], [0], [1, 2]):
        pool.append([ks, [0], [1], 0, 0, [[3]]])      # the handler finishes the application (app.exit())
    seqs = []
    for n in range(1, 5):
        seqs += [list(s) for s in itertools.product([1, 2, -1, -2], repeat=n)]
    frac = 0.06 if thorough else 0.003
    sfrac = 1.0 if thorough else 0.35
    singles = [[b] for b in pool]
    pairs = [[a, b] for a in pool for b in pool]
    for bs in singles + pairs:
        for e0 in (0, 1):
            for s in seqs:
                if rng.random() < (sfrac if len(bs) == 1 else frac):
                    cases.append([1, [e0], bs, [[k] for k in s], FUEL])
                    wraps.append(0)
                    dist["keyproc_small_scope"] += 1
    # (a2) send_sigint, small scope: every pair from a pool of <sigint> bindings x every sequence over
    # {a, sigint(), Flush, exit} up to length 3 (the SIGINT key press goes to the FRONT of the queue: visible when
    # keys were handed back / left in the queue because the application is finished)
    spool = [[[7], [0], [1], 0, 0, []], [[7], [0], [1], 0, 0, [[3]]], [[7], [0], [1], 0, 0, [[1]]], [[1, 7], [0], [1], 0, 0, []],
             [[7, 1], [0], [1], 0, 0, []], [[0], [0], [1], 0, 0, []], [[1], [0], [1], 0, 0, [[3], [2, 0, [1, 1]]]], [[1, 1], [0], [1], 0, 0, []],
             [[7], [2, 0], [0], 0, 0, [[2, 1, [1]]]], [[1], [0], [1], 0, 0, [[2, 0, [7]]]]]
    sseqs = []
    for n in range(1, 4):
        sseqs += [list(s) for s in itertools.product([1, -1001, -1, -1000], repeat=n) if -1001 in s]
    for a in spool:
        for b in spool:
            for s in sseqs:
                if thorough or rng.random() < 0.25:
                    cases.append([1, [1], [a, b], [[k] for k in s], FUEL])
                    wraps.append(0)
                    dist["keyproc_sigint_small_scope"] += 1
    # (a3) re-entry, small scope: handlers that call process_keys() (alone, after feeding, before/after exit) x item
    # sequences fed in one go (so the queue is not empty when the handler runs) or one by one
    rpool = [[[1], [0], [1], 0, 0, [[4]]], [[1], [0], [1], 0, 0, [[2, 1, [2]], [4]]], [[1], [0], [1], 0, 0, [[4], [0, 0]]],
             [[1], [0], [1], 0, 0, [[3], [4]]], [[1, 2], [0], [1], 0, 0, [[4]]], [[0], [2, 0], [1], 0, 0, [[0, 0], [4]]],
             [[2], [0], [1], 0, 0, []], [[2], [0], [1], 0, 0, [[2, 0, [1]]]], [[1, 1], [0], [0], 0, 0, [[4]]], [[2, 2], [0], [1], 0, 0, []]]
    rseqs = []
    for n in range(1, 4):
        rseqs += [list(s) for s in itertools.product([1, 2, -1], repeat=n)]
    for a in rpool:
        for b in rpool:
            for s in rseqs:
                for mode in (0, 1):
                    if thorough or rng.random() < 0.15:
                        cases.append([1, [1], [a, b], [list(s)] + [[2]] if mode == 0 else [[k] for k in s], FUEL])
                        wraps.append(0)
                        dist["keyproc_reentry_small_scope"] += 1
    # (b) structured random
    n = 60000 if thorough else 8000
    for _ in range(n):
        small = rng.random() < 0.5
        alpha = (1, 2) if small else (1, 2, 3, 4, 5)
        nb = rng.choice([1, 2, 2, 3, 3, 4, 5, 6])
        cpr = rng.random() < 0.3
        fx = (6, 6) if cpr else ()       # handlers may feed cursor position reports too
        bs = [rand_binding(rng, i, alpha, feed_extra=fx) for i in range(nb)]
        if not cpr and rng.random() < 0.2:
            # a handler that calls process_keys() itself, at some point of its action list
            for b in rng.sample(bs, rng.choice([1, 1, 2]) if len(bs) > 1 else 1):
                b[5].insert(rng.randint(0, len(b[5])), [4])
            dist["keyproc_reentry"] += 1
        if cpr:
            # cursor position reports: bindings on exactly (CPRResponse,), sometimes longer/wildcard ones around
            for j in range(rng.choice([1, 1, 2])):
                b = rand_binding(rng, len(bs), alpha, feed_extra=fx)
                b[0] = rng.choice([[6], [6], [6], [6, 1], [0]])
                bs.append(b)
        sig = rng.random() < 0.25
        if sig:
            # KeyProcessor.send_sigint(): bindings on <sigint> (exact, longer, wildcard), also ones that exit / feed / raise
            for j in range(rng.choice([1, 1, 2])):
                b = rand_binding(rng, len(bs), alpha, feed_extra=fx)
                b[0] = rng.choice([[7], [7], [7], [7, 1], [1, 7], [0]])
                bs.append(b)
        ops = []
        for _ in range(rng.randint(1, 12)):
            if sig and rng.random() < 0.2:
                ops.append([-1001])
                dist["keyproc_sigint_ops"] += 1
                continue
            if rng.random() < 0.08:
                ops.append([-2 - rng.randrange(NCOND)] if rng.random() < 0.9 else [-1000])
                continue
            ops.append([rng.choice(list(alpha) + [alpha[0], -1] + ([0] if rng.random() < 0.1 else []) + ([6, 6] if cpr else []))
                        for _ in range(rng.choice([1, 1, 1, 2, 3]))])
        cases.append([1, [rng.randint(0, 1) for _ in range(NCOND)], bs, ops, FUEL])
        wraps.append(rng.choice([0, 0, 1, 2, 3]))
        dist["keyproc_random"] += 1
    # (c) family 5: handlers that add / remove bindings while the keys are being processed
    # (c1) small scope: two initial bindings from a pool (one may be a 3-key sequence so that keys wait and are
    # then re-examined by the retry pass), each handler doing one registry mutation from a pool, x every
    # sequence over {a, b} up to length 4 fed at once, and up to length 3 one key at a time
    newX = [[2], [0], [1], 0, 10, []]                      # b -> h10
    newY = [[1, 2], [0], [1], 0, 11, []]                   # a b -> h11
    newZ = [[0], [2, 0], [0], 0, 12, [[0, 0]]]             # Any (filter c0, eager) -> h12 flips c0
    newN = [[1], [3, [0]], [1], 0, 13, []]                 # filter ~Always(): an instance of Never, not registered
    ipool = [[[1], [0], [1], 0, 0, []], [[1, 2, 1], [0], [1], 0, 1, []], [[2], [0], [1], 0, 2, []], [[0], [0], [1], 0, 3, []],
             [[1, 1], [0], [1], 0, 4, []], [[2], [0], [1], 0, 5, [[1]]]]
    mpool = [[], [[0, newX]], [[0, newY]], [[0, newZ]], [[0, newN]], [[1, 0]], [[1, 2]], [[1, 10]], [[0, newX], [1, 1]], [[1, 1], [0, newY]]]
    mseqs = []
    for n in range(1, 5):
        mseqs += [list(x) for x in itertools.product([1, 2], repeat=n)]
    for a in range(len(ipool)):
        for b in range(len(ipool)):
            if a == b:
                continue
            for ma in mpool:
                for mb in mpool:
                    if not ma and not mb:
                        continue
                    for sq in mseqs:
                        if rng.random() < (0.25 if thorough else 0.02):
                            tbl = [[ipool[a][4], ma], [ipool[b][4], mb], [10, rng.choice([[], [[1, 10]], [[0, newY]]])]]
                            ops = [list(sq)] if rng.random() < 0.5 else [[k] for k in sq]
                            cases.append([5, [1], [ipool[a], ipool[b]], tbl, ops + [[1], [2]], FUEL])
                            wraps.append(rng.choice([0, 0, 1, 2, 3]))
                            dist["keyproc_mutating_small_scope"] += 1
    # (c2) structured random
    for _ in range(20000 if thorough else 2500):
        alpha = (1, 2) if rng.random() < 0.6 else (1, 2, 3)
        nb = rng.choice([1, 2, 2, 3, 4])
        bs = [rand_binding(rng, i, alpha) for i in range(nb)]
        news = [rand_binding(rng, 10 + i, alpha) for i in range(rng.choice([1, 2, 3]))]
        if rng.random() < 0.15:
            for b in rng.sample(bs + news, 1):
                b[5].insert(rng.randint(0, len(b[5])), [4])
        hids = [b[4] for b in bs + news]
        tbl = []
        for h in rng.sample(hids, rng.randint(1, len(hids))):
            ms = []
            for _ in range(rng.choice([1, 1, 2])):
                ms.append([0, rng.choice(news)] if rng.random() < 0.6 else [1, rng.choice(hids + [99])])
            tbl.append([h, ms])
        ops = []
        for _ in range(rng.randint(1, 10)):
            r = rng.random()
            if r < 0.07:
                ops.append([-2 - rng.randrange(NCOND)] if rng.random() < 0.85 else [-1000])
            elif r < 0.1:
                ops.append([-1001])
            else:
                ops.append([rng.choice(list(alpha) + [alpha[0], -1]) for _ in range(rng.choice([1, 1, 2, 3, 4]))])
        cases.append([5, [rng.randint(0, 1) for _ in range(NCOND)], bs, tbl, ops, FUEL])
        wraps.append(rng.choice([0, 0, 1, 2, 3]))
        dist["keyproc_mutating_random"] += 1
    return cases, wraps


def gen_filters(chk, dist):
    rng = chk.rng
    thorough = chk.tier == "thorough"
    cases = []
    # (a) every pair/triple of operator applications over a base of objects
    base = [[0, 0], [0, 1], [1], [2], [3, 2, 3], [4, 2, 3], [5, 2]]     # ids 2..8: c0 c1 Always() Never() c0&c1 c0|c1 ~c0
    nbase = 2 + len(base)
    binops = [[t, a, b] for t in (3, 4) for a in range(nbase) for b in range(nbase)] + [[5, a] for a in range(nbase)]
    for o1 in binops:
        cases.append([2, 2, base + [o1, o1]])     # second time: the memo caches
        dist["filters_small_scope"] += 1
    for o1 in binops:
        for o2 in rng.sample(binops, 12 if thorough else 3):
            o3 = [rng.choice([3, 4]), nbase, nbase + 1] if rng.random() < 0.5 else [5, nbase + 1]
            cases.append([2, 2, base + [o1, o2, o3, o2]])
            dist["filters_small_scope"] += 1
    # (b) random histories; operands are drawn from the objects that exist at that point, which is only
    # known by applying the operators (to real objects, identity only), so generate and apply in step
    from prompt_toolkit.filters import Always, Condition, Never
    from prompt_toolkit.filters.utils import to_filter
    for _ in range(20000 if thorough else 2500):
        ops = []
        objs = [to_filter(True), to_filter(False)]
        for _ in range(rng.randint(1, 22)):
            r = rng.random()
            n = len(objs)
            if r < 0.2 or n < 4:
                op = rng.choice([[0, rng.randrange(NCOND)], [0, rng.randrange(NCOND)], [1], [2]])
                res = Condition(lambda: True) if op[0] == 0 else (Always() if op[0] == 1 else Never())
            else:
                hi = n + (1 if rng.random() < 0.01 else 0)    # rarely: an object that does not exist
                if r < 0.55:
                    op = [3, rng.randrange(hi), rng.randrange(hi)]
                elif r < 0.85:
                    op = [4, rng.randrange(hi), rng.randrange(hi)]
                else:
                    op = [5, rng.randrange(hi)]
                if any(a >= n for a in op[1:]):
                    ops.append(op)
                    break
                res = (objs[op[1]] & objs[op[2]]) if op[0] == 3 else ((objs[op[1]] | objs[op[2]]) if op[0] == 4 else ~objs[op[1]])
            ops.append(op)
            if not any(res is o for o in objs):
                objs.append(res)
        cases.append([2, NCOND, ops])
        dist["filters_random"] += 1
    return cases


def gen_registry(chk, dist):
    rng = chk.rng
    thorough = chk.tier == "thorough"
    cases = []
    kpool = [[1], [2], [0], [1, 2], [1, 0], [0, 2], [1, 2, 1], [0, 0]]
    for _ in range(25000 if thorough else 3000):
        nkb = rng.choice([1, 1, 2, 2, 3])
        objs = [[0] for _ in range(nkb)]
        for _ in range(rng.choice([0, 1, 2, 3, 4, 5])):
            n = len(objs)
            t = rng.choice([1, 2, 2, 3, 4])
            if t == 1:
                objs.append([1, rng.randrange(n), rand_f(rng, rng.choice([0, 1, 2]))])
            elif t == 2:
                objs.append([2, [rng.randrange(n) for _ in range(rng.choice([0, 1, 2, 2, 3]))]])
            elif t == 3:
                objs.append([3, [rng.randrange(n) for _ in range(rng.choice([1, 2, 2]))]])
            else:
                objs.append([4, rng.randrange(n)])
        ops = []
        n = len(objs)
        dyns = [i for i, o in enumerate(objs) if o[0] == 3]
        for _ in range(rng.randint(1, 30)):
            r = rng.random()
            k = rng.randrange(nkb)
            bad = rng.random() < 0.004
            if r < 0.3:
                b = rand_binding(rng, rng.randrange(3), (1, 2), acts=False)
                b[0] = rng.choice(kpool)
                if rng.random() < 0.5:
                    b += [rng.randint(0, 1), rng.choice([0, 0, 1, 2])]
                if rng.random() < 0.4:
                    arg = rand_binding(rng, 0, (1, 2), acts=False)
                    arg[0] = rng.choice(kpool)
                    ops.append([7, n if bad else k, b, arg])      # add a pre-built Binding object
                else:
                    ops.append([0, n if bad else k, b])
            elif r < 0.38:
                ops.append([1, k, rng.choice(kpool)])
            elif r < 0.46:
                ops.append([2, k, rng.randrange(3)])
            elif r < 0.52 and dyns:
                d = rng.choice(dyns)
                ops.append([3, d, rng.randint(-1, len(objs[d][1]) - 1)])
            elif r < 0.75:
                ops.append([4, n if bad else rng.randrange(n), rng.choice(kpool + [[1, 1], [2, 2]])])
            elif r < 0.92:
                ops.append([5, rng.randrange(n), rng.choice([[], [1], [0], [2], [1, 2], [0, 0]])])
            else:
                ops.append([6, rng.randrange(n)])
        cases.append([3, NCOND, objs, ops, real_maxsizes()])
        dist["registry_random"] += 1
    # a caching wrapper over a DynamicKeyBindings that is switched between registries whose version
    # counters coincide (the id() component of the dynamic version matters exactly here)
    for _ in range(6000 if thorough else 700):
        w = rng.choice([[1, 2, rand_f(rng, 1)], [2, [2]], [4, 2], [2, [2, 0]], [2, [1, 2]]])
        objs = [[0], [0], [3, [0, 1]], w]
        if rng.random() < 0.4:
            objs.append(rng.choice([[2, [3]], [4, 3], [1, 3, [0]], [3, [3, 0]]]))
        top = len(objs) - 1
        ops = []
        for _ in range(rng.randint(3, 16)):
            r = rng.random()
            if r < 0.3:
                b = rand_binding(rng, rng.randrange(2), (1, 2), acts=False)
                b[0] = rng.choice([[1], [2], [1, 2]])
                b[3] = 1 if rng.random() < 0.7 else 0
                if rng.random() < 0.4:
                    arg = [rng.choice([[1], [2], [1, 2]]), [0], [1], 0, 0, []]
                    ops.append([7, rng.randrange(2), b + [rng.randint(0, 1), rng.choice([0, 1])], arg])
                else:
                    ops.append([0, rng.randrange(2), b])
            elif r < 0.55:
                ops.append([3, 2, rng.choice([0, 1, 0, 1, -1])])
            elif r < 0.6:
                ops.append([1, rng.randrange(2), rng.choice([[1], [2]])])
            elif r < 0.85:
                ops.append([4, rng.choice([top, 3]), rng.choice([[1], [2], [1, 2]])])
            else:
                ops.append([rng.choice([5, 6]), rng.choice([top, 3])] + ([[rng.choice([1, 0])]] if False else []))
                if ops[-1][0] == 5:
                    ops[-1].append(rng.choice([[], [1]]))
        cases.append([3, NCOND, objs, ops, real_maxsizes()])
        dist["registry_dynamic_switch"] += 1
    cases += gen_registry_round6(chk, dist)
    return cases


def gen_registry_round6(chk, dist):
    rng = chk.rng
    thorough = chk.tier == "thorough"
    cases = []
    real = real_maxsizes()
    # (c) small scope, exhaustive: one fixed store with every kind of wrapper; every sequence of up to 3 mutations
    # from a pool (add plain / add Binding object / remove by handler / remove by keys / dynamic switch); all
    # wrappers are looked at before the first mutation (caches and _last_version filled) and DIRECTLY after each
    # one: both prefix lookups (get_bindings_starting_with_keys) and an exact one
    objs = [[0], [0], [1, 0, [2, 0]], [2, [0, 1]], [3, [0, 1]], [4, 3], [2, [2, 4]], [4, 4], [1, 4, [3, [2, 1]]]]
    wrappers = list(range(2, len(objs)))
    ba = [[1], [0], [1], 1, 0, []]
    bab = [[1, 2], [2, 0], [1], 0, 1, []]
    bany = [[0, 2], [0], [2, 1], 1, 2, []]
    pre = [[1], [2, 1], [0], 1, 2, [], 0, 1]
    muts = [[0, 0, ba], [0, 0, bab], [0, 1, ba], [0, 1, bany], [7, 1, pre, [[1, 1], [0], [1], 0, 0, []]],
            [2, 0, 0], [2, 1, 0], [1, 0, [1]], [1, 1, [0, 2]], [3, 4, 0], [3, 4, 1], [3, 4, -1]]
    probe = []
    for w in wrappers:
        probe += [[5, w, []], [5, w, [1]], [4, w, [1]]]
    probe_ab = [[4, w, [1, 2]] for w in wrappers]
    seqs = []
    for n in (1, 2, 3):
        seqs += [list(x) for x in itertools.product(range(len(muts)), repeat=n)]
    for sq in seqs:
        if len(sq) == 3 and not thorough and rng.random() > 0.25:
            continue
        ops = list(probe)
        for j, m in enumerate(sq):
            ops.append(muts[m])
            ops += probe if j % 2 == 0 else probe + probe_ab
        cases.append([3, NCOND, objs, ops, real])
        dist["registry_small_scope"] += 1
    # (d) SimpleCache eviction: the real SimpleCache class with small maxsize values (1..3) in every KeyBindings and
    # every wrapper's _bindings2; many distinct keys so that entries are evicted, looked up again, re-entered
    kpool = [[1], [2], [0], [1, 2], [1, 0], [0, 2], [1, 2, 1], [0, 0], [2, 2], [3], [], [2, 1]]
    for _ in range(12000 if thorough else 1500):
        mx = rng.choice([[1, 1], [2, 1], [1, 2], [2, 3], [3, 2], [3, 3]])
        if real[0] == real[1]:
            mx = [mx[0], mx[0]]      # the two caches cannot be told apart by their size: cap both alike
        nkb = rng.choice([1, 2])
        objs = [[0] for _ in range(nkb)]
        for _ in range(rng.choice([0, 1, 2, 3])):
            n = len(objs)
            t = rng.choice([1, 2, 3, 4])
            objs.append([1, rng.randrange(n), rand_f(rng, 1)] if t == 1 else [2, [rng.randrange(n) for _ in range(rng.choice([1, 2]))]] if t == 2
                        else [3, [rng.randrange(n) for _ in range(rng.choice([1, 2]))]] if t == 3 else [4, rng.randrange(n)])
        n = len(objs)
        dyns = [i for i, o in enumerate(objs) if o[0] == 3]
        ops = []
        for _ in range(rng.randint(4, 30)):
            r = rng.random()
            if r < 0.12:
                b = rand_binding(rng, rng.randrange(3), (1, 2), acts=False)
                b[0] = rng.choice(kpool[:9])
                b[3] = 1 if rng.random() < 0.7 else 0
                ops.append([0, rng.randrange(nkb), b])
            elif r < 0.16:
                ops.append([2, rng.randrange(nkb), rng.randrange(3)])
            elif r < 0.2 and dyns:
                d = rng.choice(dyns)
                ops.append([3, d, rng.randint(-1, len(objs[d][1]) - 1)])
            else:
                tgt = rng.randrange(n) if rng.random() < 0.7 else rng.randrange(nkb)
                ops.append([rng.choice([4, 4, 5]), tgt, rng.choice(kpool)])
        cases.append([3, NCOND, objs, ops, mx])
        dist["registry_eviction"] += 1
    # (e) the real maxsize: more distinct prefix lookups than the prefix cache holds (and, thorough tier, more exact
    # lookups than the exact cache holds), then the first keys again
    def distinct_keys(n):
        out, ln = [], 1
        while len(out) < n:
            out += [list(t) for t in itertools.product([1, 2, 3, 4, 5], repeat=ln)]
            ln += 1
        return out[:n]
    for which, size in ((5, real[1]), (4, real[0])):
        if size > 1500 and not thorough:
            continue
        if size > 30000:
            continue
        ks = distinct_keys(size + 2)
        for tgt in (0, 1):
            ops = [[0, 0, [[1, 2], [0], [1], 1, 0, []]], [0, 0, [[0, 0, 0], [0], [1], 1, 1, []]]]
            ops += [[which, tgt, k] for k in ks] + [[which, tgt, ks[0]], [which, tgt, ks[1]], [which, tgt, ks[-1]]]
            cases.append([3, 1, [[0], [2, [0]]], ops, real])
            dist["registry_real_maxsize"] += 1
    return cases


# --------------------------------------------------------------------------

def impl_case(case, wrap=0):
    """-> (canonical result, oracle failure or None)"""
    fam = case[0]
    if fam == 1:
        r = KPRun(case, wrap)
        out = r.run()
        if any(isinstance(x, list) and x and x[0] == 98 for x in out):
            # the watchdog fired: on a loaded machine that can be a stall of this process, not a hang of
            # process_keys (a real hang is deterministic) - run the case again with a long watchdog
            r = KPRun(case, wrap)
            r.watchdog_s = 120
            out = r.run()
        return out, kp_oracle(case, r.op_records)
    if fam == 5:
        r = KPRunM(case, wrap)
        out = r.run()
        return out, kp_oracle([1, case[1], case[2], case[4], case[5]], r.op_records)
    if fam == 2:
        out, recs = fl_impl(case)
        return out, fl_oracle(recs)
    if fam == 4:
        out, recs = gd_impl(case)
        return out, gd_oracle(recs)
    with capped(case[4]):
        r = RegRun(case)
        out, recs = r.run()
    return out, reg_oracle(recs)


FAMILY = {1: "keyproc", 2: "filters", 3: "registry", 4: "global-dynamic", 5: "keyproc-mutating"}


def nontrivial(case, out):
    fam = case[0]
    if fam in (1, 5):
        return any(isinstance(r, list) and len(r) > 2 and any(isinstance(ev, list) and ev[0] in (0, 6) for ev in r[1]) for r in out)
    if fam == 2:
        return any(o[0] >= 3 for o in case[2])
    if fam == 4:
        return any(r for r in out)
    return any(isinstance(r, list) and len(r) > 1 and r[1] for r in out)


def main(tier):
    chk = Check(PROP, tier)
    timing = {}
    t0 = time.time()
    pr = chk.proofs("Props/C04.v", tables=TABLES)
    timing["proofs"] = round(time.time() - t0, 1)
    t0 = time.time()
    okm, logm = build_model("c04", "Extract/ExC04.v", "run_C04", tables=TABLES)
    timing["model_build"] = round(time.time() - t0, 1)
    if not okm:
        chk.violation("tie", "model does not build: " + logm[-400:], {"kind": "model-build"}, {"log": logm[-3000:]}, no_input=True)
        return chk.finish()

    t0 = time.time()
    dist = {"keyproc_small_scope": 0, "keyproc_random": 0, "keyproc_sigint_small_scope": 0, "keyproc_sigint_ops": 0, "keyproc_reentry": 0, "keyproc_reentry_small_scope": 0, "keyproc_mutating_small_scope": 0, "keyproc_mutating_random": 0,
            "registry_eviction": 0, "registry_small_scope": 0, "registry_real_maxsize": 0, "filters_small_scope": 0, "filters_random": 0,
            "registry_random": 0, "registry_dynamic_switch": 0, "global_dynamic": 0}
    kp_cases, wraps = gen_keyproc(chk, dist)
    fl_cases = gen_filters(chk, dist)
    rg_cases = gen_registry(chk, dist) + gen_globaldyn(chk, dist)
    corpus = load_corpus(PROP)
    cases = corpus + kp_cases + fl_cases + rg_cases
    wraps = [0] * len(corpus) + wraps + [0] * (len(fl_cases) + len(rg_cases))
    # a malformed stream: the model must answer bad_case, never an implementation result
    malformed = [[1, [0], [[[6], [0], [1], 0, 0, [[4]]]], [[1]], 5],      # re-entry together with cursor position reports: outside the model
                 [1, [0], "x", [], 5], [7], [2, 99, []], [3, 1, [[1, 0, [0]]], [], [10000, 1000]], [1, [0], [[[], [0], [1], 0, 0, []]], [], 5],
                 [3, 1, [[0]], [], [0, 5]], [3, 1, [[0]], []]]

    timing["generate"] = round(time.time() - t0, 1)
    t0 = time.time()
    impl_results = []
    oracle_bad = set()
    evcount = {"invoke": 0, "drop": 0, "raised": 0, "handed_back": 0, "pop": 0, "fed": 0, "cpr_delivered": 0, "fuel": 0}
    for i, c in enumerate(cases):
        out, bad = impl_case(c, wraps[i])
        impl_results.append(out)
        chk.count_case(c, nontrivial(c, out))
        if c[0] == 1:
            for r in out:
                if len(r) > 1:
                    for ev in r[1]:
                        evcount[{0: "invoke", 1: "drop", 2: "raised", 3: "handed_back", 4: "pop", 5: "fed", 6: "cpr_delivered", 7: "pop"}.get(ev[0], "invoke")] += 1
                else:
                    evcount["fuel"] += 1
        if bad:
            oracle_bad.add(i)
            clause, fam, detail = bad
            chk.violation("oracle", "%s (%s case %r; detail %r)" % (clause, FAMILY[c[0]], c[1:], detail),
                          {"family": FAMILY[c[0]], "clause": fam},
                          {"case": c, "wrap": wraps[i], "clause": clause, "detail": detail,
                           "how": "harness/c04.py impl_case(case, wrap) drives the real objects"})
        if i % 1499 == 0:
            chk.sample({"family": FAMILY[c[0]], "case": c[1:], "impl_result": out[:3]})
    chk.coverage["input_distribution"] = dict(dist, corpus=len(corpus), events=evcount)

    def tagger(c, a, m):
        return {"family": FAMILY.get(c[0], "?")}

    timing["implementation+oracle"] = round(time.time() - t0, 1)
    t0 = time.time()
    model_results = run_model("c04", cases)
    timing["model_run"] = round(time.time() - t0, 1)
    model_results = [kp_model_post(m) if c[0] in (1, 5) else m for c, m in zip(cases, model_results)]
    nbad = 0
    for i, (c, a, m) in enumerate(zip(cases, impl_results, model_results)):
        a = sx_norm(a)
        if a != m:
            nbad += 1
            if nbad > 50:
                continue
            chk.violation("correspondence", "model and implementation differ on %s case %r: impl=%r model=%r" % (
                FAMILY[c[0]], c[1:], a[:4], m[:4] if isinstance(m, list) else m),
                dict(tagger(c, a, m), kind="correspondence"),
                {"case": sx_norm(c), "wrap": wraps[i], "impl": a, "model": m, "model_fn": "c04"},
                no_input=i not in oracle_bad)
    chk.coverage["traces_validated_against_impl"] += len(cases) - nbad
    mm = run_model("c04", malformed)
    if any(m != [-999] for m in mm):
        chk.violation("tie", "model accepted a malformed case: %r" % (mm,), {"kind": "malformed"}, {"cases": malformed}, no_input=True)

    # extraction/driver cross-check inside Coq on a sample
    t0 = time.time()
    k = 900 if chk.tier == "thorough" else 240
    idx = sorted(chk.rng.sample(range(len(cases)), min(k, len(cases))))
    # in-Coq evaluation sees the raw model result; out-of-fuel ops were reduced to [97] above, so skip those cases
    raw = run_model("c04", [cases[i] for i in idx])
    pairs = [(cases[i], r) for i, r in zip(idx, raw)]
    bad, logs = vm_crosscheck("%s_%d" % (PROP, os.getpid()), "run_C04", "Model.C04_Run", pairs, per_file=120)
    chk.coverage["vm_compute_crosschecked"] = len(pairs)
    timing["vm_crosscheck"] = round(time.time() - t0, 1)
    chk.coverage["timing_s"] = timing
    if any(not isinstance(b, int) for b in bad):
        chk.violation("tie", "vm_compute cross-check failed to run: " + (logs[0] if logs else ""), {"kind": "vm"}, {"log": logs}, no_input=True)
    elif bad:
        chk.violation("tie", "extracted model and in-Coq evaluation disagree on cases %r" % [idx[b] for b in bad][:5],
                      {"kind": "extraction"}, {"cases": [cases[idx[b]] for b in bad][:5]}, no_input=True)

    proof_gate(chk, pr)
    chk.coverage["rule"] = (
        "three case families run on the real objects and on the Coq model: (1) a real KeyProcessor over a real KeyBindings "
        "(optionally behind merge/dynamic/conditional wrappers) fed key presses and _Flush items op by op; compared per op: "
        "handler invocations (binding index, key_sequence), dropped keys, exception + discarded keys, keys handed back when a handler "
        "finished the application, pops, handler feeds, popped items, key_buffer, "
        "input_queue, condition values; small scope = single bindings and a %s sample of every pair from a pool of 139 bindings "
        "(keys over {a,b,Any} up to length 2 x filter {Always,c,~c} x eager {no,yes,c}) x both condition values x every sequence over "
        "{a,b,Flush,external flip of c} up to length 4; (2) histories of & | ~ over real Filter objects, compared by object identity, class, "
        "children and truth table; (3) add/remove/lookup histories through real KeyBindings and the four wrappers, compared by "
        "(keys, handler, filter truth table, eager truth table, is_global, record_in_macro, save_before identity); (4) a real "
        "GlobalOnlyKeyBindings over a KeyBindings whose bindings have a dynamic is_global filter: adds, condition flips, .bindings; bindings are added as plain "
        "functions and as pre-built Binding objects (key_binding decorator). non-trivial = some handler fired / some operator "
        "applied / some lookup returned a binding; distinct by hash of the whole case. Round 6: KeyProcessor.send_sigint() as an op, handlers that call "
        "process_keys() themselves, registry small scope (fixed store with every wrapper kind x every sequence of <= 3 mutations, all wrappers "
        "probed with prefix and exact lookups before and directly after each), (5) round 7: a real KeyProcessor whose handlers call kb.add / kb.remove(handler) "
        "on the registry it dispatches from, while keys are being processed (plain or behind merge/dynamic/conditional wrappers); handler calls reported by the "
        "binding's position in kb.bindings at call time, the oracle uses the registry as it was at each call / drop / end of op, the registered handler "
        "identities are compared at the end; SimpleCache eviction (small maxsize, and the real maxsize "
        "exceeded), version/_last_version and the keys held by every SimpleCache compared at the end of each registry history" % ("6%" if chk.tier == "thorough" else "0.3%"))
    chk.assumptions += [
        "handler effects are data (flip condition / feed keys / raise / app.exit() / call process_keys() again; family 5: kb.add / kb.remove(handler) at the start of the handler body, Model/C04_KeyProcMut.v); cursor position reports are outside family 5, and so is re-entry combined with cursor position reports (the decoder rejects such cases)",
        "the timeout is the explicit _Flush item; the asyncio timer (_start_timeout) is disabled (timeoutlen=None)",
        "is_global is a constant per binding; SimpleCache eviction is modelled with the two maxsize values read from the real KeyBindings (%r) and, in the eviction family, the real SimpleCache class capped at 1..3 entries by patching the name SimpleCache in key_binding.key_bindings; id() reuse after garbage collection (DynamicKeyBindings version) is not modelled" % (real_maxsizes(),),
        "KeyPressEvent.arg/is_repeat, macro recording, undo save points, vi cursor fix-up are outside the model",
        "app.is_done / event.app.exit() are driven by a hand-made pending asyncio future put on an Application that is never run (harness new_application_run); the real run_async life cycle is not exercised",
        "cursor position reports: the oracle demands only the property text (pending keys untouched, receiver = last-registered most specific active match); that wildcard bindings never receive a report, is_repeat, the repetition argument and the previous-key bookkeeping are checked against the model only (they rest on the docstring of _handle_cpr_response, not on the property text)",
        "dropped keys are observed (KeyProcessor.key_buffer is an instrumented list: a deletion with no handler call / hand-back since the previous one is a drop) AND inferred (keys popped that are neither delivered nor pending, positioned by the buffer snapshot each handler takes); the two must agree (oracle clause conservation)"]
    return chk.finish()


KN = {0: "Any", 1: "a", 2: "b", 3: "c", 4: "d", 5: "c-x", 6: "<cursor-position-response>", 7: "<sigint>", -1: "<Flush>"}


def f_str(f):
    t = f[0]
    if t == 0:
        return "Always"
    if t == 1:
        return "Never"
    if t == 2:
        return "c%d" % f[1]
    if t == 3:
        return "~" + f_str(f[1])
    return "(%s %s %s)" % (f_str(f[1]), "&" if t == 4 else "|", f_str(f[2]))


def explain(case, wrap=0):
    """the case in words (what to type against the real objects)"""
    if case[0] == 5:
        def bdesc(b):
            return "kb.add(%s, filter=%s, eager=%s)(handler%d)" % (", ".join(repr(KN[k]) for k in b[0]), f_str(b[1]), f_str(b[2]), b[4])
        print("handlers that mutate the registry; a handler is reported by the position of its binding in kb.bindings at call time")
        for hid, ms in case[3]:
            print("  handler%d first does: %s" % (hid, "; ".join(bdesc(m[1]) if m[0] == 0 else "kb.remove(handler%d)" % m[1] for m in ms) or "nothing"))
        explain([1, case[1], case[2], case[4], case[5]], wrap)
        print("  (initial bindings are registered with Filter objects: one whose filter is an instance of Never is not registered;")
        print("   binding #i above belongs to handler%s)" % ", ".join(str(b[4]) for b in case[2]))
        return
    if case[0] == 1:
        print("conditions c0.. = %r; registry = KeyBindings%s" % (case[1], {0: "", 1: " behind merge_key_bindings", 2: " behind DynamicKeyBindings",
                                                                            3: " behind ConditionalKeyBindings(merge([empty, kb]), True)"}[wrap]))
        for i, b in enumerate(case[2]):
            acts = ["flip c%d" % a[1] if a[0] == 0 else ("raise" if a[0] == 1 else "event.app.exit()" if a[0] == 3 else "event.key_processor.process_keys()" if a[0] == 4 else "feed_multiple(%r, first=%r)" % ([KN.get(k, k) for k in a[2]], bool(a[1])))
                    for a in b[5]]
            print("  binding #%d: kb.add(%s, filter=%s, eager=%s) handler does: %s" % (
                i, ", ".join(repr(KN[k]) for k in b[0]), f_str(b[1]), f_str(b[2]), "; ".join(acts) or "nothing"))
        for o in case[3]:
            if o == [-1000]:
                print("  then app.exit() is called from outside a handler")
            elif o == [-1001]:
                print("  then key_processor.send_sigint()")
            elif len(o) == 1 and o[0] <= -2:
                print("  then condition c%d flips (outside any handler)" % (-2 - o[0]))
            else:
                print("  then feed %r; process_keys()" % [KN.get(k, k) for k in o])
    elif case[0] == 4:
        print("kb = KeyBindings(); g = GlobalOnlyKeyBindings(kb); conditions = %r" % (case[1],))
        for o in case[2]:
            if o[0] == 0:
                print("  kb.add(%s, is_global=%s)(handler%d)" % (", ".join(repr(KN[k]) for k in o[1]), f_str(o[3]), o[2]))
            elif o[0] == 1:
                print("  condition c%d flips" % o[1])
            else:
                print("  g.bindings")
    elif case[0] == 2:
        print("objects #0 = to_filter(True), #1 = to_filter(False); then, each result getting the next number if it is a new object:")
        for o in case[2]:
            print("  " + {0: "Condition(c%s)", 1: "Always()", 2: "Never()", 3: "#%s & #%s", 4: "#%s | #%s", 5: "~#%s"}[o[0]] % tuple(o[1:]))
    else:
        print("SimpleCache sizes (exact lookups, prefix lookups) = %r; real ones: %r" % (case[4], real_maxsizes()))
        for i, o in enumerate(case[2]):
            t = o[0]
            d = ("KeyBindings()" if t == 0 else "ConditionalKeyBindings(#%s, %s)" % (o[1], f_str(o[2])) if t == 1 else
                 "merge_key_bindings(%r)" % (o[1],) if t == 2 else "DynamicKeyBindings(-> one of %r or None)" % (o[1],) if t == 3 else
                 "GlobalOnlyKeyBindings(#%s)" % (o[1],))
            print("  object #%d = %s" % (i, d))
        for o in case[3]:
            t = o[0]
            if t == 0:
                b = o[2]
                print("  #%d.add(%s, filter=%s, eager=%s, is_global=%r)(handler%d)" % (o[1], ", ".join(repr(KN[k]) for k in b[0]), f_str(b[1]), f_str(b[2]), bool(b[3]), b[4]))
            elif t == 7:
                pre, arg = o[2], o[3]
                print("  B = key_binding(filter=%s, eager=%s, is_global=%r%s)(handler%d); #%d.add(%s, filter=%s, eager=%s, is_global=%r)(B)" % (
                    f_str(pre[1]), f_str(pre[2]), bool(pre[3]),
                    (", record_in_macro=%r, save_before=saver%d" % (bool(pre[6]), pre[7])) if len(pre) > 6 else "", pre[4],
                    o[1], ", ".join(repr(KN[k]) for k in arg[0]), f_str(arg[1]), f_str(arg[2]), bool(arg[3])))
            elif t == 1:
                print("  #%d.remove(%s)" % (o[1], ", ".join(repr(KN[k]) for k in o[2])))
            elif t == 2:
                print("  #%d.remove(handler%d)" % (o[1], o[2]))
            elif t == 3:
                print("  dynamic #%d now returns %s" % (o[1], "None" if o[2] < 0 else "candidate %d" % o[2]))
            elif t in (4, 5):
                print("  #%d.%s(%r)" % (o[1], "get_bindings_for_keys" if t == 4 else "get_bindings_starting_with_keys", tuple(KN[k] for k in o[2])))
            else:
                print("  #%d.bindings" % o[1])


def replay(data):
    rep = data["replay"]
    case = rep["case"]
    wrap = rep.get("wrap", 0)
    out, bad = impl_case(case, wrap)
    print("family %s case %r" % (FAMILY.get(case[0]), case[1:]))
    try:
        explain(case, wrap)
    except Exception as e:  # noqa
        print("(case not explainable: %r)" % (e,))
    print("a registry history ends with [50, per object [version or _last_version, keys in the exact-lookup cache, keys in the prefix cache]]" if case[0] == 3 else "", end="")
    print("per op: [status, events (0 i keys = handler of binding #i called; 1 k = key dropped; 2 = exception, discarded buffer/queue; 3 = keys handed back to the queue; 4 = pop; 5 = handler feed; 6 i = cursor position report delivered to binding #i; 7 = report taken from the queue after is_done), popped, key_buffer, input_queue, conditions, is_done, [previous handler, previous key sequence]]"
          if case[0] == 1 else "")
    for r in out:
        print("  impl:", r)
    print("ORACLE FAILS: %s %r" % (bad[0], bad[2]) if bad else "oracle ok")
    m = run_model("c04", [case])[0]
    if case[0] in (1, 5):
        m = kp_model_post(m)
    print("model agrees" if m == sx_norm(out) else "model differs: %r" % (m,))
    return 1 if bad or m != sx_norm(out) else 0
