"""C01 - basic buffer edits.  Model: coq/Model/BufferEdit.v; theorems: coq/Props/C01.v."""
import itertools
import types

from common import *  # noqa

PROP = "C01"
TABLES = ["Whitespace", "C02_Patterns"]
MODELS = [("c01", "Extract/ExC01.v", "run_C01x")]
ALPHA = ["a", "B", " ", "\n", "界"]
RAND_ALPHA = ["a", "b", "C", " ", " ", "\n", "\n", "\t", "\r", "界", "é"[1], "\U0001F600", "(", "x", "\xdf"]

OPNAMES = {1: "insert_text", 2: "delete_before_cursor", 3: "delete", 4: "newline", 5: "insert_line_above",
           6: "insert_line_below", 7: "join_next_line", 8: "swap_characters_before_cursor",
           9: "transform_current_line", 10: "transform_region", 11: "indent", 12: "unindent",
           13: "set_text", 14: "set_cursor_position", 15: "cursor_left", 16: "cursor_right",
           17: "backward-delete-char", 18: "delete-char", 19: "self-insert", 20: "transpose-chars",
           21: "join_selected_lines", 22: "case-word"}
CASE_CMDS = ["uppercase-word", "downcase-word", "capitalize-word"]


def case_F(kind, s):
    return s.upper() if kind == 0 else s.lower() if kind == 1 else s.title()


def apply_F(code, s):
    if code == 1:
        return s[::-1]
    if code == 2:
        return s + "!"
    if code == 3:
        return ""
    if code == 4:
        return "".join(chr(ord(c) - 32) if "a" <= c <= "z" else c for c in s)
    return s


# --------------------------------------------------------------------------
# implementation runner

class _Out:
    def bell(self):
        pass


def make_event(buf, arg=1, data=""):
    app = types.SimpleNamespace(output=_Out(), current_buffer=buf)
    return types.SimpleNamespace(current_buffer=buf, arg=arg, data=data, app=app, is_repeat=False,
                                 key_sequence=[])


def impl_step(b, op):
    from prompt_toolkit.buffer import indent, unindent
    from prompt_toolkit.key_binding.bindings.named_commands import get_by_name
    k = op[0]
    ret = ""
    if k == 1:
        b.insert_text(unS(op[1]), overwrite=bool(op[2]), move_cursor=bool(op[3]))
    elif k == 2:
        ret = b.delete_before_cursor(op[1])
    elif k == 3:
        ret = b.delete(op[1])
    elif k == 4:
        b.newline(copy_margin=bool(op[1]))
    elif k == 5:
        b.insert_line_above(copy_margin=bool(op[1]))
    elif k == 6:
        b.insert_line_below(copy_margin=bool(op[1]))
    elif k == 7:
        b.join_next_line(separator=unS(op[1]))
    elif k == 8:
        b.swap_characters_before_cursor()
    elif k == 9:
        b.transform_current_line(lambda s: apply_F(op[1], s))
    elif k == 10:
        b.transform_region(op[1], op[2], lambda s: apply_F(op[3], s))
    elif k == 11:
        indent(b, op[1], op[2], op[3])
    elif k == 12:
        unindent(b, op[1], op[2], op[3])
    elif k == 13:
        b.text = unS(op[1])
    elif k == 14:
        b.cursor_position = op[1]
    elif k == 15:
        b.cursor_left(op[1])
    elif k == 16:
        b.cursor_right(op[1])
    elif k == 17:
        get_by_name("backward-delete-char").handler(make_event(b, op[1]))
    elif k == 18:
        get_by_name("delete-char").handler(make_event(b, op[1]))
    elif k == 19:
        get_by_name("self-insert").handler(make_event(b, op[2], unS(op[1])))
    elif k == 20:
        get_by_name("transpose-chars").handler(make_event(b))
    elif k == 22:
        get_by_name(CASE_CMDS[op[1]]).handler(make_event(b, op[2]))
    elif k == 21:
        from prompt_toolkit.selection import SelectionState
        b.selection_state = SelectionState(original_cursor_position=op[1])
        try:
            b.join_selected_lines(separator=unS(op[2]))
        finally:
            b.selection_state = None
    else:
        raise ValueError(k)
    return ret


def views_ok(b):
    """'the text seen through every view of the buffer is the same'"""
    t = b.text
    d = b.document
    if d.text != t or d.cursor_position != b.cursor_position:
        return "document view differs from buffer"
    if not (0 <= b.cursor_position <= len(t)):
        return "cursor outside 0..len(text)"
    if d.text_before_cursor + d.text_after_cursor != t:
        return "before+after != text"
    if "\n".join(d.lines) != t:
        return "lines view differs"
    if b._working_lines[b.working_index] != t:
        return "working line differs"
    return None


def impl_case(case):
    from prompt_toolkit.buffer import Buffer
    from prompt_toolkit.document import Document
    text, cur, ops = case
    b = Buffer(document=Document(unS(text), cur))
    out = []
    trace = []   # (text_before, cur_before, op, status, text_after, cur_after, ret, views)
    for op in ops:
        t0, c0 = b.text, b.cursor_position
        status, ret = 0, ""
        try:
            ret = with_watchdog(lambda: impl_step(b, op), 5)
        except AssertionError:
            status = 1
        except IndexError:
            status = 2
        except Hang:
            status = 98
        except Exception as e:  # noqa
            status = 99
        if status != 0:
            ret = ""
        out.append([status, S(b.text), b.cursor_position, S(ret)])
        trace.append((t0, c0, op, status, b.text, b.cursor_position, ret, views_ok(b)))
    return out, trace


# --------------------------------------------------------------------------
# oracle: the theorem statements transcribed for the implementation's results

def oracle_step(t0, c0, op, status, t1, c1, ret, views):
    """Return None or (clause, family)."""
    k = op[0]
    name = OPNAMES[k]
    if views:
        return ("views: " + views, "views")
    before, after = t0[:c0], t0[c0:]
    if k == 1:
        data = unS(op[1])
        if status != 0:
            return ("insert_text raised", "raise")
        if not op[2]:
            if t1 != before + data + after:
                return ("insert: text' != before+data+after", "insert")
        else:
            ks = [j for j in range(0, min(len(data), len(after)) + 1)
                  if "\n" not in after[:j] and t1 == before + data + after[j:]]
            if not ks:
                return ("overwrite: not before+data+after[k:] with k<=len(data) and no newline replaced", "overwrite")
        if c1 != (c0 + len(data) if op[3] else c0):
            return ("insert: cursor", "insert-cursor")
    elif k in (2, 17) and op[1] >= 0:
        n = op[1]
        kk = min(n, c0)
        if status != 0:
            return (name + " raised for count >= 0", "raise")
        if t1 != t0[:c0 - kk] + t0[c0:] or c1 != c0 - kk or (k == 2 and ret != t0[c0 - kk:c0]):
            return ("delete_before_cursor(%d): must remove exactly the min(n, cursor) characters before the cursor and return them" % n,
                    "count>cursor" if n > c0 else "count<=cursor")
    elif k in (3, 18):
        n = op[1]
        kk = min(max(0, n), len(t0) - c0)
        if status != 0:
            return (name + " raised", "raise")
        fam = "count<0" if n < 0 else ("count>available" if n > len(t0) - c0 else "count<=available")
        ok = t1 == t0[:c0] + t0[c0 + kk:] and c1 == c0 and (k != 3 or ret == t0[c0:c0 + kk])
        if not ok and k == 18 and n < 0:
            # the readline reading of a negative argument: delete |n| characters on the other side
            kb = min(-n, c0)
            ok = t1 == t0[:c0 - kb] + t0[c0:] and c1 == c0 - kb
        if not ok:
            return ("delete(%d): must remove exactly the min(n, available) characters next to the cursor and return them "
                    "(nothing for n < 0)" % n, fam)
    elif k == 4:
        if status != 0:
            return ("newline raised", "raise")
        ins = t1[len(before):len(t1) - len(after)] if len(t1) >= len(t0) else None
        if ins is None or t1 != before + ins + after or not ins.startswith("\n") or ins[1:].strip() != "" or "\n" in ins[1:]:
            return ("newline: text' must be before + newline + margin + after", "newline")
        if not op[1] and ins != "\n":
            return ("newline(copy_margin=False) inserted more than a newline", "newline")
        if c1 != c0 + len(ins):
            return ("newline: cursor", "newline")
    elif k in (5, 6):
        if status != 0:
            return (name + " raised", "raise")
        # exactly one new line is added, all original lines are kept in order
        l0, l1 = t0.split("\n"), t1.split("\n")
        row = t0[:c0].count("\n")
        at = row if k == 5 else row + 1
        if len(l1) != len(l0) + 1 or l1[:at] != l0[:at] or l1[at + 1:] != l0[at:] or l1[at].strip() != "":
            return (name + ": must add one blank (margin-only) line and keep every other line", "insert_line")
        if t1[:c1].count("\n") != at:
            return (name + ": cursor not on the new line", "insert_line")
    elif k == 7:
        if status != 0:
            return ("join_next_line raised", "raise")
        sep = unS(op[1])
        eol = c0 + (after.find("\n") if "\n" in after else len(after))
        if "\n" not in after:
            if t1 != t0:
                return ("join on last line changed text", "join")
        elif t1 != t0[:eol] + sep + t0[eol + 1:].lstrip(" "):
            return ("join_next_line: only the line ending and the blanks after it may be replaced by the separator", "join")
    elif k in (8,):
        if status != 0:
            return ("swap raised", "raise")
        exp = t0 if c0 < 2 else t0[:c0 - 2] + t0[c0 - 1] + t0[c0 - 2] + t0[c0:]
        if t1 != exp or c1 != c0:
            return ("swap: only the two characters before the cursor may change", "swap")
    elif k == 20:
        if status != 0:
            return ("transpose-chars raised", "raise")
        if sorted(t1) != sorted(t0) or len([i for i in range(len(t0)) if t0[i] != t1[i]]) > 2:
            return ("transpose-chars: more than two characters changed", "transpose")
    elif k == 22:
        if status != 0:
            return ("case command raised", "raise")
        # each of the `arg` applications replaces a span directly after the cursor by its case image
        # and moves the cursor behind it: so overall text' = before + F(after[:n]) + after[n:] for some n
        # (F applied piecewise gives the same characters for upper/lower; for title we check piecewise below)
        # (the image of a span may be longer than the span: '\xdf'.upper() == 'SS')
        ns = [n for n in range(len(after) + 1)
              if t1[:c0] == before and len(t1) >= c0 + len(after) - n and t1[len(t1) - (len(after) - n):] == after[n:]
              and c1 == len(t1) - (len(after) - n)
              and t1[c0:c1].lower().replace("ss", "\xdf") == after[:n].lower().replace("ss", "\xdf")]
        if not ns:
            return ("case command: text' is not before + case-mapped span + rest of the text (something else changed)", "case-word")
    elif k == 21 and 0 <= op[1] <= len(t0):
        if status != 0:
            return ("join_selected_lines raised", "raise")
        a, e = sorted([c0, op[1]])
        mid = "".join(l.lstrip(" ") + unS(op[2]) for l in t0[a:e].splitlines())
        if t1 != t0[:a] + mid + t0[e:]:
            return ("join_selected_lines: text outside the selection changed, or lines not joined by the separator", "join_selected")
    elif k == 9:
        if status != 0:
            return ("transform_current_line raised", "raise")
        a = before.rfind("\n") + 1
        e = c0 + (after.find("\n") if "\n" in after else len(after))
        if t1 != t0[:a] + apply_F(op[1], t0[a:e]) + t0[e:]:
            return ("transform_current_line: text outside the current line changed", "transform_line")
    elif k == 10 and 0 <= op[1] < op[2] <= len(t0):
        if status != 0:
            return ("transform_region raised", "raise")
        if t1 != t0[:op[1]] + apply_F(op[3], t0[op[1]:op[2]]) + t0[op[2]:]:
            return ("transform_region: text outside the region changed", "transform_region")
    elif k in (11, 12) and 0 <= op[1] <= op[2] and op[3] >= 0:
        if status != 0:
            return (name + " raised", "raise")
        l0, l1 = t0.split("\n"), t1.split("\n")
        a, e = op[1], min(op[2], len(l0))
        if len(l0) != len(l1) or l0[:a] != l1[:a] or l0[e:] != l1[e:]:
            return (name + ": a line outside the addressed rows changed", "indent-frame")
        ic = "    " * op[3]
        for i in range(a, e):
            if k == 11 and l1[i] != ic + l0[i]:
                return ("indent: addressed line is not indent + line", "indent")
            if k == 12 and l1[i] != (l0[i][len(ic):] if l0[i].startswith(ic) else l0[i].lstrip()):
                return ("unindent: addressed line lost non-blank characters", "indent")
    elif k == 19 and op[2] >= 0:
        data = unS(op[1]) * op[2]
        if status != 0 or t1 != before + data + after or c1 != c0 + len(data):
            return ("self-insert: text' != before + data*arg + after", "insert")
    elif k in (15, 16):
        if t1 != t0:
            return ("cursor motion changed text", "motion")
        if "\n" in t0[min(c0, c1):max(c0, c1)]:
            return ("cursor left/right crossed a line ending", "motion")
    elif k == 14:
        if t1 != t0 or c1 != max(0, min(op[1], len(t0))):
            return ("cursor_position setter: not clamped to 0..len(text)", "setter")
    elif k == 13:
        if t1 != unS(op[1]) or c1 != min(c0, len(t1)):
            return ("text setter", "setter")
    return None


# --------------------------------------------------------------------------
# generators

def single_ops(n_text):
    counts = [-2, -1, 0, 1, 2, 3, 5, 7]
    ops = []
    for d in ("", "x", "xy", "\n", "x\ny"):
        for ow in (0, 1):
            for mv in (0, 1):
                ops.append([1, S(d), ow, mv])
    for c in counts:
        ops += [[2, c], [3, c], [15, c], [16, c], [17, c], [18, c], [19, S("z"), c]]
    ops += [[4, 0], [4, 1], [5, 0], [5, 1], [6, 0], [6, 1], [7, S(" ")], [7, S("")], [7, S("--")], [8], [20]]
    for f in (1, 2, 3):
        ops.append([9, f])
    for a in range(-1, n_text + 2):
        for e in range(a, n_text + 2):
            ops.append([10, a, e, 1])
    for a in (-1, 0, 1):
        for e in (0, 1, 2, 9):
            for c in (0, 1, 2):
                ops += [[11, a, e, c], [12, a, e, c]]
    ops += [[13, S("")], [13, S("q\nr")], [14, -3], [14, 0], [14, 2], [14, 99]]
    for o in range(0, n_text + 1):
        ops += [[21, o, S(" ")], [21, o, S("")]]
    for kind in (0, 1, 2):
        for a in (-1, 0, 1, 2, 3):
            ops.append([22, kind, a])
    return ops


def rand_text(rng, maxlen):
    n = rng.choice([0, 1, 2, 3, 5, 8, 13, maxlen])
    parts = []
    for _ in range(n):
        r = rng.random()
        if r < 0.15:
            parts.append("    ")
        parts.append(rng.choice(RAND_ALPHA))
    return "".join(parts)[:maxlen]


def rand_op(rng, tlen):
    k = rng.choice([1, 1, 1, 2, 2, 3, 3, 4, 5, 6, 7, 8, 9, 10, 11, 12, 13, 14, 15, 16, 17, 18, 19, 20, 21, 22, 22])
    if k == 21:
        return [21, rng.randint(0, tlen), S(rng.choice([" ", "", ", "]))]
    if k == 22:
        return [22, rng.randint(0, 2), rng.choice([-1, 0, 1, 1, 2, 5])]
    cnt = lambda: rng.choice([-1, 0, 1, 1, 2, 3, tlen, tlen + 1, 10 ** 6])  # noqa
    if k == 1:
        return [1, S(rand_text(rng, 4)), rng.randint(0, 1), rng.randint(0, 1)]
    if k in (2, 3, 15, 16, 17, 18):
        return [k, cnt()]
    if k in (4, 5, 6):
        return [k, rng.randint(0, 1)]
    if k == 7:
        return [7, S(rng.choice(["", " ", ", "]))]
    if k in (8, 20):
        return [k]
    if k == 9:
        return [9, rng.randint(0, 4)]
    if k == 10:
        a = rng.randint(-2, tlen + 1)
        return [10, a, a + rng.randint(-1, 6), rng.randint(0, 4)]
    if k in (11, 12):
        a = rng.randint(-2, 3)
        return [k, a, a + rng.randint(0, 4), rng.choice([0, 1, 1, 2])]
    if k == 13:
        return [13, S(rand_text(rng, 20))]
    if k == 14:
        return [14, rng.randint(-3, tlen + 3)]
    if k == 19:
        return [19, S(rng.choice(["x", "界", "ab"])), rng.choice([-1, 0, 1, 2, 3])]
    raise AssertionError


def gen_cases(chk):
    rng = chk.rng
    thorough = chk.tier == "thorough"
    maxn = 4 if thorough else 3
    cases = []
    dist = {"exhaustive_single_op": 0, "random_sequence": 0}
    texts = [""]
    for n in range(1, maxn + 1):
        texts += ["".join(t) for t in itertools.product(ALPHA, repeat=n)]
    stratum = 1.0 if thorough else 0.12
    for t in texts:
        ops = single_ops(len(t))
        for cur in range(len(t) + 1):
            for op in ops:
                if stratum >= 1.0 or rng.random() < stratum:
                    cases.append([S(t), cur, [op]])
                    dist["exhaustive_single_op"] += 1
    nseq = 20000 if thorough else 1500
    for _ in range(nseq):
        t = rand_text(rng, 40)
        cur = rng.randint(0, len(t))
        ops = [rand_op(rng, len(t)) for _ in range(rng.randint(1, 30 if thorough else 14))]
        cases.append([S(t), cur, ops])
        dist["random_sequence"] += 1
    return cases, dist


# --------------------------------------------------------------------------

def main(tier):
    chk = Check(PROP, tier)
    pr = chk.proofs("Props/C01.v", tables=TABLES)
    okm, logm = build_model("c01", "Extract/ExC01.v", "run_C01x", tables=TABLES)
    if not okm:
        chk.violation("tie", "model does not build: " + logm[-400:], {"kind": "model-build"}, {"log": logm[-3000:]}, no_input=True)
        return chk.finish()

    cases, dist = gen_cases(chk)
    corpus = load_corpus(PROP)
    cases = corpus + cases
    impl_results = []
    oracle_bad = set()
    opcount = {}
    for i, c in enumerate(cases):
        out, trace = impl_case(c)
        impl_results.append(out)
        nontrivial = any(tr[3] == 0 and (tr[0] != tr[4] or tr[1] != tr[5]) for tr in trace)
        chk.count_case(c, nontrivial)
        for tr in trace:
            opcount[OPNAMES[tr[2][0]]] = opcount.get(OPNAMES[tr[2][0]], 0) + 1
            bad = oracle_step(*tr)
            if bad:
                oracle_bad.add(i)
                clause, fam = bad
                chk.violation("oracle", "%s (text=%r cursor=%d op=%r -> text=%r cursor=%d ret=%r)" % (
                    clause, tr[0], tr[1], tr[2], tr[4], tr[5], tr[6]),
                    {"op": OPNAMES[tr[2][0]], "family": fam},
                    {"text": tr[0], "cursor": tr[1], "op": tr[2], "observed": {"status": tr[3], "text": tr[4], "cursor": tr[5], "ret": tr[6]},
                     "clause": clause, "how": "Buffer(document=Document(text, cursor)); apply op (see harness/c01.py impl_step)"})
                break
        if i % 997 == 0:
            chk.sample({"text": unS(c[0]), "cursor": c[1], "ops": c[2][:4], "impl_result": out[:2]})
    chk.coverage["input_distribution"] = dict(dist, corpus=len(corpus), ops=opcount)

    def tagger(c, a, m):
        # first diverging step
        for j, (x, y) in enumerate(zip(a, m if isinstance(m, list) else [])):
            if x != y:
                return {"op": OPNAMES.get(c[2][j][0], "?"), "step": j}
        return {"op": "?"}

    model_results, nbad = correspondence(
        chk, "c01", cases, impl_results, tagger,
        describe=lambda c, a, m: "text=%r cursor=%d ops=%r impl=%r model=%r" % (unS(c[0]), c[1], c[2][:3], a[:3], m[:3] if isinstance(m, list) else m),
        oracle_failed=lambda i: i in oracle_bad)

    # extraction/driver cross-check inside Coq on a sample
    k = 1200 if chk.tier == "thorough" else 300
    idx = sorted(chk.rng.sample(range(len(cases)), min(k, len(cases))))
    pairs = [(cases[i], impl_results[i]) for i in idx]
    bad, logs = vm_crosscheck(PROP, "run_C01x", "Model.BufferEdit Model.C01_CaseWord", pairs)
    chk.coverage["vm_compute_crosschecked"] = len(pairs)
    model_bad = set(i for i, (a, m) in enumerate(zip(impl_results, model_results)) if sx_norm(a) != m)
    vm_bad = set(idx[b] for b in bad if isinstance(b, int))
    if any(not isinstance(b, int) for b in bad):
        chk.violation("tie", "vm_compute cross-check failed to run: " + (logs[0] if logs else ""), {"kind": "vm"}, {"log": logs}, no_input=True)
    if vm_bad != (model_bad & set(idx)):
        chk.violation("tie", "extracted model and in-Coq evaluation disagree on cases %r" % sorted(vm_bad ^ (model_bad & set(idx)))[:5],
                      {"kind": "extraction"}, {"cases": [cases[i] for i in sorted(vm_bad ^ (model_bad & set(idx)))[:5]]}, no_input=True)

    proof_gate(chk, pr)
    chk.coverage["rule"] = ("cases = (text, cursor, operation sequence) run on a real Buffer and on the Coq model; "
                            "exhaustive single operations over all texts of length <= %d over %r x all cursors (stratum %s) "
                            "plus random sequences; non-trivial = some operation succeeded and changed text or cursor; "
                            "distinct by hash of the whole case" % (4 if chk.tier == "thorough" else 3, ALPHA, "100%" if chk.tier == "thorough" else "12%"))
    chk.assumptions += ["case transforms are an arbitrary function F in the theorems; the harness instantiates F with 5 concrete callbacks",
                        "events, read-only filter and async triggers of Buffer are outside the model",
                        "CPython str slicing/find/split/lstrip are re-implemented in coq/Lib/Py.v and tied by this correspondence only"]
    return chk.finish()


def replay(data):
    rep = data["replay"]
    if "case" in rep:
        case = rep["case"]
    else:
        case = [S(rep["text"]), rep["cursor"], [rep["op"]]]
    out, trace = impl_case(case)
    rc = 0
    for tr in trace:
        bad = oracle_step(*tr)
        print("text=%r cursor=%d op=%s%r -> status=%d text=%r cursor=%d ret=%r  %s" % (
            tr[0], tr[1], OPNAMES[tr[2][0]], tr[2][1:], tr[3], tr[4], tr[5], tr[6], "ORACLE FAILS: " + bad[0] if bad else "oracle ok"))
        if bad:
            rc = 1
    m = run_model("c01", [case])[0]
    print("model agrees" if m == sx_norm(out) else "model differs: %r" % (m,))
    return rc
