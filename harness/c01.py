"""C01 - basic buffer edits.  Model: coq/Model/BufferEdit.v; theorems: coq/Props/C01.v."""
import itertools
import types

from common import *  # noqa

PROP = "C01"
TABLES = ["Whitespace", "C02_Patterns", "C01_CaseMap"]
MODELS = [("c01", "Extract/ExC01.v", "run_C01all")]
ALPHA = ["a", "B", " ", "\n", "界"]
RAND_ALPHA = ["a", "b", "C", " ", " ", "\n", "\n", "\t", "\r", "界", "é"[1], "\U0001F600", "(", "x", "\xdf",
              "\u03a3", "\u0391", "\u0130", "\u01c5", "\u0149", "\u02b0", "\ufb01", "'"]

OPNAMES = {1: "insert_text", 2: "delete_before_cursor", 3: "delete", 4: "newline", 5: "insert_line_above",
           6: "insert_line_below", 7: "join_next_line", 8: "swap_characters_before_cursor",
           9: "transform_current_line", 10: "transform_region", 11: "indent", 12: "unindent",
           13: "set_text", 14: "set_cursor_position", 15: "cursor_left", 16: "cursor_right",
           17: "backward-delete-char", 18: "delete-char", 19: "self-insert", 20: "transpose-chars",
           21: "join_selected_lines", 22: "case-word", 23: "go_to_history", 24: "reshape_text"}
CASE_CMDS = ["uppercase-word", "downcase-word", "capitalize-word"]


def case_F(kind, s):
    return s.upper() if kind == 0 else s.lower() if kind == 1 else s.title()


def apply_F(code, s):
    if code == 1:
        return s[::-1]
    if code == 2:
        return s + "!"
    if code == 3:
        return ""
    if code == 4:
        return "".join(chr(ord(c) - 32) if "a" <= c <= "z" else c for c in s)
    return s


# --------------------------------------------------------------------------
# implementation runner

class Ctx:
    """A real Application whose focused control shows the buffer, so that the named commands are called the way
    KeyProcessor calls them: Binding.call(KeyPressEvent(...)) with the typed count as the string the processor
    collects ("-" alone is -1, None is 'no count'), a KeyPress carrying the data, and is_repeat."""

    _app = []   # one Application (loading the default key bindings takes ~15 ms); each buffer gets its own Layout

    def __init__(self, b):
        self.b = b
        self.app = None
        self.step = 0
        self.last = None

    def attach(self):
        from prompt_toolkit.application import Application
        from prompt_toolkit.input import DummyInput
        from prompt_toolkit.layout import Layout
        from prompt_toolkit.layout.containers import Window
        from prompt_toolkit.layout.controls import BufferControl
        from prompt_toolkit.output import DummyOutput
        layout = Layout(Window(BufferControl(buffer=self.b)))
        if not Ctx._app:
            Ctx._app.append(Application(layout=layout, input=DummyInput(), output=DummyOutput()))
        self.app = Ctx._app[0]
        self.app.layout = layout

    def fire(self, name, n=1, data=""):
        import weakref
        from prompt_toolkit.application.current import set_app
        from prompt_toolkit.key_binding.bindings.named_commands import get_by_name
        from prompt_toolkit.key_binding.key_processor import KeyPress, KeyPressEvent
        from prompt_toolkit.keys import Keys
        odd = self.step % 2 == 1
        if n == -1 and not odd:
            arg = "-"
        elif n == 1 and not odd:
            arg = None
        else:
            arg = str(n)
        if self.app is None or self.app.current_buffer is not self.b:
            self.attach()
        with set_app(self.app):
            assert self.app.current_buffer is self.b
            ev = KeyPressEvent(weakref.ref(self.app.key_processor), arg=arg,
                               key_sequence=[KeyPress(Keys.Any if data else Keys.ControlT, data)],
                               previous_key_sequence=[], is_repeat=(self.last == name and odd))
            self.last = name
            get_by_name(name).call(ev)


def event_arg(n):
    """KeyPressEvent.arg as the model has it (Model/C01_CaseWord.v event_arg): a count of a million or more is 1."""
    return 1 if n >= 1000000 else n


def impl_step(b, op, ctx):
    from prompt_toolkit.buffer import indent, unindent
    k = op[0]
    ret = ""
    if k == 1:
        b.insert_text(unS(op[1]), overwrite=bool(op[2]), move_cursor=bool(op[3]))
    elif k == 2:
        ret = b.delete_before_cursor(op[1])
    elif k == 3:
        ret = b.delete(op[1])
    elif k == 4:
        b.newline(copy_margin=bool(op[1]))
    elif k == 5:
        b.insert_line_above(copy_margin=bool(op[1]))
    elif k == 6:
        b.insert_line_below(copy_margin=bool(op[1]))
    elif k == 7:
        b.join_next_line(separator=unS(op[1]))
    elif k == 8:
        b.swap_characters_before_cursor()
    elif k == 9:
        b.transform_current_line(lambda s: apply_F(op[1], s))
    elif k == 10:
        b.transform_region(op[1], op[2], lambda s: apply_F(op[3], s))
    elif k == 11:
        indent(b, op[1], op[2], op[3])
    elif k == 12:
        unindent(b, op[1], op[2], op[3])
    elif k == 13:
        b.text = unS(op[1])
    elif k == 14:
        b.cursor_position = op[1]
    elif k == 15:
        b.cursor_left(op[1])
    elif k == 16:
        b.cursor_right(op[1])
    elif k == 17:
        ctx.fire("backward-delete-char", op[1])
    elif k == 18:
        ctx.fire("delete-char", op[1])
    elif k == 19:
        ctx.fire("self-insert", op[2], unS(op[1]))
    elif k == 20:
        ctx.fire("transpose-chars")
    elif k == 22:
        ctx.fire(CASE_CMDS[op[1]], op[2])
    elif k == 21:
        from prompt_toolkit.selection import SelectionState
        b.selection_state = SelectionState(original_cursor_position=op[1])
        try:
            b.join_selected_lines(separator=unS(op[2]))
        finally:
            b.selection_state = None
    elif k == 23:
        b.go_to_history(op[1])
    elif k == 24:
        from prompt_toolkit.buffer import reshape_text
        b.text_width = op[3]
        reshape_text(b, op[1], op[2])
    else:
        raise ValueError(k)
    return ret


def views_ok(b):
    """'the text seen through every view of the buffer is the same'"""
    t = b.text
    d = b.document
    if d.text != t or d.cursor_position != b.cursor_position:
        return "document view differs from buffer"
    if not (0 <= b.cursor_position <= len(t)):
        return "cursor outside 0..len(text)"
    if d.text_before_cursor + d.text_after_cursor != t:
        return "before+after != text"
    if "\n".join(d.lines) != t:
        return "lines view differs"
    if b._working_lines[b.working_index] != t:
        return "working line differs"
    return None


def impl_case(case):
    from prompt_toolkit.buffer import Buffer
    from prompt_toolkit.document import Document
    text, cur, ops = case
    b = Buffer(document=Document(unS(text), cur))
    ctx = Ctx(b)
    out = []
    trace = []   # (text_before, cur_before, op, status, text_after, cur_after, ret, views)
    for j, op in enumerate(ops):
        t0, c0 = b.text, b.cursor_position
        status, ret = 0, ""
        ctx.step = j
        try:
            ret = with_watchdog(lambda: impl_step(b, op, ctx), 5)
        except AssertionError:
            status = 1
        except IndexError:
            status = 2
        except Hang:
            status = 98
        except Exception as e:  # noqa
            status = 99
        if status != 0:
            ret = ""
        out.append([status, S(b.text), b.cursor_position, S(ret)])
        trace.append((t0, c0, op, status, b.text, b.cursor_position, ret, views_ok(b)))
    return out, trace


# --------------------------------------------------------------------------
# oracle: the theorem statements transcribed for the implementation's results

def margin_of(t0, c0):
    """the leading blanks of the line the cursor is on (lines are separated by "\\n" only)"""
    line = t0.split("\n")[t0[:c0].count("\n")]
    return line[:len(line) - len(line.lstrip())]


def oracle_step(t0, c0, op, status, t1, c1, ret, views):
    """Return None or (clause, family)."""
    k = op[0]
    name = OPNAMES[k]
    if views:
        return ("views: " + views, "views")
    before, after = t0[:c0], t0[c0:]
    if k == 1:
        data = unS(op[1])
        if status != 0:
            return ("insert_text raised", "raise")
        if not op[2]:
            if t1 != before + data + after:
                return ("insert: text' != before+data+after", "insert")
        else:
            ks = [j for j in range(0, min(len(data), len(after)) + 1)
                  if "\n" not in after[:j] and t1 == before + data + after[j:]]
            if not ks:
                return ("overwrite: not before+data+after[k:] with k<=len(data) and no newline replaced", "overwrite")
        if c1 != (c0 + len(data) if op[3] else c0):
            return ("insert: cursor", "insert-cursor")
    elif k in (2, 17) and op[1] >= 0:
        n = op[1] if k == 2 else event_arg(op[1])
        kk = min(n, c0)
        if status != 0:
            return (name + " raised for count >= 0", "raise")
        if t1 != t0[:c0 - kk] + t0[c0:] or c1 != c0 - kk or (k == 2 and ret != t0[c0 - kk:c0]):
            return ("delete_before_cursor(%d): must remove exactly the min(n, cursor) characters before the cursor and return them" % n,
                    "count>cursor" if n > c0 else "count<=cursor")
    elif k in (3, 18):
        n = op[1] if k == 3 else event_arg(op[1])
        kk = min(max(0, n), len(t0) - c0)
        if status != 0:
            return (name + " raised", "raise")
        fam = "count<0" if n < 0 else ("count>available" if n > len(t0) - c0 else "count<=available")
        ok = t1 == t0[:c0] + t0[c0 + kk:] and c1 == c0 and (k != 3 or ret == t0[c0:c0 + kk])
        if not ok and k == 18 and n < 0:
            # the readline reading of a negative argument: delete |n| characters on the other side
            kb = min(-n, c0)
            ok = t1 == t0[:c0 - kb] + t0[c0:] and c1 == c0 - kb
        if not ok:
            return ("delete(%d): must remove exactly the min(n, available) characters next to the cursor and return them "
                    "(nothing for n < 0)" % n, fam)
    elif k == 4:
        if status != 0:
            return ("newline raised", "raise")
        ins = t1[len(before):len(t1) - len(after)] if len(t1) >= len(t0) else None
        if ins is None or t1 != before + ins + after or not ins.startswith("\n") or ins[1:].strip() != "" or "\n" in ins[1:]:
            return ("newline: text' must be before + newline + margin + after", "newline")
        if not op[1] and ins != "\n":
            return ("newline(copy_margin=False) inserted more than a newline", "newline")
        if op[1] and ins != "\n" + margin_of(t0, c0):
            return ("newline(copy_margin=True): the margin must be exactly the leading blanks of the current line "
                    "(the whole line when it is all blanks)", "margin")
        if c1 != c0 + len(ins):
            return ("newline: cursor", "newline")
    elif k in (5, 6):
        if status != 0:
            return (name + " raised", "raise")
        # exactly one new line is added, all original lines are kept in order
        l0, l1 = t0.split("\n"), t1.split("\n")
        row = t0[:c0].count("\n")
        at = row if k == 5 else row + 1
        if len(l1) != len(l0) + 1 or l1[:at] != l0[:at] or l1[at + 1:] != l0[at:] or l1[at].strip() != "":
            return (name + ": must add one blank (margin-only) line and keep every other line", "insert_line")
        if l1[at] != (margin_of(t0, c0) if op[1] else ""):
            return (name + ": the new line must hold exactly the leading blanks of the current line (the whole line when "
                    "it is all blanks; nothing without copy_margin)", "margin")
        if t1[:c1].count("\n") != at:
            return (name + ": cursor not on the new line", "insert_line")
    elif k == 7:
        if status != 0:
            return ("join_next_line raised", "raise")
        sep = unS(op[1])
        eol = c0 + (after.find("\n") if "\n" in after else len(after))
        if "\n" not in after:
            if t1 != t0:
                return ("join on last line changed text", "join")
        elif t1 != t0[:eol] + sep + t0[eol + 1:].lstrip(" "):
            return ("join_next_line: only the line ending and the blanks after it may be replaced by the separator", "join")
    elif k in (8,):
        if status != 0:
            return ("swap raised", "raise")
        exp = t0 if c0 < 2 else t0[:c0 - 2] + t0[c0 - 1] + t0[c0 - 2] + t0[c0:]
        if t1 != exp or c1 != c0:
            return ("swap: only the two characters before the cursor may change", "swap")
    elif k == 20:
        if status != 0:
            return ("transpose-chars raised", "raise")
        p = c0
        if p == 0:
            exp = (t0, 0)
        elif p == len(t0) or t0[p] == "\n":
            exp = (t0, p) if p < 2 else (t0[:p - 2] + t0[p - 1] + t0[p - 2] + t0[p:], p)
        else:
            exp = (t0[:p - 1] + t0[p] + t0[p - 1] + t0[p + 1:], p + 1)
        if t1 != exp[0]:
            return ("transpose-chars: must exchange the two characters around the cursor (at the end of the text or of a "
                    "line: the two before the cursor) and change nothing else", "transpose")
    elif k == 22:
        if status != 0:
            return ("case command raised", "raise")
        # each of the `arg` applications replaces a span directly after the cursor by its image under F
        # (str.upper / lower / title) and moves the cursor behind it: text' = before + X + after[n:] where X is the
        # concatenation of the images of at most `arg` consecutive pieces of after[:n]; the image of a piece may be
        # longer or shorter than the piece ('\xdf'.upper() == 'SS') and depends on the piece only
        F = lambda x: case_F(op[1], x)  # noqa
        rounds = max(0, event_arg(op[2]))
        ok = False
        if t1[:c0] == before and c0 <= c1 <= len(t1):
            X = t1[c0:c1]
            for n in range(len(after) + 1):
                if t1[c1:] != after[n:]:
                    continue
                reach = {(0, 0)}
                for _ in range(rounds):
                    if (n, len(X)) in reach:
                        break
                    nxt = set(reach)
                    for (i, xp) in reach:
                        for j in range(i + 1, n + 1):
                            img = F(after[i:j])
                            if X.startswith(img, xp):
                                nxt.add((j, xp + len(img)))
                    if nxt == reach:
                        break
                    reach = nxt
                if (n, len(X)) in reach:
                    ok = True
                    break
        if not ok:
            return ("case command: text' is not before + case-mapped span + rest of the text (something else changed)", "case-word")
    elif k == 21 and 0 <= op[1] <= len(t0):
        if status != 0:
            return ("join_selected_lines raised", "raise")
        a, e = sorted([c0, op[1]])
        mid = "".join(l.lstrip(" ") + unS(op[2]) for l in t0[a:e].splitlines())
        if t1 != t0[:a] + mid + t0[e:]:
            return ("join_selected_lines: text outside the selection changed, or lines not joined by the separator", "join_selected")
    elif k == 9:
        if status != 0:
            return ("transform_current_line raised", "raise")
        a = before.rfind("\n") + 1
        e = c0 + (after.find("\n") if "\n" in after else len(after))
        if t1 != t0[:a] + apply_F(op[1], t0[a:e]) + t0[e:]:
            return ("transform_current_line: text outside the current line changed", "transform_line")
    elif k == 10 and 0 <= op[1] < op[2] <= len(t0):
        if status != 0:
            return ("transform_region raised", "raise")
        if t1 != t0[:op[1]] + apply_F(op[3], t0[op[1]:op[2]]) + t0[op[2]:]:
            return ("transform_region: text outside the region changed", "transform_region")
    elif k in (11, 12) and 0 <= op[1] <= op[2] and op[3] >= 0:
        if status != 0:
            return (name + " raised", "raise")
        l0, l1 = t0.split("\n"), t1.split("\n")
        a, e = op[1], min(op[2], len(l0))
        if len(l0) != len(l1) or l0[:a] != l1[:a] or l0[e:] != l1[e:]:
            return (name + ": a line outside the addressed rows changed", "indent-frame")
        ic = "    " * op[3]
        for i in range(a, e):
            if k == 11 and l1[i] != ic + l0[i]:
                return ("indent: addressed line is not indent + line", "indent")
            if k == 12 and l1[i] != (l0[i][len(ic):] if l0[i].startswith(ic) else l0[i].lstrip()):
                return ("unindent: addressed line lost non-blank characters", "indent")
    elif k == 19 and op[2] >= 0:
        data = unS(op[1]) * event_arg(op[2])
        if status != 0 or t1 != before + data + after or c1 != c0 + len(data):
            return ("self-insert: text' != before + data*arg + after", "insert")
    elif k == 24 and 0 <= op[1] <= op[2]:
        if status != 0:
            return ("reshape_text raised", "raise")
        ls = t0.splitlines(True)
        pre, mid, post = "".join(ls[:op[1]]), "".join(ls[op[1]:op[2] + 1]), "".join(ls[op[2] + 1:])
        if not mid:
            if t1 != t0:
                return ("reshape_text of no line changed the text", "reshape-frame")
        else:
            if not (t1.startswith(pre) and t1.endswith(post) and len(t1) >= len(pre) + len(post)):
                return ("reshape_text: a line outside the addressed rows changed", "reshape-frame")
            new = t1[len(pre):len(t1) - len(post)]
            if new.split() != mid.split():
                return ("reshape_text: the words of the addressed rows changed (only blanks between them may)", "reshape-words")
    elif k in (15, 16):
        if t1 != t0:
            return ("cursor motion changed text", "motion")
        if "\n" in t0[min(c0, c1):max(c0, c1)]:
            return ("cursor left/right crossed a line ending", "motion")
    elif k == 14:
        if t1 != t0 or c1 != max(0, min(op[1], len(t0))):
            return ("cursor_position setter: not clamped to 0..len(text)", "setter")
    elif k == 13:
        if t1 != unS(op[1]) or c1 != min(c0, len(t1)):
            return ("text setter", "setter")
    return None


# --------------------------------------------------------------------------
# generators

def single_ops(n_text):
    counts = [-2, -1, 0, 1, 2, 3, 5, 7]
    ops = []
    for d in ("", "x", "xy", "\n", "x\ny"):
        for ow in (0, 1):
            for mv in (0, 1):
                ops.append([1, S(d), ow, mv])
    for c in counts:
        ops += [[2, c], [3, c], [15, c], [16, c], [17, c], [18, c], [19, S("z"), c]]
    ops += [[4, 0], [4, 1], [5, 0], [5, 1], [6, 0], [6, 1], [7, S(" ")], [7, S("")], [7, S("--")], [8], [20]]
    for f in (1, 2, 3):
        ops.append([9, f])
    for a in range(-1, n_text + 2):
        for e in range(a, n_text + 2):
            ops.append([10, a, e, 1])
    for a in (-1, 0, 1):
        for e in (0, 1, 2, 9):
            for c in (0, 1, 2):
                ops += [[11, a, e, c], [12, a, e, c]]
    ops += [[13, S("")], [13, S("q\nr")], [14, -3], [14, 0], [14, 2], [14, 99]]
    for o in range(0, n_text + 1):
        ops += [[21, o, S(" ")], [21, o, S("")]]
    for kind in (0, 1, 2):
        for a in (-1, 0, 1, 2, 3):
            ops.append([22, kind, a])
    for a in (-1, 0, 1, 2):
        for e in (-1, 0, 1, 3):
            for tw in (0, 2, 3):
                ops.append([24, a, e, tw])
    return ops


_CT = []


def case_table_chars():
    if not _CT:
        _CT.extend(chr(c) for c in range(0x110000)
                   if not 0xD800 <= c < 0xE000 and any(f(chr(c)) != chr(c) for f in (str.upper, str.lower, str.title)))
        _CT.extend(["\u0345", "\u02b0", "\u00ad", "\u0301", "\u2019", "\u00aa"])
        assert 2500 < len(_CT) < 4100
    return _CT


def rand_text(rng, maxlen):
    n = rng.choice([0, 1, 2, 3, 5, 8, 13, maxlen])
    parts = []
    for _ in range(n):
        r = rng.random()
        if r < 0.15:
            parts.append("    ")
        parts.append(rng.choice(RAND_ALPHA))
    return "".join(parts)[:maxlen]


def rand_op(rng, tlen):
    k = rng.choice([1, 1, 1, 2, 2, 3, 3, 4, 5, 6, 7, 8, 9, 10, 11, 12, 13, 14, 15, 16, 17, 18, 19, 20, 21, 22, 22, 24])
    if k == 24:
        a = rng.randint(-1, 3)
        return [24, a, a + rng.randint(-1, 3), rng.choice([0, 0, 1, 4, 7, 12, -3])]
    if k == 21:
        return [21, rng.randint(0, tlen), S(rng.choice([" ", "", ", "]))]
    if k == 22:
        return [22, rng.randint(0, 2), rng.choice([-1, 0, 1, 1, 2, 5])]
    cnt = lambda: rng.choice([-1, 0, 1, 1, 2, 3, tlen, tlen + 1, 10 ** 6])  # noqa
    if k == 1:
        return [1, S(rand_text(rng, 4)), rng.randint(0, 1), rng.randint(0, 1)]
    if k in (2, 3, 15, 16, 17, 18):
        return [k, cnt()]
    if k in (4, 5, 6):
        return [k, rng.randint(0, 1)]
    if k == 7:
        return [7, S(rng.choice(["", " ", ", "]))]
    if k in (8, 20):
        return [k]
    if k == 9:
        return [9, rng.randint(0, 4)]
    if k == 10:
        a = rng.randint(-2, tlen + 1)
        return [10, a, a + rng.randint(-1, 6), rng.randint(0, 4)]
    if k in (11, 12):
        a = rng.randint(-2, 3)
        return [k, a, a + rng.randint(0, 4), rng.choice([0, 1, 1, 2])]
    if k == 13:
        return [13, S(rand_text(rng, 20))]
    if k == 14:
        return [14, rng.randint(-3, tlen + 3)]
    if k == 19:
        return [19, S(rng.choice(["x", "界", "ab"])), rng.choice([-1, 0, 1, 2, 3])]
    raise AssertionError


def gen_cases(chk):
    rng = chk.rng
    thorough = chk.tier == "thorough"
    maxn = 4 if thorough else 3
    cases = []
    dist = {"exhaustive_single_op": 0, "random_sequence": 0}
    texts = [""]
    for n in range(1, maxn + 1):
        texts += ["".join(t) for t in itertools.product(ALPHA, repeat=n)]
    stratum = 1.0 if thorough else 0.12
    for t in texts:
        ops = single_ops(len(t))
        for cur in range(len(t) + 1):
            for op in ops:
                if stratum >= 1.0 or rng.random() < stratum:
                    cases.append([S(t), cur, [op]])
                    dist["exhaustive_single_op"] += 1
    # the case commands over every code point whose upper / lower / title image is not itself (the table
    # Gen/C01_CaseMap.v is regenerated from the same CPython), alone and in a final-sigma context
    dist["case_table_exhaustive"] = 0
    cstratum = 1.0 if thorough else 0.06
    for ch in case_table_chars():
        for t, arg in ((ch, 1), ("\u0391" + ch + "\u03a3", 3), (ch + "\u03a3" + ch + "'", 3)):
            for kind in (0, 1, 2):
                if cstratum >= 1.0 or rng.random() < cstratum:
                    cases.append([S(t), 0, [[22, kind, arg]]])
                    dist["case_table_exhaustive"] += 1
    nseq = 20000 if thorough else 1500
    for _ in range(nseq):
        t = rand_text(rng, 40)
        cur = rng.randint(0, len(t))
        ops = [rand_op(rng, len(t)) for _ in range(rng.randint(1, 30 if thorough else 14))]
        cases.append([S(t), cur, ops])
        dist["random_sequence"] += 1
    return cases, dist



# --------------------------------------------------------------------------
# the stored state: working lines + index + cursor + the caches behind Buffer.document (Model/C01_Views.v)

_LOOP = []


def make_wbuffer(lines, idx, cur):
    """A real Buffer whose working lines are `lines`: the older entries come from a history that is loaded the way
    BufferControl does it (load_history_if_not_yet_loaded inside a running loop); the entry is reached with
    go_to_history."""
    import asyncio
    from prompt_toolkit.buffer import Buffer
    from prompt_toolkit.document import Document
    from prompt_toolkit.history import InMemoryHistory
    if not _LOOP:
        _LOOP.append(asyncio.new_event_loop())
    loop = _LOOP[0]

    async def mk():
        b = Buffer(history=InMemoryHistory(lines[:-1]), document=Document(lines[-1], 0))
        b.load_history_if_not_yet_loaded()
        await b._load_history_task
        return b
    b = loop.run_until_complete(mk())
    assert list(b._working_lines) == lines and b.working_index == len(lines) - 1
    b.go_to_history(idx)
    b.cursor_position = cur
    assert b.working_index == idx and b.cursor_position == cur and len(b._document_cache) == 0
    return b


def cache_ok(b):
    """every entry of the two caches behind Buffer.document shows the text it is filed under"""
    from prompt_toolkit.document import _text_to_document_cache
    dc = b._document_cache
    if list(dc._keys) != list(dc.keys()) or len(dc) > dc.size + 1:
        return "document cache: key deque and dict differ, or more than size+1 entries"
    for (t, c, sel), d in dc.items():
        if d.text != t or d.cursor_position != c or d.selection is not sel:
            return "document cache entry %r holds Document(%r, %r)" % ((t, c), d.text, d.cursor_position)
    for t, dcache in list(_text_to_document_cache.items()):
        if dcache.lines is not None and list(dcache.lines) != t.split("\n"):
            return "line cache of %r holds %r" % (t, list(dcache.lines))
        if dcache.line_indexes is not None:
            exp, pos = [], 0
            for l in t.split("\n"):
                exp.append(pos)
                pos += len(l) + 1
            if list(dcache.line_indexes) != exp:
                return "line-start cache of %r holds %r" % (t, dcache.line_indexes)
    return None


def impl_wcase(case):
    lines, idx, cur, ops = case
    lines = [unS(l) for l in lines]
    b = with_watchdog(lambda: make_wbuffer(lines, idx, cur), 10)
    ctx = Ctx(b)
    out, trace = [], []
    for j, op in enumerate(ops):
        l0, i0 = list(b._working_lines), b.working_index
        t0, c0 = b.text, b.cursor_position
        status, ret = 0, ""
        ctx.step = j
        try:
            ret = with_watchdog(lambda: impl_step(b, op, ctx), 5)
        except AssertionError:
            status = 1
        except IndexError:
            status = 2
        except Hang:
            status = 98
        except Exception as e:  # noqa
            status = 99
        if status != 0:
            ret = ""
        d = b.document                      # the observation the model calls w_observe
        dl = list(d.lines)
        l1, i1 = list(b._working_lines), b.working_index
        keys = [[S(k[0]), k[1]] for k in b._document_cache._keys]
        out.append([status, [S(l) for l in l1], i1, b.cursor_position, S(ret or ""), keys,
                    [S(d.text), d.cursor_position, [S(l) for l in dl], list(d._line_start_indexes)]])
        bad = views_ok(b) or cache_ok(b)
        if not bad and op[0] != 23:
            if i1 != i0 or len(l1) != len(l0) or any(l1[j2] != l0[j2] for j2 in range(len(l0)) if j2 != i0):
                bad = "an edit changed a working line other than the current one (or the working index)"
        if not bad and op[0] == 23:
            if l1 != l0 or (i1 != (op[1] if 0 <= op[1] < len(l0) else i0)):
                bad = "go_to_history changed a working line or went to the wrong entry"
        trace.append((t0, c0, op, status, b.text, b.cursor_position, ret or "", bad))
    return out, trace


def gen_wcases(chk):
    rng = chk.rng
    thorough = chk.tier == "thorough"
    cases = []
    dist = {"stored_single_op": 0, "stored_random_sequence": 0}
    texts = [""] + ["".join(t) for n in (1, 2) for t in itertools.product(ALPHA, repeat=n)]
    stratum = 0.5 if thorough else 0.06
    for t in texts:
        ops = single_ops(len(t)) + [[23, i] for i in (-1, 0, 1, 2)]
        for cur in range(len(t) + 1):
            for op in ops:
                if rng.random() < stratum:
                    other = rng.choice(["", "q", "old\nline"])
                    lines, idx = ([other, t], 1) if rng.random() < 0.5 else ([t, other], 0)
                    cases.append([[S(x) for x in lines], idx, cur, [op]])
                    dist["stored_single_op"] += 1
    nseq = 6000 if thorough else 500
    for _ in range(nseq):
        n = rng.choice([1, 2, 2, 3, 4])
        lines = [rand_text(rng, 12) for _ in range(n)]
        idx = rng.randrange(n)
        cur = rng.randint(0, len(lines[idx]))
        ops = []
        for _ in range(rng.randint(1, 40 if thorough else 20)):
            if rng.random() < 0.12:
                ops.append([23, rng.randint(-1, n)])
            else:
                ops.append(rand_op(rng, len(lines[idx])))
        cases.append([[S(x) for x in lines], idx, cur, ops])
        dist["stored_random_sequence"] += 1
    return cases, dist

# --------------------------------------------------------------------------

def main(tier):
    chk = Check(PROP, tier)
    pr = chk.proofs("Props/C01.v", tables=TABLES)
    okm, logm = build_model("c01", "Extract/ExC01.v", "run_C01all", tables=TABLES)
    if not okm:
        chk.violation("tie", "model does not build: " + logm[-400:], {"kind": "model-build"}, {"log": logm[-3000:]}, no_input=True)
        return chk.finish()

    cases, dist = gen_cases(chk)
    wcases, wdist = gen_wcases(chk)
    dist.update(wdist)
    corpus = load_corpus(PROP)
    cases = corpus + cases + wcases
    impl_results = []
    oracle_bad = set()
    opcount = {}
    for i, c in enumerate(cases):
        out, trace = impl_wcase(c) if len(c) == 4 else impl_case(c)
        impl_results.append(out)
        nontrivial = any(tr[3] == 0 and (tr[0] != tr[4] or tr[1] != tr[5]) for tr in trace)
        chk.count_case(c, nontrivial)
        for tr in trace:
            opcount[OPNAMES[tr[2][0]]] = opcount.get(OPNAMES[tr[2][0]], 0) + 1
            bad = oracle_step(*tr)
            if bad:
                oracle_bad.add(i)
                clause, fam = bad
                chk.violation("oracle", "%s (text=%r cursor=%d op=%r -> text=%r cursor=%d ret=%r)" % (
                    clause, tr[0], tr[1], tr[2], tr[4], tr[5], tr[6]),
                    {"op": OPNAMES[tr[2][0]], "family": fam},
                    {**({"case": c} if len(c) == 4 else {}), "text": tr[0], "cursor": tr[1], "op": tr[2], "observed": {"status": tr[3], "text": tr[4], "cursor": tr[5], "ret": tr[6]},
                     "clause": clause, "how": "Buffer(document=Document(text, cursor)); apply op (see harness/c01.py impl_step)"})
                break
        if i % 997 == 0:
            chk.sample({"case": c[:-1], "ops": c[-1][:4], "impl_result": out[:2]})
    chk.coverage["input_distribution"] = dict(dist, corpus=len(corpus), ops=opcount)

    def tagger(c, a, m):
        # first diverging step
        for j, (x, y) in enumerate(zip(a, m if isinstance(m, list) else [])):
            if x != y:
                return {"op": OPNAMES.get(c[-1][j][0], "?"), "step": j, "state": "stored" if len(c) == 4 else "text"}
        return {"op": "?"}

    model_results, nbad = correspondence(
        chk, "c01", cases, impl_results, tagger,
        describe=lambda c, a, m: "case=%r ops=%r impl=%r model=%r" % (c[:-1], c[-1][:3], a[:3], m[:3] if isinstance(m, list) else m),
        oracle_failed=lambda i: i in oracle_bad)

    # extraction/driver cross-check inside Coq on a sample
    k = 1200 if chk.tier == "thorough" else 300
    idx = sorted(chk.rng.sample(range(len(cases)), min(k, len(cases))))
    pairs = [(cases[i], impl_results[i]) for i in idx]
    bad, logs = vm_crosscheck(PROP, "run_C01all", "Model.BufferEdit Model.C01_CaseWord Model.C01_Views", pairs)
    chk.coverage["vm_compute_crosschecked"] = len(pairs)
    model_bad = set(i for i, (a, m) in enumerate(zip(impl_results, model_results)) if sx_norm(a) != m)
    vm_bad = set(idx[b] for b in bad if isinstance(b, int))
    if any(not isinstance(b, int) for b in bad):
        chk.violation("tie", "vm_compute cross-check failed to run: " + (logs[0] if logs else ""), {"kind": "vm"}, {"log": logs}, no_input=True)
    if vm_bad != (model_bad & set(idx)):
        chk.violation("tie", "extracted model and in-Coq evaluation disagree on cases %r" % sorted(vm_bad ^ (model_bad & set(idx)))[:5],
                      {"kind": "extraction"}, {"cases": [cases[i] for i in sorted(vm_bad ^ (model_bad & set(idx)))[:5]]}, no_input=True)

    proof_gate(chk, pr)
    chk.coverage["rule"] = ("cases = (text, cursor, operation sequence) run on a real Buffer and on the Coq model; "
                            "exhaustive single operations over all texts of length <= %d over %r x all cursors (stratum %s) "
                            "plus random sequences; non-trivial = some operation succeeded and changed text or cursor; "
                            "distinct by hash of the whole case" % (4 if chk.tier == "thorough" else 3, ALPHA, "100%" if chk.tier == "thorough" else "12%"))
    chk.assumptions += ["case transforms are an arbitrary function F in the theorems; the harness instantiates F with 5 concrete callbacks",
                        "events, read-only filter and async triggers of Buffer are outside the model",
                        "CPython str slicing/find/split/lstrip are re-implemented in coq/Lib/Py.v and tied by this correspondence only"]
    return chk.finish()


def replay(data):
    rep = data["replay"]
    if "case" in rep:
        case = rep["case"]
    else:
        case = [S(rep["text"]), rep["cursor"], [rep["op"]]]
    out, trace = impl_wcase(case) if len(case) == 4 else impl_case(case)
    rc = 0
    for tr in trace:
        bad = oracle_step(*tr)
        print("text=%r cursor=%d op=%s%r -> status=%d text=%r cursor=%d ret=%r  %s" % (
            tr[0], tr[1], OPNAMES[tr[2][0]], tr[2][1:], tr[3], tr[4], tr[5], tr[6], "ORACLE FAILS: " + bad[0] if bad else "oracle ok"))
        if bad:
            rc = 1
    m = run_model("c01", [case])[0]
    print("model agrees" if m == sx_norm(out) else "model differs: %r" % (m,))
    return rc
