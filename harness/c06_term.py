"""C06 helper: tokeniser for the text written by Vt100_Output and a Python
transcription of coq/Model/C06_Terminal.v (the VT100 subset interpreter).

Wire tokens (lists of ints, shared with the Coq model):
  [1, cp...] text run        [2] CR   [3] LF   [4,n] CUU  [5,n] CUD  [6,n] CUF
  [7,n] CUB  [8] BS  [9] EL  [10] ED  [11,pen] SGR  [12,b] autowrap on/off
  [13,b] cursor show/hide    [14] home (CSI H)     [15,id] other raw sequence
Pens are opaque: the SGR escape string itself, numbered by `pen_id`.
"""
import re

RAW_IDS = {"\x1b[?2004h": 1, "\x1b[?2004l": 2, "\x1b[?1l": 3, "\x1b[?1049h": 4,
           "\x1b[?1049l": 5, "\x1b[?12l": 6,
           # enable_mouse_support / disable_mouse_support (Model/C06_Modes.v mouse_on / mouse_off)
           "\x1b[?1000h": 7, "\x1b[?1003h": 8, "\x1b[?1015h": 9, "\x1b[?1006h": 10,
           "\x1b[?1000l": 11, "\x1b[?1015l": 12, "\x1b[?1006l": 13, "\x1b[?1003l": 14}
# cursor shapes: ESC[n q -> raw id 20+n (n = 0: reset_cursor_shape)
ZWE = "\x1b]1337;z%d\x07"          # zero-width escape payloads used by the generator
_TOK = re.compile(
    r"\x1b\[(\d*)([ABCD])|\x1b\[(K)|\x1b\[(J)|(\x1b\[0(?:;\d+)*m)|\x1b\[\?7([hl])|\x1b\[\?25([hl])"
    r"|(\x1b\[H)|(\x1b\[\?2004[hl]|\x1b\[\?1l|\x1b\[\?1049[hl]|\x1b\[\?12l|\x1b\[\?10(?:00|03|15|06)[hl])|\x1b\]1337;z(\d+)\x07|\x1b\[([0-6]) q"
    r"|(\r)|(\n)|(\x08)|([^\x00-\x1f\x7f\x1b]+)|([\x00-\x1f\x7f\x1b])", re.S)


class PenTable:
    """escape string <-> small int; '\\x1b[0m' is pen 0."""

    def __init__(self):
        self.ids = {"\x1b[0m": 0}
        self.strs = ["\x1b[0m"]

    def pen_id(self, s):
        if s not in self.ids:
            self.ids[s] = len(self.strs)
            self.strs.append(s)
        return self.ids[s]


def tokenize(data, pens):
    """str -> list of wire tokens.  Anything unrecognised becomes [99, cp...]
    (never produced by the model)."""
    out = []
    pos = 0
    for m in _TOK.finditer(data):
        if m.start() != pos:
            out.append([99] + [ord(c) for c in data[pos:m.start()]])
        pos = m.end()
        g = m.groups()
        if g[1]:
            n = int(g[0]) if g[0] else 1
            out.append([{"A": 4, "B": 5, "C": 6, "D": 7}[g[1]], n])
        elif g[2]:
            out.append([9])
        elif g[3]:
            out.append([10])
        elif g[4]:
            out.append([11, pens.pen_id(g[4])])
        elif g[5]:
            out.append([12, 1 if g[5] == "h" else 0])
        elif g[6]:
            out.append([13, 1 if g[6] == "h" else 0])
        elif g[7]:
            out.append([14])
        elif g[8]:
            out.append([15, RAW_IDS[g[8]]])
        elif g[9] is not None:
            out.append([15, 100 + int(g[9])])
        elif g[10] is not None:
            out.append([15, 20 + int(g[10])])
        elif g[11]:
            out.append([2])
        elif g[12]:
            out.append([3])
        elif g[13]:
            out.append([8])
        elif g[14]:
            t = [ord(c) for c in g[14]]
            if out and out[-1][0] == 1:
                out[-1].extend(t)
            else:
                out.append([1] + t)
        else:
            out.append([99, ord(g[15])])
    if pos != len(data):
        out.append([99] + [ord(c) for c in data[pos:]])
    return out


JUNK = ([63], 7, 0)        # what an untouched cell holds: '?', pen 7, narrow


class Term:
    """Transcription of Model/C06_Terminal.v.  Rows are unbounded below; row 0
    is the origin (first row of the renderer's output)."""

    def __init__(self, width):
        self.W = width
        self.grid = {}
        self.cx = 0
        self.cy = 0
        self.pen = 99
        self.aw = 1
        self.cvis = 1
        self.pending = 0
        self.undef = 0
        self.rows = 1 << 30      # rows available from the origin; LF on the last one scrolls
        self.scrolled = 0        # number of scrolls so far
        self.minrow = 0          # smallest row the cursor visited (oracle only)
        self.maxrow = 0          # largest row the cursor visited / wrote (oracle only)
        self.written = set()     # rows in which a cell was written (oracle only)
        self.layers = []
        # terminal modes as far as the renderer's raw sequences define them (oracle only; Model/C06_Modes.v mode_tok)
        self.modes = {"alt": 0, "bp": 0, "mouse": 0, "shape": 0}
        # events on which the model's two debatable choices would be observable (statistics only):
        self.nz_erase = 0        # EL / ED / scroll-fill executed with a pen other than ESC[0m (background-colour-erase matters)
        self.aw_text = 0         # text written while autowrap is on (deferred vs immediate wrap could matter)

    def _blank_other_half(self, y, x):
        g, p, k = self.get(y, x)
        if k == 1:
            g2, p2, _ = self.get(y, x + 1)
            self.grid[(y, x + 1)] = ([32], p2, 0)
        elif k == 2:
            g2, p2, _ = self.get(y, x - 1)
            self.grid[(y, x - 1)] = ([32], p2, 0)

    def put(self, g, w):
        if w < 1 or w > 2:
            self.undef = 1
            return
        if self.aw:
            self.aw_text += 1
        if self.pending and self.aw:
            self.cx = 0
            self.cy += 1
            self.pending = 0
        if w == 2 and self.cx >= self.W - 1:
            self.undef = 1
            return
        y, x = self.cy, self.cx
        self._blank_other_half(y, x)
        if w == 2:
            self._blank_other_half(y, x + 1)
        self.grid[(y, x)] = (list(g), self.pen, 0 if w == 1 else 1)
        if w == 2:
            self.grid[(y, x + 1)] = ([], self.pen, 2)
        self.written.add(y)
        nx = x + w
        if nx <= self.W - 1:
            self.cx = nx
        else:
            self.cx = self.W - 1
            if self.aw:
                self.pending = 1

    def erase_line_from_cursor(self):
        y, x = self.cy, self.cx
        if self.get(y, x)[2] == 2:
            self._blank_other_half(y, x)
        for c in range(x, self.W):
            self.grid[(y, c)] = ([32], self.pen, 0)

    def step(self, tok, width_of):
        k = tok[0]
        if k in (4, 5, 6, 7) and tok[1] == 0:
            tok = [k, 1]          # ECMA-48: parameter 0 means the default, 1
        if k == 1:
            for cp in tok[1:]:
                self.put([cp], width_of(cp))
        elif k == 2:
            self.cx = 0
            self.pending = 0
        elif k == 3:
            if self.cy == self.rows - 1:
                self.scroll_up()
            else:
                self.cy += 1
            self.pending = 0
        elif k == 4:
            self.cy = self.cy - tok[1]      # rows above the origin exist (scrollback)
            self.pending = 0
        elif k == 5:
            self.cy = min(self.rows - 1, self.cy + tok[1]) if self.cy <= self.rows - 1 else self.cy + tok[1]
            self.pending = 0
        elif k == 6:
            self.cx = min(self.W - 1, self.cx + tok[1])
            self.pending = 0
        elif k in (7, 8):
            n = tok[1] if k == 7 else 1
            self.cx = max(0, self.cx - n)
            self.pending = 0
        elif k == 9:
            self.nz_erase += 1 if self.pen != 0 else 0
            self.erase_line_from_cursor()
            self.written.add(self.cy)
        elif k == 10:
            self.nz_erase += 1 if self.pen != 0 else 0
            self.erase_line_from_cursor()
            for (y, x) in list(self.grid):
                if y > self.cy:
                    del self.grid[(y, x)]
            self.layers.append((self.cy, self.pen))
        elif k == 11:
            self.pen = tok[1]
        elif k == 12:
            self.aw = tok[1]
            if not tok[1]:
                self.pending = 0
        elif k == 13:
            self.cvis = tok[1]
        elif k == 14:
            self.cx = 0
            self.cy = 0
            self.pending = 0
        elif k == 15:
            i = tok[1]
            if i in (4, 5):
                self.modes["alt"] = 1 if i == 4 else 0
            elif i in (1, 2):
                self.modes["bp"] = 1 if i == 1 else 0
            elif i in (7, 11):
                self.modes["mouse"] = 1 if i == 7 else 0
            elif 20 <= i <= 26:
                self.modes["shape"] = i - 20
        else:
            self.undef = 1
        self.maxrow = max(self.maxrow, self.cy)
        self.minrow = min(self.minrow, self.cy)

    # ED: every row below the cursor row becomes blank in the current pen.  The
    # rows are unbounded, so each ED leaves a "blank below row y" layer.
    def cell(self, y, x):
        if (y, x) in self.grid:
            return self.grid[(y, x)]
        for (yb, pen) in reversed(self.layers):
            if y > yb:
                return ([32], pen, 0)
        return JUNK

    get = cell

    def scroll_up(self):
        """LF on the last row: every row up to the last moves up by one (rows above
        the origin exist: scrollback), the last row becomes blank in the current pen."""
        b = self.rows - 1
        self.nz_erase += 1 if self.pen != 0 else 0
        new = {}
        for (y, x), v in self.grid.items():
            if y <= b:
                new[(y - 1, x)] = v
            else:
                new[(y, x)] = v
        self.layers = [((yb - 1) if yb < b else yb, pen) for (yb, pen) in self.layers]
        for x in range(self.W):
            new[(b, x)] = ([32], self.pen, 0)
        self.grid = new
        self.scrolled += 1

    def shift_origin(self, dy):
        """the row `dy` becomes row 0 (after a done render / reset)"""
        self.grid = {(y - dy, x): v for (y, x), v in self.grid.items()}
        self.layers = [(yb - dy, pen) for (yb, pen) in self.layers]
        self.cy -= dy
        self.written = set()
        self.maxrow = self.cy
        self.minrow = self.cy

    def dump(self, nrows):
        rows = []
        for y in range(nrows):
            rows.append([[list(self.cell(y, x)[0]), self.cell(y, x)[1], self.cell(y, x)[2]] for x in range(self.W)])
        return [self.cx, self.cy, self.pen, self.aw, self.cvis, self.pending, self.undef, self.scrolled, rows]
