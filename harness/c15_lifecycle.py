"""C15 (round 7) - gated correspondence for the producer-thread life cycle of ThreadedCompleter /
generator_to_async_generator (model: coq/Model/C15_Thread.v, theorem C15_one_completer_run).

A real Buffer with ThreadedCompleter(Gated): Gated.get_completions is a generator that runs in the
producer thread of generator_to_async_generator and blocks at a gate before every item, so the harness
decides when the thread computes ONE more item / finds the iterable exhausted.  After every step the
harness waits for quiescence (every producer thread at its gate or gone; `running` set only if a thread
is at its gate; nothing observable changed for `window` seconds) and observes
    [running flag of _only_one_at_a_time, producer threads inside get_completions, runs started,
     complete_state is not None, number of completions in the menu].
case = [30, 1, [label ...]]; labels [1] start_completion, [2] cancel_completion, [3] insert_text('b'),
[4, i, more] release the thread of run i for one step.
"""
import asyncio
import threading
import time


class Run:
    def __init__(self, doc):
        self.doc = doc
        self.alive = True
        self.at_gate = False
        self.gate = threading.Semaphore(0)
        self.cmds = []
        self.items = 0


class LRig:
    def __init__(self, env):
        from prompt_toolkit.buffer import Buffer
        from prompt_toolkit.completion import Completer, Completion, ThreadedCompleter
        from prompt_toolkit.document import Document
        rig = self
        self.env = env
        self.runs = []
        self.peak = 0
        self.overlap = None

        class Gated(Completer):
            def get_completions(self, document, complete_event):
                run = Run(document)
                others = [r.doc.text for r in rig.runs if r.alive]
                rig.runs.append(run)
                n = sum(1 for r in rig.runs if r.alive)
                if n > rig.peak:
                    rig.peak = n
                if others and rig.overlap is None:
                    rig.overlap = (others, document.text)
                try:
                    while True:
                        run.at_gate = True
                        if not run.gate.acquire(timeout=30):
                            return            # never leave a thread blocked for ever
                        run.at_gate = False
                        more = run.cmds.pop(0) if run.cmds else False
                        if not more:
                            return
                        run.items += 1
                        yield Completion("x%d" % run.items, 0)
                finally:
                    run.alive = False
                    run.at_gate = False

        self.b = Buffer(completer=ThreadedCompleter(Gated()), document=Document("a", 1), complete_while_typing=False)

    def running(self):
        from c15 import _running_flag
        return _running_flag(self.b._async_completer)

    def obs(self):
        cs = self.b.complete_state
        return [int(self.running()), sum(1 for r in self.runs if r.alive), len(self.runs),
                int(cs is not None), len(cs.completions) if cs is not None else 0]

    def snapshot(self):
        return (tuple(self.obs()), tuple((r.alive, r.at_gate, r.items) for r in self.runs))

    async def settle(self, window):
        deadline = time.monotonic() + 8
        last, since = None, time.monotonic()
        while True:
            await asyncio.sleep(0.003)
            snap = self.snapshot()
            now = time.monotonic()
            quiet = all((not r.alive) or r.at_gate for r in self.runs)
            if quiet and self.running() and not any(r.alive and r.at_gate for r in self.runs):
                quiet = False        # the guard is taken: a producer thread is starting or a join is completing
            if snap != last or not quiet:
                last, since = snap, now
            elif now - since >= window:
                return True
            if now > deadline:
                return False

    def step(self, l):
        b, k = self.b, l[0]
        if k == 1:
            b.start_completion()
        elif k == 2:
            if b.complete_state is not None:
                b.cancel_completion()
        elif k == 3:
            b.insert_text("b")
        elif k == 4:
            i = l[1]
            if 0 <= i < len(self.runs):
                r = self.runs[i]
                if r.alive and r.at_gate:
                    r.cmds.append(bool(l[2]))
                    r.at_gate = False
                    r.gate.release()
        else:
            raise ValueError(l)

    async def finish(self):
        for _ in range(4):
            for r in self.runs:
                if r.alive and r.at_gate:
                    r.cmds.append(False)
                    r.at_gate = False
                    r.gate.release()
            await self.settle(0.02)
            if not any(r.alive for r in self.runs):
                break


def valid_case(case):
    try:
        if len(case) != 3 or case[0] != 30 or case[1] != 1:
            return False
        for l in case[2]:
            if l[0] in (1, 2, 3):
                if len(l) != 1:
                    return False
            elif l[0] == 4:
                if len(l) != 3 or not isinstance(l[1], int) or l[1] < 0 or l[2] not in (0, 1):
                    return False
            else:
                return False
        return True
    except Exception:  # noqa
        return False


def run_case(env, case, window=0.03):
    """-> (observations, oracle clause or None)"""
    from c15 import _cleanup

    async def go():
        rig = LRig(env)
        out = []
        try:
            for l in case[2]:
                rig.step(l)
                ok = await rig.settle(window)
                if not ok:
                    out.append([-998])
                    break
                out.append(rig.obs())
        finally:
            await rig.finish()
            await _cleanup(env)
        bad = None
        if rig.peak > 1:
            bad = ("%d completer computations of one buffer were running at the same time (get_completions for %r still running "
                   "when it was called for %r)" % (rig.peak, rig.overlap[0] if rig.overlap else None, rig.overlap[1] if rig.overlap else None))
        return out, bad
    return env.loop.run_until_complete(asyncio.wait_for(go(), 60))


def label_str(l):
    return {1: "start_completion", 2: "cancel_completion", 3: "insert_text('b')"}.get(l[0]) or (
        "thread[%d]:%s" % (l[1], "next-item" if l[2] else "exhausted"))


FIXED = [
    [[1], [4, 0, 1], [3], [4, 0, 1], [4, 1, 1], [4, 1, 0]],             # typing while the stream runs: join, _Retry, new run
    [[1], [4, 0, 1], [2], [4, 0, 1], [1], [4, 1, 1], [4, 1, 0]],        # cancel while the stream runs: join, no re-run
    [[1], [4, 0, 0], [1], [4, 1, 1], [4, 1, 1], [4, 1, 0], [1]],        # empty stream; finished menu blocks a new run
    [[1], [4, 0, 1], [4, 0, 1], [3], [1], [4, 0, 0], [4, 1, 1], [4, 1, 0]],   # exhausted while abandoned
    [[1], [3], [2], [4, 0, 1], [4, 0, 1], [4, 1, 1], [3], [4, 1, 1], [4, 2, 0]],
    [[1], [1], [4, 0, 1], [1], [3], [3], [4, 0, 1], [2], [4, 1, 1], [4, 1, 1]],
]


def random_case(rng):
    ls = [[1]]
    for _ in range(rng.randint(4, 9)):
        r = rng.random()
        if r < 0.15:
            ls.append([1])
        elif r < 0.27:
            ls.append([2])
        elif r < 0.42:
            ls.append([3])
        else:
            ls.append([4, rng.choice([0, 0, 1, 1, 2]), rng.choice([1, 1, 1, 0])])
    return [30, 1, ls]


def cases(rng, n):
    return [[30, 1, f] for f in FIXED] + [random_case(rng) for _ in range(n)]
