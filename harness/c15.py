"""C15 - asynchronous completions / validation / suggestions are never applied stale.
Model: coq/Model/C15_Async.v (labelled transition system); theorems: coq/Props/C15.v.

A case is (config, text, cursor, groups); a group is a list of model labels that
the real event loop executes between two observations:
    [user label]              one Buffer method call, no loop iteration
    [Tick]                    one loop iteration (all tasks created so far take their first step, FIFO)
    [Tick, scheduler label]   the harness resolves the future a coroutine waits on, then one loop
                              iteration (asyncio runs the queued task starts first, then the wake-up)
The real Buffer runs with a harness Completer / Validator / AutoSuggest whose
async methods wait on futures that only the harness resolves, under a real
Application object (set_app) on a private event loop that the harness steps.
"""
import asyncio
import inspect
import itertools
import json
import os

from common import *  # noqa

PROP = "C15"
TABLES = ["Whitespace"]
MODELS = [("c15", "Extract/ExC15.v", "run_C15")]

LNAMES = {1: "Insert", 2: "DeleteBefore", 3: "MoveCursor", 4: "CompleteNext", 5: "CompletePrev", 6: "Cancel",
          7: "StartCompletion", 8: "StartTask", 9: "Tick", 10: "CYield", 11: "CEnd", 12: "VReturn", 13: "SReturn", 14: "InstallMenu",
          15: "DeleteFwd", 16: "SetText", 17: "Swap", 18: "Validate", 19: "HistoryLines",
          20: "Reset", 21: "ValidateAndHandle"}
END = object()


def label_str(l):
    k = l[0]
    if k == 1:
        return "Insert(%r)" % unS(l[1])
    if k == 10:
        return "CYield(%d,%r,%d)" % (l[1], unS(l[2]), l[3])
    if k == 13:
        return "SReturn(%d,%r)" % (l[1], unS(l[2][0]) if l[2] else None)
    if k == 14:
        return "InstallMenu(%r)" % ([(unS(t), st) for t, st in l[1]],)
    if k == 16:
        return "SetText(%r)" % unS(l[1])
    if k == 20:
        return "Reset(%r,%d)" % (unS(l[1]), l[2])
    if k == 19:
        return "HistoryLines(%r,%r)" % ([unS(x) for x in l[1]], [unS(x) for x in l[2]])
    return "%s(%s)" % (LNAMES.get(k, "?"), ",".join(str(x) for x in l[1:]))


def group_str(g):
    return "+".join(label_str(l) for l in g)


# --------------------------------------------------------------------------
# the rig: a real Buffer with gated completer / validator / suggester

class Call:
    __slots__ = ("no", "doc", "fut", "items")

    def __init__(self, no, doc):
        self.no, self.doc, self.fut = no, doc, None
        self.items = []          # (text, start_position) of the completions this call produced


class Obs(list):
    """an observation; `entry_fail` carries the per-entry check done while the real objects are at hand"""
    entry_fail = None
    attached = False         # the menu is the one the in-flight completer coroutine created (it is loading)


class Env:
    """One private event loop + one Application object, shared by all cases of this process."""
    _inst = None

    def __init__(self):
        from prompt_toolkit.application import Application
        from prompt_toolkit.application.current import set_app
        from prompt_toolkit.input import DummyInput
        from prompt_toolkit.output import DummyOutput
        self.loop = asyncio.new_event_loop()
        self.app = Application(input=DummyInput(), output=DummyOutput())
        self.tasks = []
        orig = self.app.create_background_task

        def create_background_task(coro):
            t = orig(coro)
            self.tasks.append(t)
            return t
        # instrumentation of this Application object only: remember the tasks the buffer creates
        self.app.create_background_task = create_background_task
        self.loop.set_exception_handler(lambda loop, ctx: None)
        self._cm = set_app(self.app)
        self._cm.__enter__()

    @classmethod
    def get(cls):
        if cls._inst is None:
            cls._inst = Env()
        return cls._inst


def _running_flag(fn):
    for name, cell in zip(fn.__code__.co_freevars, fn.__closure__ or ()):
        if name == "running":
            return bool(cell.cell_contents)
    raise RuntimeError("no 'running' closure variable in %r (the _only_one_at_a_time guard changed shape)" % (fn,))


class Rig:
    def __init__(self, env, cfg, text, cursor):
        from prompt_toolkit.auto_suggest import AutoSuggest
        from prompt_toolkit.buffer import Buffer
        from prompt_toolkit.completion import Completer
        from prompt_toolkit.document import Document
        from prompt_toolkit.validation import Validator
        rig = self
        self.env = env
        self.ccalls, self.vcalls, self.scalls = [], [], []
        self.cactive, self.vactive, self.sactive = [], [], []
        self.sugg_src = {}       # id(Suggestion) -> (Suggestion, Call)
        self.vsrc = None
        self.sync_verdict = (True, 0)
        self.keep_text = False
        self.obj_tags = {}       # id(Completion made by the buffer itself) -> (Completion, Call, index)
        self.hl_args = None
        self.sync_menus = []     # CompletionState objects installed synchronously (labels InstallMenu / HistoryLines)
        self.prev_cs = None
        self.reported = set()

        class HC(Completer):
            def get_completions(self, document, complete_event):
                return iter(())

            async def get_completions_async(self, document, complete_event):
                call = Call(len(rig.ccalls), document)
                rig.ccalls.append(call)
                rig.cactive.append(call)
                try:
                    while True:
                        call.fut = env.loop.create_future()
                        item = await call.fut
                        if item is END:
                            return
                        yield item
                finally:
                    rig.cactive.remove(call)

        class HV(Validator):
            def validate(self, document):
                # synchronous validation (Buffer.validate): verdict given by the Validate label
                ok, epos = rig.sync_verdict
                call = Call(len(rig.vcalls), document)
                rig.vcalls.append(call)
                if not ok:
                    from prompt_toolkit.validation import ValidationError
                    raise ValidationError(cursor_position=epos, message="#%d" % call.no)

            async def validate_async(self, document):
                call = Call(len(rig.vcalls), document)
                rig.vcalls.append(call)
                rig.vactive.append(call)
                try:
                    call.fut = env.loop.create_future()
                    await call.fut
                finally:
                    rig.vactive.remove(call)

        class HS(AutoSuggest):
            def get_suggestion(self, buffer, document):
                return None

            async def get_suggestion_async(self, buff, document):
                call = Call(len(rig.scalls), document)
                rig.scalls.append(call)
                rig.sactive.append(call)
                try:
                    call.fut = env.loop.create_future()
                    return await call.fut
                finally:
                    rig.sactive.remove(call)

        cwt, hval, vwt, hsug, maxn = bool(cfg[0]), bool(cfg[1]), bool(cfg[2]), bool(cfg[3]), cfg[4]
        self.b = Buffer(completer=HC(), validator=HV() if hval else None, auto_suggest=HS() if hsug else None,
                        complete_while_typing=cwt, validate_while_typing=vwt,
                        max_number_of_completions=maxn, document=Document(text, cursor),
                        accept_handler=lambda buf: rig.keep_text)

    # -- one model label on the real objects (user labels) ------------------
    def user(self, l):
        from prompt_toolkit.buffer import Buffer  # noqa
        b, k = self.b, l[0]
        try:
            if k == 1:
                b.insert_text(unS(l[1]))
            elif k == 2:
                b.delete_before_cursor(l[1])
            elif k == 3:
                b.cursor_position = l[1]
            elif k == 4:
                b.complete_next(count=l[1], disable_wrap_around=bool(l[2]))
            elif k == 5:
                b.complete_previous(count=l[1], disable_wrap_around=bool(l[2]))
            elif k == 6:
                b.cancel_completion()
            elif k == 7:
                b.start_completion(select_first=l[1] == 1, select_last=l[1] == 2, insert_common_part=l[1] == 3)
            elif k == 19:
                # the real start_history_lines_completion on working lines before + [text] + after
                # (the model computes the list itself since round 6: label HistoryLines)
                call = Call(len(self.ccalls), b.document)
                self.ccalls.append(call)
                set_working_lines(b, [unS(x) for x in l[1]], [unS(x) for x in l[2]])
                self.hl_args = ([unS(x) for x in l[1]] + [b.text] + [unS(x) for x in l[2]], b.text, b.cursor_position)
                b.start_history_lines_completion()
                cs = b.complete_state
                comps = list(cs.completions) if cs is not None else []
                call.items = [(c.text, c.start_position) for c in comps]
                for j, c in enumerate(comps):
                    self.obj_tags[id(c)] = (c, call, j)
                if cs is not None:
                    self.sync_menus.append(cs)
            elif k == 20:
                from prompt_toolkit.document import Document
                b.reset(Document(unS(l[1]), l[2]))
            elif k == 21:
                self.sync_verdict = (bool(l[1]), l[2])
                self.keep_text = bool(l[3])
                doc, before = b.document, self.vst_code()
                b.validate_and_handle()
                if before == 0 and self.vst_code() != 0:
                    self.vsrc = doc
            elif k == 15:
                b.delete(l[1])
            elif k == 16:
                b.text = unS(l[1])
            elif k == 17:
                b.swap_characters_before_cursor()
            elif k == 18:
                self.sync_verdict = (bool(l[1]), l[2])
                doc, before = b.document, self.vst_code()
                b.validate(set_cursor=bool(l[3]))
                if before == 0 and self.vst_code() != 0:
                    self.vsrc = doc
            elif k == 14:
                # what start_history_lines_completion does with the list it computed from b.document
                from prompt_toolkit.completion import Completion
                call = Call(len(self.ccalls), b.document)
                self.ccalls.append(call)
                call.items = [(unS(t), st) for t, st in l[1]]
                b._set_completions(completions=[Completion(unS(t), st, display_meta="#%d.%d" % (call.no, j))
                                                for j, (t, st) in enumerate(l[1])])
                if b.complete_state is not None:
                    self.sync_menus.append(b.complete_state)
                b.go_to_completion(0)
            else:
                raise ValueError("not a user label: %r" % (l,))
        except AssertionError:
            return 1
        except IndexError:
            return 2
        except Hang:
            raise
        except Exception:  # noqa
            return 99
        return 0

    def resolve(self, l):
        """Resolve the future the addressed coroutine waits on.  Returns the Call or None (label disabled)."""
        from prompt_toolkit.auto_suggest import Suggestion
        from prompt_toolkit.completion import Completion
        from prompt_toolkit.validation import ValidationError
        k = l[0]
        act = {10: self.cactive, 11: self.cactive, 12: self.vactive, 13: self.sactive}[k]
        if not (0 <= l[1] < len(act)):
            return None
        call = act[l[1]]
        if call.fut is None or call.fut.done():
            return None
        if k == 10:
            call.items.append((unS(l[2]), l[3]))
            call.fut.set_result(Completion(unS(l[2]), l[3], display_meta="#%d.%d" % (call.no, len(call.items) - 1)))
        elif k == 11:
            call.fut.set_result(END)
        elif k == 12:
            if l[2]:
                call.fut.set_result(None)
            else:
                call.fut.set_exception(ValidationError(message="#%d" % call.no))
        else:
            sg = Suggestion(unS(l[2][0])) if l[2] else None
            if sg is not None:
                self.sugg_src[id(sg)] = (sg, call)
            call.fut.set_result(sg)
        return call

    # -- observation ---------------------------------------------------------
    def comp_tag(self, c):
        ent = self.obj_tags.get(id(c))
        if ent is not None and ent[0] is c:
            return ent[1], ent[2]
        m = c._display_meta
        if isinstance(m, str) and m.startswith("#") and "." in m:
            a, b = m[1:].split(".")
            return self.ccalls[int(a)], int(b)
        return None

    def comp_src(self, c):
        t = self.comp_tag(c)
        return t[0].doc if t else None

    def entry_check(self, cs):
        """every menu entry must produce what the completer's completion produced on the document it
        was computed from (entries re-based by insert_common_part included)"""
        od = cs.original_document
        for c in cs.completions:
            t = self.comp_tag(c)
            if t is None:
                return "menu entry %r was not produced by the completer" % (c,)
            call, j = t
            ytext, ystart = call.items[j]
            want = _apply((S(call.doc.text), call.doc.cursor_position), [[S(ytext), ystart]], 0)
            got = _apply((S(od.text), od.cursor_position), [[S(c.text), c.start_position]], 0)
            if got != want:
                return ("menu entry %r (from the completer's Completion(%r, %d) for %r/%d) applied to the menu's document %r/%d gives %r, "
                        "the completer's completion gave %r" % ((c.text, c.start_position), ytext, ystart, call.doc.text,
                                                                 call.doc.cursor_position, od.text, od.cursor_position,
                                                                 unS(got[0]), unS(want[0])))
        return None

    def task_died(self):
        died = 0
        for t in self.env.tasks:
            if t.done() and not t.cancelled() and id(t) not in self.reported:
                self.reported.add(id(t))
                if t.exception() is not None:
                    died = 3
        return died

    def observe(self, status, vresolved, v_before):
        from prompt_toolkit.buffer import ValidationState
        b = self.b
        cs = b.complete_state
        if cs is None:
            ocs = []
        else:
            comps = []
            for c in cs.completions:
                src = self.comp_src(c)
                comps.append([S(c.text), c.start_position, dsx(src) if src is not None else [[-1], -1]])
            ocs = [[1 if cs is self.prev_cs else 0, dsx(cs.original_document), comps,
                    [] if cs.complete_index is None else [cs.complete_index]]]
        self.prev_cs = cs
        vst = {ValidationState.UNKNOWN: 0, ValidationState.VALID: 1, ValidationState.INVALID: 2}[b.validation_state]
        if vst == 0:
            self.vsrc = None
        else:
            # ghost: a returning validate_async publishes iff the buffer's document is (again) the one it
            # was called with - also over a verdict that the synchronous validate() set meanwhile
            if vresolved is not None and (v_before == 0 or vresolved.doc == b.document):
                self.vsrc = vresolved.doc
            err = b.validation_error
            if err is not None and isinstance(err.message, str) and err.message.startswith("#"):
                self.vsrc = self.vcalls[int(err.message[1:])].doc
        sg = b.suggestion
        if sg is None:
            osg = []
        else:
            ent = self.sugg_src.get(id(sg))
            osg = [[S(sg.text), dsx(ent[1].doc) if ent and ent[0] is sg else [[-1], -1]]]
        if status == 0:
            status = self.task_died()
        else:
            self.task_died()
        o = Obs([status, S(b.text), b.cursor_position, ocs, vst, [dsx(self.vsrc)] if self.vsrc is not None else [], osg,
                [int(_running_flag(b._async_completer)), int(_running_flag(b._async_validator)),
                 int(_running_flag(b._async_suggester))],
                [dsx(c.doc) for c in self.cactive], [dsx(c.doc) for c in self.vactive], [dsx(c.doc) for c in self.sactive]])
        if cs is not None:
            o.entry_fail = self.entry_check(cs)
            # async_completer does not start while a menu exists, so a menu that was not installed
            # synchronously and coexists with an in-flight completer call is that call's own menu
            o.attached = bool(self.cactive) and not any(cs is m for m in self.sync_menus)
        return o

    def vst_code(self):
        from prompt_toolkit.buffer import ValidationState
        return {ValidationState.UNKNOWN: 0, ValidationState.VALID: 1, ValidationState.INVALID: 2}[self.b.validation_state]

    def unstarted(self):
        """tasks created by the buffer whose first step has not run (coroutine not yet entered)"""
        n = 0
        for t in self.env.tasks:
            if not t.done() and inspect.getcoroutinestate(t.get_coro()) == inspect.CORO_CREATED:
                n += 1
        return n


def dsx(d):
    return [S(d.text), d.cursor_position]


def set_working_lines(b, before, after):
    """harness set-up: the buffer's history window becomes before + [text] + after, working index on the
    text (what loading the history and history_backward produce; the history itself is C14's subject)"""
    from collections import deque
    text = b.text
    b._working_lines = deque(before + [text] + after)
    b._Buffer__working_index = len(before)
    if b.text != text or b.working_index != len(before):
        raise RuntimeError("Buffer._working_lines / __working_index changed shape")


def hl_oracle(wl, text, cur, got):
    """C15_history_lines_*: the menu start_history_lines_completion shows is computed from the current
    document: the entries are exactly the stripped non-empty lines of the working lines that start with the
    left-stripped current line before the cursor, each once, most recent first; each replaces exactly that
    part.  Python's own str methods are the reference.  -> None or a clause"""
    if got is None:
        return "start_history_lines_completion left no complete_state"
    cl = text[:cur].rpartition("\n")[2].lstrip()
    want = []
    for s in wl:
        for l in s.split("\n"):
            l = l.strip()
            if l and l.startswith(cl) and l not in want:
                want.append(l)
    texts = [t for t, _ in got]
    for t, st in got:
        if st != -len(cl):
            return "history-lines entry %r has start_position %d, the current line before the cursor is %r" % (t, st, cl)
        if t not in want:
            return "history-lines entry %r is not a stripped non-empty line of the working lines starting with %r" % (t, cl)
    if len(set(texts)) != len(texts):
        return "history-lines menu lists a line twice: %r" % (texts,)
    if set(texts) != set(want):
        return "history-lines menu %r misses %r" % (texts, [w for w in want if w not in texts])
    if texts != want[::-1]:
        return "history-lines menu %r is not in most-recent-first order %r" % (texts, want[::-1])
    return None


_META = None


def hl_fn_impl(case):
    """function-level case [19, working_lines, text, cursor, working_index] on a real Buffer -> entries
    [[text, start_position, [is_current, i + 1, j + 1]]] parsed from display_meta"""
    import re
    from collections import deque
    from prompt_toolkit.buffer import Buffer
    from prompt_toolkit.document import Document
    from prompt_toolkit.formatted_text import fragment_list_to_text, to_formatted_text
    _, wl, text, cur, wi = case
    Env.get()
    b = Buffer(document=Document(unS(text), cur))
    lines = [unS(x) for x in wl]
    b._working_lines = deque(lines)
    b._Buffer__working_index = wi
    if b.text != unS(text) or b.working_index != wi:
        raise RuntimeError("Buffer._working_lines / __working_index changed shape")
    b.start_history_lines_completion()
    cs = b.complete_state
    out = []
    for c in (cs.completions if cs is not None else []):
        meta = fragment_list_to_text(to_formatted_text(c.display_meta))
        m = re.fullmatch(r"Current, line (\d+)", meta)
        if m:
            mt = [1, wi + 1, int(m.group(1))]
        else:
            m = re.fullmatch(r"History (\d+), line (\d+)", meta)
            if not m:
                raise RuntimeError("display_meta %r of a history-lines completion changed shape" % (meta,))
            mt = [0, int(m.group(1)), int(m.group(2))]
        out.append([S(c.text), c.start_position, mt])
    return out, [(c.text, c.start_position) for c in (cs.completions if cs is not None else [])]


def is_fn_case(case):
    return isinstance(case, list) and len(case) == 5 and case[0] == 19


def valid_fn_case(case):
    try:
        _, wl, text, cur, wi = case
        return (all(isinstance(w, list) and all(isinstance(x, int) for x in w) for w in wl) and
                all(isinstance(x, int) for x in text) and isinstance(cur, int) and 0 <= cur <= len(text) and
                isinstance(wi, int) and 0 <= wi < len(wl) and wl[wi] == text)
    except Exception:  # noqa
        return False


def group_shape_ok(g):
    if len(g) == 1:
        return g[0][0] in (1, 2, 3, 4, 5, 6, 7, 9, 14, 15, 16, 17, 18, 19, 20, 21)
    return len(g) == 2 and g[0][0] == 9 and g[1][0] in (10, 11, 12, 13)


def valid_case(case):
    try:
        cfg, text, cur, groups = case
        if len(cfg) != 5 or any(x not in (0, 1) for x in cfg[:4]) or not isinstance(cfg[4], int):
            return False
        if not (isinstance(cur, int) and 0 <= cur <= len(text)) or not all(isinstance(c, int) for c in text):
            return False
        for g in groups:
            if not group_shape_ok(g):
                return False
            for l in g:
                k = l[0]
                arity = {1: 2, 2: 2, 3: 2, 4: 3, 5: 3, 6: 1, 7: 2, 9: 1, 10: 4, 11: 2, 12: 3, 13: 3, 14: 2, 15: 2, 16: 2, 17: 1, 18: 4, 19: 3, 20: 3, 21: 4}[k]
                if len(l) != arity:
                    return False
                if k == 7 and not (0 <= l[1] <= 3):
                    return False
                if k == 10 and l[3] > 0:
                    return False
                if k in (4, 5, 12) and l[2] not in (0, 1):
                    return False
                if k == 18 and (l[1] not in (0, 1) or l[3] not in (0, 1) or not isinstance(l[2], int)):
                    return False
                if k == 16 and not all(isinstance(x, int) for x in l[1]):
                    return False
                if k == 19 and not all(isinstance(w, list) and all(isinstance(x, int) for x in w) for w in l[1] + l[2]):
                    return False
                if k == 20 and not (all(isinstance(x, int) for x in l[1]) and isinstance(l[2], int) and 0 <= l[2] <= len(l[1])):
                    return False
                if k == 21 and (l[1] not in (0, 1) or l[3] not in (0, 1) or not isinstance(l[2], int)):
                    return False
                if k == 13 and not (l[2] == [] or (len(l[2]) == 1 and isinstance(l[2][0], list))):
                    return False
                if k == 14 and not all(len(x) == 2 and isinstance(x[0], list) and isinstance(x[1], int) and x[1] <= 0 for x in l[1]):
                    return False
        return True
    except Exception:  # noqa
        return False


async def _drive(rig, groups, hook=None):
    """Run the groups on the rig; returns (observations, trace).  trace entries:
    (group, obs_before, obs_after, enabled_info)"""
    out, trace = [], []
    before = rig.observe(0, None, rig.vst_code())
    for g in groups:
        status = 0
        vres = None
        v_before = rig.vst_code()
        if len(g) == 1 and g[0][0] != 9:
            status = rig.user(g[0])
        else:
            if len(g) == 2:
                call = rig.resolve(g[1])
                if call is None:
                    # the addressed coroutine does not exist (yet): nothing to resolve; what the
                    # real loop executes is a plain iteration, and that is what the model is given
                    g = [g[0]]
                if g[-1][0] == 12:
                    vres = call
            await asyncio.sleep(0)
        o = rig.observe(status, vres, v_before)
        if len(g) == 1 and g[0][0] == 19 and status == 0:
            cs = rig.b.complete_state
            o.entry_fail = o.entry_fail or hl_oracle(rig.hl_args[0], rig.hl_args[1], rig.hl_args[2],
                                                     None if cs is None else [(c.text, c.start_position) for c in cs.completions])
        out.append(o)
        trace.append((g, before, o))
        before = o
    return out, trace


async def _cleanup(env):
    for t in env.tasks:
        if not t.done():
            t.cancel()
    for _ in range(3):
        await asyncio.sleep(0)
    for t in env.tasks:
        if t.done() and not t.cancelled():
            t.exception()
    del env.tasks[:]


def run_on_impl(case, want_rig=False):
    """-> (observations, trace, rig-enabled-info); trace[j][0] is the group as executed"""
    env = Env.get()
    cfg, text, cur, groups = case

    async def go():
        rig = Rig(env, cfg, unS(text), cur)
        try:
            out, trace = await asyncio.wait_for(_drive(rig, groups), 10)
            info = {"cs": rig.b.complete_state is not None, "unstarted": rig.unstarted(),
                    "c": len(rig.cactive), "v": len(rig.vactive), "s": len(rig.sactive)}
        finally:
            await _cleanup(env)
        return out, trace, info
    return with_watchdog(lambda: env.loop.run_until_complete(go()), 20)


def is_lc_case(case):
    return isinstance(case, list) and len(case) == 3 and case[0] == 30


def impl_case(case, window=0.03):
    if is_lc_case(case):
        import c15_lifecycle
        if not c15_lifecycle.valid_case(case):
            return [-999], [], None
        try:
            out, bad = with_watchdog(lambda: c15_lifecycle.run_case(Env.get(), case, window), 90)
        except Hang:
            return [-998], [], None
        return out, [], ({"lc_oracle": bad} if bad else None)
    if is_fn_case(case):
        if not valid_fn_case(case):
            return [-999], [], None
        try:
            out, got = with_watchdog(lambda: hl_fn_impl(case), 20)
        except Hang:
            return [-998], [], None
        bad = hl_oracle([unS(x) for x in case[1]], unS(case[2]), case[3], got)
        return out, [], ({"fn_oracle": bad} if bad else None)
    if not valid_case(case):
        return [-999], [], None
    try:
        return run_on_impl(case)
    except Hang:
        return [-998], [], None


# --------------------------------------------------------------------------
# oracle: the theorem statements, evaluated on the implementation's observations

def _apply(orig, comps, idx):
    """new text and cursor of `orig` with completion idx applied (the property's words)"""
    t, c = orig
    if idx is None:
        return t, c
    ct, st = comps[idx][0], comps[idx][1]
    before = t[:c]
    if st != 0:
        before = before[:st]
    return before + ct + t[c:], len(before) + len(ct)


def _tbc(d):
    return d[0][:d[1]]


def oracle_finish(g, ob, oa, cfg):
    """The completer coroutine is resumed (CYield / CEnd).  Property-level clauses about what the end of a
    completion request may do (round 7):
    (a) a request whose menu was cancelled / closed while it was loading, the text before the cursor being
        unchanged, is over: no menu comes back, the completer is not run again;
    (b) when the stream of the loading menu ends with exactly ONE completion and nothing selected: a completion
        that changes nothing leaves no menu; a real one (start_position 0 included) is kept in the menu or applied."""
    st, text, cur, ocs, vst, vsrc, osg, flags, ca, va, sa = oa
    lab = g[-1]
    k = lab[0]
    if k not in (10, 11) or st != 0 or len(ob[8]) != 1:
        return None
    bdoc = [ob[1], ob[2]]
    if not ob[3]:
        if _tbc(bdoc) == _tbc(ob[8][0]) and (ocs or ca):
            return ("the completion request for %r/%d was abandoned (its menu was closed while it was loading) and the text before the cursor "
                    "is unchanged, yet it was %s" % (unS(ob[8][0][0]), ob[8][0][1],
                                                      "run again and a menu came back" if ocs else "run again"),
                    {"family": "abandoned-request-rerun", "at": "completer-finish"})
        return None
    if not getattr(ob, "attached", False):
        return None
    _, borig, bcomps, bidx = ob[3][0]
    comps = [[c[0], c[1]] for c in bcomps] + ([[lab[2], lab[3]]] if k == 10 else [])
    ends = k == 11 or len(comps) >= cfg[4]
    if not ends or len(comps) != 1 or bidx or [bdoc[0], bdoc[1]] != [borig[0], borig[1]]:
        return None
    if -comps[0][1] > borig[1]:
        return None          # start_position before the beginning of the text: outside the documented range
    applied = _apply((borig[0], borig[1]), comps, 0)
    what = "Completion(%r, %d) for %r/%d" % (unS(comps[0][0]), comps[0][1], unS(borig[0]), borig[1])
    if applied == (borig[0], borig[1]):
        if ocs:
            return ("the only completion of the finished request, %s, changes nothing, but a menu is left open" % what,
                    {"family": "noop-completion-menu", "at": "completer-finish"})
        return None
    kept = bool(ocs) and [[c[0], c[1]] for c in ocs[0][2]] == comps
    if not kept and (text, cur) != applied:
        return ("the only completion of the finished request, %s, is a real one (applying it gives %r/%d) but it was neither kept in the "
                "menu nor applied: text %r/%d, menu=%s" % (what, unS(applied[0]), applied[1], unS(text), cur, bool(ocs)),
                {"family": "single-completion-dropped", "at": "completer-finish"})
    return None


def oracle_step(g, ob, oa, cfg=None):
    """None or (clause, tags)."""
    if cfg is not None:
        bad = oracle_finish(g, ob, oa, cfg)
        if bad:
            return bad
    st, text, cur, ocs, vst, vsrc, osg, flags, ca, va, sa = oa
    lab = g[-1]
    k = lab[0]
    via = {10: "completer-finish", 11: "completer-finish"}.get(k, LNAMES[k])
    # single flight
    if len(ca) > 1 or len(va) > 1 or len(sa) > 1:
        return ("more than one completer/validator/suggester in flight: %d/%d/%d" % (len(ca), len(va), len(sa)),
                {"family": "single-flight"})
    # the menu
    if ocs:
        same, orig, comps, idx = ocs[0]
        i = idx[0] if idx else None
        if i is not None and not (0 <= i < len(comps)):
            fam = "selected-index-empty-list" if not comps else "selected-index-outside-list"
            return ("complete_state has complete_index=%r but %d completions: no selected completion to apply" % (i, len(comps)),
                    {"family": fam, "at": via})
        if (text, cur) != _apply(orig, comps, i):
            return ("menu exists but text/cursor %r/%d is not the original %r/%d with completion %r applied" % (
                unS(text), cur, unS(orig[0]), orig[1], i), {"family": "menu-inconsistent", "at": via})
        if comps:
            s0 = comps[0][2]
            shift = len(orig[0]) - len(s0[0])
            for c in comps:
                src = c[2]
                ok = src == orig
                if not ok and shift > 0 and src == s0:
                    p = orig[0][src[1]:src[1] + shift]
                    ok = (orig[0] == src[0][:src[1]] + p + src[0][src[1]:] and orig[1] == src[1] + shift and c[1] == 0)
                if not ok:
                    return ("completion %r in the menu was computed from %r/%d, the menu is for %r/%d" % (
                        unS(c[0]), unS(src[0]), src[1], unS(orig[0]), orig[1]), {"family": "stale-completion", "at": via})
        ef = getattr(oa, "entry_fail", None)
        if ef:
            return (ef, {"family": "menu-entry-result", "at": via})
    # verdict / suggestion
    if vst != 0:
        if not vsrc or vsrc[0][0] != text:
            return ("validation verdict %d shown for text %r was computed from %r" % (
                vst, unS(text), unS(vsrc[0][0]) if vsrc else None), {"family": "stale-verdict", "at": via})
    if osg:
        if osg[0][1][0] != text:
            return ("suggestion %r shown for text %r was computed from %r" % (
                unS(osg[0][0]), unS(text), unS(osg[0][1][0]) if osg[0][1][1] >= 0 else None), {"family": "stale-suggestion", "at": via})
    # exceptions
    bcs = ob[3]
    broken_before = bool(bcs) and bool(bcs[0][3]) and not (0 <= bcs[0][3][0] < len(bcs[0][2]))
    if st != 0:
        if k == 2 and lab[1] < 0:
            return None          # delete_before_cursor asserts count >= 0: documented precondition
        fam = "raises-in-broken-menu" if broken_before else "raises"
        return ("%s raised (status %d)" % (label_str(lab), st), {"family": fam, "at": LNAMES[k]})
    # cycling
    if k in (4, 5) and bcs and not broken_before:
        _, borig, bcomps, bidx = bcs[0]
        n = len(bcomps)
        bi = bidx[0] if bidx else None
        cnt, nowrap = lab[1], lab[2]
        if n >= 1:
            # C15_cycle_* (count 1) and C15_next_count / C15_prev_count (every count: clamped to 0..n-1)
            if k == 4:
                exp = 0 if bi is None else ((bi if nowrap else None) if bi == n - 1 else max(0, min(n - 1, bi + cnt)))
            else:
                exp = n - 1 if bi is None else ((bi if nowrap else None) if bi == 0 else max(0, min(n - 1, bi - cnt)))
            if not ocs or not ocs[0][0] or ocs[0][2] != bcomps or ocs[0][1] != borig or (ocs[0][3][0] if ocs[0][3] else None) != exp:
                return ("%s from index %r of %d completions must select %r in the same menu" % (LNAMES[k], bi, n, exp),
                        {"family": "cycle", "at": LNAMES[k]})
    # cancel
    if k == 6 and bcs and not broken_before:
        borig = bcs[0][1]
        if ocs or text != borig[0] or cur != borig[1]:
            return ("cancel_completion must restore the original text/cursor %r/%d and close the menu; got %r/%d menu=%s" % (
                unS(borig[0]), borig[1], unS(text), cur, bool(ocs)), {"family": "cancel", "at": "Cancel"})
    return None


def describe_obs(o):
    if not isinstance(o, list) or len(o) < 11:
        return repr(o)
    ocs = o[3]
    cs = "-" if not ocs else "menu(same=%d orig=%r/%d comps=%r idx=%r)" % (
        ocs[0][0], unS(ocs[0][1][0]), ocs[0][1][1], [(unS(c[0]), c[1]) for c in ocs[0][2]], ocs[0][3][0] if ocs[0][3] else None)
    return "status=%d text=%r cur=%d %s vst=%d sugg=%r running=%r inflight=%d/%d/%d" % (
        o[0], unS(o[1]), o[2], cs, o[4], unS(o[6][0][0]) if o[6] else None, o[7], len(o[8]), len(o[9]), len(o[10]))


# --------------------------------------------------------------------------
# generators

def G_user(l):
    return [l]


TICK = [[9]]


def G_sched(l):
    return [[9], l]


def alphabet(kind):
    """harness-level alphabet: list of (name, group, enabled(info))"""
    always = lambda i: True  # noqa
    menu = lambda i: i["cs"]  # noqa
    A = []
    if kind in ("comp", "comp-noH", "comp-HL", "all"):
        A += [("I", G_user([1, S("b")]), always), ("D", G_user([2, 1]), always), ("M", G_user([3, 0]), always),
              ("F", G_user([15, 1]), always), ("W", G_user([16, S("xb")]), always),
              ("N", G_user([4, 1, 0]), menu), ("P", G_user([5, 1, 0]), menu), ("X", G_user([6]), menu),
              ] + ([] if kind == "comp-noH" else
                   [("HL", G_user([19, [S("ab"), S(" ac \nb")], [S("abd")]]), always)] if kind == "comp-HL" else
                   [("H", G_user([14, [[S("ab"), -1], [S("ac"), -1]]]), always)]) + [
              ("T", TICK, lambda i: i["unstarted"] > 0),
              ("Y1", G_sched([10, 0, S("ab"), -1]), lambda i: i["c"] > 0),
              ("Y2", G_sched([10, 0, S("a"), -1]), lambda i: i["c"] > 0),
              ("E", G_sched([11, 0]), lambda i: i["c"] > 0)]
    if kind == "all":
        A += [("A", G_user([21, 1, 0, 0]), always), ("Z", G_user([20, S("ab"), 2]), always)]
    if kind in ("val", "all"):
        if kind == "val":
            A += [("I", G_user([1, S("b")]), always), ("D", G_user([2, 1]), always), ("M", G_user([3, 0]), always),
                  ("F", G_user([15, 1]), always), ("W", G_user([16, S("xb")]), always),
                  ("Vs", G_user([18, 1, 0, 1]), always), ("Vf", G_user([18, 0, 0, 1]), always),
                  ("A", G_user([21, 1, 0, 0]), always), ("Z", G_user([20, S("ab"), 1]), always),
                  ("T", TICK, lambda i: i["unstarted"] > 0)]
        A += [("V+", G_sched([12, 0, 1]), lambda i: i["v"] > 0), ("V-", G_sched([12, 0, 0]), lambda i: i["v"] > 0),
              ("R", G_sched([13, 0, [S("x")]]), lambda i: i["s"] > 0), ("R0", G_sched([13, 0, []]), lambda i: i["s"] > 0)]
    return A


def enumerate_family(cfg, text, cur, alpha, depth, out, budget):
    """All harness-label lists of length `depth` in which every label is enabled
    on the real implementation at its point (disabled labels are identities)."""
    def rec(groups):
        if len(out) >= budget[0]:
            budget[1] = True
            return
        if len(groups) == depth:
            out.append([cfg, S(text), cur, groups])
            return
        _, _, info = run_on_impl([cfg, S(text), cur, groups])
        for name, g, en in alpha:
            if en(info):
                rec(groups + [g])
    rec([])


RCOMPS = [("ab", -1), ("a", -1), ("abc", -1), ("x", 0), ("", 0), ("b", -1), ("ab", -2), ("abb", -2), ("a", -5), ("abx", -2), ("aby", -2),
          ("bc", -1), ("bd", -1)]


HL_LINES = ["ab", "a", " ab ", "abc\nab\n  abd", "b", "", "a b", "\tab\x0b", "ab\u3000\n\x1fa", "\u200bab", "x\nab \n ab", "ABC\nab"]


def hl_fn_exhaustive(maxlen):
    """every text over {a, b, space, newline} up to maxlen x every cursor x a set of history windows"""
    windows = [([], []), (["a"], []), (["ab", " a b "], []), (["a\nab\n  ab  ", "b"], ["ba\n b"]), ([], ["ab", "ab "]),
               (["\tab\x0b", "a\u3000", "\u200ba"], []), (["b", "bb", "b b", " b"], ["bb"]), (["", "\n\n", " \n "], [""])]
    out = []
    for n in range(maxlen + 1):
        for tup in itertools.product("ab \n", repeat=n):
            t = "".join(tup)
            for cur in range(n + 1):
                for before, after in windows:
                    out.append([19, [S(x) for x in before] + [S(t)] + [S(x) for x in after], S(t), cur, len(before)])
    return out


def hl_fn_random(rng, n):
    """random windows and texts with every kind of white space str.isspace() knows, and near misses"""
    spaces = [chr(c) for c in range(0x3100) if chr(c).isspace()]
    near = ["\x00", "\x08", "\x1b", "\x7f", "\x84", "\x86", "\u200b", "\u2060", "\ufeff", "\u180e", "\u2027", "\u202a"]
    def word():
        return "".join(rng.choice(["a", "a", "b", "ab", rng.choice(spaces), rng.choice(spaces + near), "\n", " "])
                       for _ in range(rng.randint(0, 6)))
    out = []
    for _ in range(n):
        before = [word() for _ in range(rng.randint(0, 3))]
        after = [word() for _ in range(rng.choice([0, 0, 1, 2]))]
        t = word()
        out.append([19, [S(x) for x in before] + [S(t)] + [S(x) for x in after], S(t), rng.randint(0, len(t)), len(before)])
    return out


def random_case(rng, maxlen):
    cfg = [rng.randint(0, 1), rng.choice([0, 1, 1]), rng.randint(0, 1), rng.randint(0, 1), rng.choice([10000, 10000, 1, 2, 3])]
    text = rng.choice(["", "a", "ab", "ab", "a b", "ab\nab", "ab\nabc\n a\nb", "abc\nab\nabd"])
    cur = rng.randint(0, len(text))
    n = rng.randint(3, maxlen)
    groups = []
    for _ in range(n):
        r = rng.random()
        if r < 0.40:
            k = rng.choice([1, 1, 1, 2, 2, 3, 3, 4, 4, 5, 6, 7, 7, 7, 14, 15, 15, 16, 16, 17, 18, 18, 19, 20, 21, 21])
            if k == 1:
                l = [1, S(rng.choice(["a", "b", "b", "ab", "", " "]))]
            elif k == 2:
                l = [2, rng.choice([0, 1, 1, 1, 2, 5])]
            elif k == 3:
                l = [3, rng.choice([-1, 0, 1, 2, 3, 99])]
            elif k in (4, 5):
                l = [k, rng.choice([1, 1, 1, 2, 3, 0, -1, -2]), rng.choice([0, 0, 0, 1])]
            elif k == 6:
                l = [6]
            elif k == 14:
                l = [14, [[S(c[0]), c[1]] for c in rng.sample(RCOMPS, rng.randint(0, 3))]]
            elif k == 15:
                l = [15, rng.choice([1, 1, 1, 2, 0, -1, 9])]
            elif k == 16:
                l = [16, S(rng.choice(["", "a", "ab", "xb", "ba", "a b", "abc", "ab\nab"]))]
            elif k == 17:
                l = [k]
            elif k == 19:
                l = [19, [S(x) for x in rng.sample(HL_LINES, rng.randint(0, 3))], [S(x) for x in rng.sample(HL_LINES, rng.choice([0, 0, 1, 2]))]]
            elif k == 18:
                l = [18, rng.randint(0, 1), rng.choice([0, 1, 1, 5, -2]), rng.randint(0, 1)]
            elif k == 20:
                t = rng.choice(["", "", "a", "ab", "abc", "ab\nab"])
                l = [20, S(t), rng.randint(0, len(t))]
            elif k == 21:
                l = [21, rng.choice([1, 1, 0]), rng.choice([0, 1, 5]), rng.choice([0, 0, 1])]
            else:
                l = [7, rng.randint(0, 3)]
            groups.append([l])
        elif r < 0.55:
            groups.append([[9]])
        else:
            k = rng.choice([10, 10, 10, 10, 11, 11, 12, 12, 13, 13])
            if k == 10:
                c = rng.choice(RCOMPS)
                l = [10, 0, S(c[0]), c[1]]
            elif k == 11:
                l = [11, 0]
            elif k == 12:
                l = [12, 0, rng.randint(0, 1)]
            else:
                l = [13, 0, rng.choice([[], [S("x")], [S("")], [S("yz")]])]
            if rng.random() < 0.03:
                l[1] = rng.choice([1, -1])
            groups.append([[9], l])
    return [cfg, S(text), cur, groups]


def cycle_cases():
    """menus of n completions (loaded, or still loading), then k x next / previous, then cancel"""
    out = []
    comps = [("ab", -1), ("ac", -1), ("xyz", 0), ("a", -1)]
    for n in range(0, 5):
        ys = [[[9], [10, 0, S(comps[i % 4][0]), comps[i % 4][1]]] for i in range(n)]
        for loaded in (0, 1):
            for op in (4, 5):
                for k in (n + 2, 2 * n + 3):
                    groups = [[[7, 0]], [[9]]] + ys + ([[[9], [11, 0]]] if loaded else []) + [[[op, 1, 0]]] * k
                    groups += [[[9 - op, 1, 0]]] * (n + 1) + [[[6]]]
                    out.append([[0, 0, 0, 0, 10000], S("a"), 1, groups])
    # every count (negative, zero, beyond the ends) from every selection of a loaded menu of 2 and 3
    for n in (2, 3):
        ys = [[[9], [10, 0, S(comps[i][0]), comps[i][1]]] for i in range(n)]
        for sel in range(n + 1):            # sel == n: nothing selected
            for op in (4, 5):
                for cnt in (-5, -2, -1, 0, 2, 5):
                    for nowrap in (0, 1):
                        groups = [[[7, 0]], [[9]]] + ys + [[[9], [11, 0]]] + [[[4, 1, 0]]] * ((sel + 1) % (n + 1))
                        groups += [[[op, cnt, nowrap]], [[6]]]
                        out.append([[0, 0, 0, 0, 10000], S("a"), 1, groups])
    return out


# the witness of C15_menu_consistent_pinned_refuted / C15_cancel_pinned_refuted (Props/C15.v): the
# schedule of finding C15-F1 (repaired by /repo commit 8bc6590), kept as a regression schedule
WITNESS = [[0, 0, 0, 0, 10000], S("ab"), 2,
           [[[7, 0]], [[9]], [[9], [10, 0, S("ab"), -2]], [[4, 1, 0]], [[9], [11, 0]], [[6]]]]

MALFORMED = [
    [[0, 0, 0, 0, 10000], S("a"), 2, []],                                   # cursor beyond the text
    [[0, 0, 0, 0, 10000], S("a"), -1, []],
    [[0, 0, 0, 0, 10000], S("a"), 1, [[[6, 1]]]],                           # wrong arity
    [[0, 0, 0, 0, 10000], S("a"), 1, [[[9], [10, 0, S("a"), 1]]]],          # Completion(start_position > 0)
    [[0, 0, 0, 0, 10000], S("a"), 1, [[[7, 4]]]],                           # unknown flag
    [[0, 0, 0, 2, 10000], S("a"), 1, []],
    [[0, 0, 0, 0, 10000], S("a"), 1, [[[14]]]],
    [[0, 0, 0, 0, 10000, 0], S("a"), 1, []],                             # a sixth configuration field
    [[0, 0, 0, 10000], S("a"), 1, []],                                   # the four-field configuration of earlier rounds
    [[0, 0, 0, 0, 10000], S("a"), 1, [[[19]]]],                             # HistoryLines without its working lines (rounds 3-5 shape)
    [19, [S("a"), S("b")], S("a"), 1, 1],                                   # working_lines[working_index] is not the text
    [19, [S("a")], S("a"), 2, 0],                                           # cursor beyond the text
    [19, [S("a")], S("a"), 1, 1],                                           # working index outside
    [30, 1, [[4, 0, 2]]],                                                   # life cycle: `more` is not a boolean
    [30, 1, [[5]]],                                                         # life cycle: unknown label
]


def gen_batches(chk):
    """yields (name, cases); each batch is processed and dropped before the next is generated"""
    rng = chk.rng
    thorough = chk.tier == "thorough"
    yes = lambda i: True  # noqa
    fams = [
        ("comp/start(common),mixed", [0, 0, 0, 0, 10000], "ab", 1, "comp",
         [("S3", G_user([7, 3]), yes), ("Y3", G_sched([10, 0, S("Ab"), -1]), lambda i: i["c"] > 0)], 6 if thorough else 5),
        ("comp/start(plain)", [0, 0, 0, 0, 10000], "ab", 1, "comp", [("S0", G_user([7, 0]), yes)], 5 if thorough else 4),
        ("comp/start(first),history-lines", [0, 0, 0, 0, 10000], "ab", 1, "comp-HL", [("S1", G_user([7, 1]), yes)], 5 if thorough else 4),
        ("comp/start(last),max=2", [0, 0, 0, 0, 2], "ab", 1, "comp", [("S2", G_user([7, 2]), yes)], 5 if thorough else 4),
        ("comp/while-typing,history-lines", [1, 0, 0, 0, 10000], "ab", 1, "comp-HL", [("S3", G_user([7, 3]), yes)], 5 if thorough else 4),
        ("validate+suggest+accept", [0, 1, 1, 1, 10000], "ab", 1, "val", [], 5 if thorough else 4),
        ("validator, not while typing", [0, 1, 0, 0, 10000], "ab", 1, "val", [], 5 if thorough else 4),
        ("everything", [1, 1, 1, 1, 10000], "ab", 1, "all", [("S1", G_user([7, 1]), yes)], 4 if thorough else 3),
    ]
    # the end of a request with exactly one completion: a real one with start_position 0 whose text equals the
    # text before the cursor, real ones that replace, and the two shapes of a no-op - for every start flag, also
    # ended by max_number_of_completions = 1; and a request abandoned by cancel / forward delete / typing
    single = []
    for f in (0, 1, 2, 3):
        for ct, st in (("x", 0), ("xy", -1), ("", 0), ("x", -1), ("Xx", -1)):
            single.append([[0, 0, 0, 0, 10000], S("x"), 1, [[[7, f]], [[9]], [[9], [10, 0, S(ct), st]], [[9], [11, 0]], [[6]]]])
            single.append([[0, 0, 0, 0, 1], S("x"), 1, [[[7, f]], [[9]], [[9], [10, 0, S(ct), st]], [[6]]]])
        for ab in ([6], [15, 1], [1, S("b")], [3, 0]):
            for fin in ([10, 0, S("xy"), -1], [11, 0]):
                single.append([[0, 0, 0, 0, 10000], S("xz"), 1,
                               [[[7, f]], [[9]], [[9], [10, 0, S("xa"), -1]], [ab], [[9], fin], [[9], [11, 0]]]])
    fixed = load_corpus(PROP) + cycle_cases() + single + [WITNESS] + MALFORMED
    yield "corpus+cycle+witness+malformed", fixed
    for name, cfg, text, cur, kind, extra, depth in fams:
        out = []
        budget = [600000, False]
        enumerate_family(cfg, text, cur, alphabet(kind) + extra, depth, out, budget)
        if budget[1]:
            chk.note("exhaustive family %s cut at the budget of %d schedules" % (name, budget[0]))
        yield "exhaustive:%s:depth%d" % (name, depth), out
    yield "history-lines(fn):exhaustive<=%d" % (4 if thorough else 3), hl_fn_exhaustive(4 if thorough else 3)
    yield "history-lines(fn):random", hl_fn_random(rng, 20000 if thorough else 2500)
    import c15_lifecycle
    yield "threaded-life-cycle(gated)", c15_lifecycle.cases(rng, 150 if thorough else 14)
    nrand = 30000 if thorough else 3000
    yield "random", [random_case(rng, 40 if thorough else 24) for _ in range(nrand)]


# --------------------------------------------------------------------------

def first_violation(trace, cfg=None):
    for j, (g, ob, oa) in enumerate(trace):
        bad = oracle_step(g, ob, oa, cfg)
        if bad:
            return j, bad
    return None


def tagger(c, a, m):
    if is_lc_case(c):
        return {"at": "threaded-life-cycle", "field": "runs"}
    if is_fn_case(c):
        return {"at": "HistoryLines", "field": "computed-list"}
    if not isinstance(m, list) or not isinstance(a, list):
        return {"at": "?"}
    for j, (x, y) in enumerate(zip(a, m)):
        if x != y:
            try:
                fields = ["status", "text", "cursor", "complete_state", "validation_state", "verdict_src", "suggestion",
                          "running", "completers", "validators", "suggesters"]
                diff = [fields[q] for q in range(min(len(x), len(y), 11)) if x[q] != y[q]]
                return {"at": LNAMES.get(c[3][j][-1][0], "?"), "field": diff[0] if diff else "?"}
            except Exception:  # noqa
                return {"at": "?"}
    return {"at": "length"}


def describe_fn(c, a):
    try:
        return "start_history_lines_completion on working_lines=%r (index %d) text=%r cursor=%d -> %r" % (
            [unS(x) for x in c[1]], c[4], unS(c[2]), c[3], [(unS(e[0]), e[1], e[2]) for e in a])
    except Exception:  # noqa
        return "case=%r impl=%r" % (c, a)


def describe_lc(c, a):
    import c15_lifecycle
    try:
        return "Buffer + ThreadedCompleter(gated): %s -> [running, threads in get_completions, runs, menu, menu size] = %r" % (
            " ; ".join(c15_lifecycle.label_str(l) for l in c[2]), a)
    except Exception:  # noqa
        return "case=%r impl=%r" % (c, a)


def describe(c, a, m):
    if is_lc_case(c):
        return describe_lc(c, a) + " ; model %r" % (m,)
    if is_fn_case(c):
        try:
            return describe_fn(c, a) + " ; model %r" % ([(unS(e[0]), e[1], e[2]) for e in m],)
        except Exception:  # noqa
            return "case=%r impl=%r model=%r" % (c, a, m)
    if not isinstance(m, list) or not isinstance(a, list) or not valid_case(c):
        return "case=%r impl=%r model=%r" % (c, a, m)
    for j, (x, y) in enumerate(zip(a, m)):
        if x != y:
            return "config=%r text=%r cursor=%d schedule=%s : impl %s ; model %s" % (
                c[0], unS(c[1]), c[2], " ; ".join(group_str(g) for g in c[3][:j + 1]), describe_obs(x), describe_obs(y))
    return "result lengths differ"


def main(tier):
    chk = Check(PROP, tier)
    pr = chk.proofs("Props/C15.v", tables=TABLES)
    okm, logm = build_model("c15", "Extract/ExC15.v", "run_C15", tables=TABLES)
    if not okm:
        chk.violation("tie", "model does not build: " + logm[-400:], {"kind": "model-build"}, {"log": logm[-3000:]}, no_input=True)
        return chk.finish()

    dist, lcount = {}, {}
    vm_pairs = []       # (case, impl result, model agreed?)
    nvm = 600 if chk.tier == "thorough" else 150
    for bname, cases in gen_batches(chk):
        dist[bname] = len(cases)
        impl_results = []
        oracle_bad = set()
        for i, c in enumerate(cases):
            out, trace, extra = impl_case(c)
            if is_lc_case(c) and out not in ([-999], [-998]) and sx_norm(out) != run_model("c15", [c])[0]:
                # quiescence is detected by a stability window: before reporting a difference, run the
                # scenario again with a long window (a premature observation can only be cured by waiting)
                out, trace, extra = impl_case(c, window=0.4)
            impl_results.append(out)
            if is_lc_case(c):
                chk.count_case(c, bool(out) and out not in ([-999], [-998]))
                lcount["life-cycle steps"] = lcount.get("life-cycle steps", 0) + len(c[2])
                if out == [-998] or [-998] in out:
                    chk.violation("oracle", "threaded life cycle: the scenario does not settle / hangs  [%s]" % describe_lc(c, out),
                                  {"family": "hang", "at": "threaded-life-cycle"}, {"case": c})
                    oracle_bad.add(i)
                if extra and extra.get("lc_oracle"):
                    oracle_bad.add(i)
                    chk.violation("oracle", "%s  [%s]" % (extra["lc_oracle"], describe_lc(c, out)),
                                  {"family": "single-flight", "at": "threaded-life-cycle"},
                                  {"case": c, "clause": extra["lc_oracle"],
                                   "how": "harness/c15_lifecycle.py run_case: real Buffer + ThreadedCompleter around a gated completer"})
                if i % 7 == 0:
                    chk.sample({"batch": bname, "life_cycle": describe_lc(c, out)}, limit=14)
                continue
            if is_fn_case(c):
                chk.count_case(c, bool(out) and out not in ([-999], [-998]))
                lcount["HistoryLines(fn)"] = lcount.get("HistoryLines(fn)", 0) + 1
                if extra and extra.get("fn_oracle"):
                    oracle_bad.add(i)
                    chk.violation("oracle", "%s  [%s]" % (extra["fn_oracle"], describe_fn(c, out)),
                                  {"family": "history-lines-list", "at": "HistoryLines"},
                                  {"case": c, "clause": extra["fn_oracle"],
                                   "how": "harness/c15.py hl_fn_impl: real Buffer, _working_lines set, start_history_lines_completion()"})
                if i % 1999 == 1:
                    chk.sample({"batch": bname, "fn": describe_fn(c, out)}, limit=12)
                continue
            if trace:
                c = cases[i] = [c[0], c[1], c[2], [g for g, _, _ in trace]]
            if out == [-998]:
                chk.violation("oracle", "the schedule hangs the event loop (watchdog)", {"family": "hang"}, {"case": c})
                oracle_bad.add(i)
            nontrivial = any(oa[1:7] != ob[1:7] or oa[8:] != ob[8:] for g, ob, oa in trace)
            chk.count_case(c, nontrivial)
            for g, ob, oa in trace:
                nm = LNAMES[g[-1][0]]
                lcount[nm] = lcount.get(nm, 0) + 1
            fv = first_violation(trace, c[0])
            if fv:
                j, (clause, tags) = fv
                oracle_bad.add(i)
                sched = [group_str(g) for g in c[3][:j + 1]]
                chk.violation("oracle", "%s  [config cwt/validator/vwt/suggest/max=%r text=%r cursor=%d schedule=%s -> %s]" % (
                    clause, c[0], unS(c[1]), c[2], " ; ".join(sched), describe_obs(trace[j][2])),
                    tags, {"case": [c[0], c[1], c[2], c[3][:j + 1]], "clause": clause, "schedule": sched,
                           "observed": describe_obs(trace[j][2]),
                           "how": "harness/c15.py run_on_impl: real Buffer + gated completer/validator/suggester under set_app(Application) on a private loop"})
            if i % 9973 == 1 and trace:
                chk.sample({"batch": bname, "config": c[0], "text": unS(c[1]), "cursor": c[2],
                            "schedule": [group_str(g) for g in c[3][:8]],
                            "last_observation": describe_obs(out[-1]) if out else None}, limit=8)
        model_results, nbad = correspondence(chk, "c15", cases, impl_results, tagger, describe=describe,
                                             oracle_failed=lambda i: i in oracle_bad)
        share = max(8, nvm // 9)
        for i in sorted(chk.rng.sample(range(len(cases)), min(share, len(cases)))):
            vm_pairs.append((cases[i], impl_results[i], sx_norm(impl_results[i]) == model_results[i]))
        del cases, impl_results, model_results
    # real threads: ThreadedCompleter / ThreadedValidator / ThreadedAutoSuggest (oracle only)
    import c15_threads
    nthr = 300 if chk.tier == "thorough" else 40
    for j in range(nthr):
        try:
            res = with_watchdog(lambda: c15_threads.run_scenario(Env.get(), chk.rng, 25), 90)
        except Hang:
            res = {"clause": "threaded scenario hangs (watchdog)", "family": "hang", "actions": []}
        chk.count_case([999, j, chk.seed], True)
        if res:
            chk.violation("oracle", "threaded wrappers: %s  [actions: %s]" % (res["clause"], " ".join(res["actions"])),
                          {"family": res["family"], "at": "threads"},
                          {"threaded": True, "actions": res["actions"], "clause": res["clause"],
                           "how": "harness/c15_threads.py run_scenario: Buffer with ThreadedCompleter/ThreadedValidator/ThreadedAutoSuggest "
                                  "around slow deterministic functions of the text; timing-dependent, re-run the stream to reproduce"})
    dist["threaded_stress_scenarios"] = nthr
    chk.coverage["input_distribution"] = dict(dist, labels_executed=lcount)

    # extraction/driver cross-check inside Coq on a sample
    bad, logs = vm_crosscheck(PROP, "run_C15", "Model.C15_Async", [(c, r) for c, r, _ in vm_pairs], per_file=75)
    chk.coverage["vm_compute_crosschecked"] = len(vm_pairs)
    if any(not isinstance(b, int) for b in bad):
        chk.violation("tie", "vm_compute cross-check failed to run: " + (logs[0] if logs else ""), {"kind": "vm"}, {"log": logs}, no_input=True)
    vm_bad = set(b for b in bad if isinstance(b, int))
    model_bad = set(i for i, (_, _, agreed) in enumerate(vm_pairs) if not agreed)
    if vm_bad != model_bad:
        d = sorted(vm_bad ^ model_bad)[:5]
        chk.violation("tie", "extracted model and in-Coq evaluation disagree on %d sampled case(s)" % len(vm_bad ^ model_bad),
                      {"kind": "extraction"}, {"cases": [vm_pairs[i][0] for i in d]}, no_input=True)

    proof_gate(chk, pr)
    chk.coverage["rule"] = (
        "case = (config, initial text/cursor, schedule); schedule = list of user actions on the Buffer and scheduler steps "
        "(loop iteration; completer yields c / ends; validate_async returns ok / raises; get_suggestion_async returns), run on a real Buffer "
        "(gated harness completer/validator/suggester, real Application via set_app, private stepped event loop) and on the Coq "
        "labelled transition system, compared after every step on text, cursor, complete_state (object identity, original document, "
        "completions with the document each was computed from, index), validation_state + source document, suggestion + source "
        "document, the three `running` closure flags and the in-flight calls. Exhaustive: every schedule of the listed depth per "
        "family in which each scheduler label is enabled; plus cycle schedules, the refutation witness, random schedules, malformed cases. "
        "Round 6: start_history_lines_completion is a model label (HistoryLines before after: the model computes the list from the "
        "working lines before + [text] + after, white space from the regenerated str.isspace table) inside the schedules, and a "
        "function-level family (working lines, text, cursor, working index -> completions with start_position and display_meta) "
        "exhaustive over texts <= 3/4 characters of {a, b, space, newline} x every cursor x 8 history windows plus random windows "
        "with every str.isspace character and near misses. "
        "Round 7: the producer-thread life cycle (Model/C15_Thread.v) is tied by gated scenarios on a real Buffer with ThreadedCompleter "
        "around a completer whose generator blocks at a gate before every item (start / cancel / type / let thread i compute one more item or "
        "finish), observed at quiescence: running flag, threads inside get_completions, runs started, menu, menu size. "
        "non-trivial = some step changed the observed state; distinct by hash of the whole case")
    chk.assumptions += [
        "code between two awaits runs atomically (asyncio single-threaded semantics); thread executors (ThreadedCompleter etc.) are outside the model (their hand-off is the det_run / dc_run hypothesis of C15_threaded_values / C15_threaded_completions)",
        "refresh_while_loading, on_* event handlers, invalidate() and the 0.3 s refresh timer are not modelled (they do not write the observed attributes)",
        "the real loop starts created tasks FIFO, all at the next iteration; the theorems also cover any other start order (StartTask i), which is not replayed",
        "the history window start_history_lines_completion reads is set by the harness on the real Buffer (_working_lines / working index) "
        "right before the call: how history loading and navigation fill it is C14's subject, the model takes it as an argument of the label",
        "C15_threaded_completions assumes the completer's items are a function of the document of the call (dc_run); the real-thread stream checks that on ThreadedCompleter",
        "life-cycle scenarios: quiescence is detected by a stability window (30 ms; a differing scenario is re-run with 400 ms before it is reported); "
        "the queue bound of generator_to_async_generator (back-pressure) and max_number_of_completions are not in the life-cycle model",
        "history navigation, undo, selection and the Buffer methods not named in Model/C15_Async.v's label type are outside the label alphabet "
        "(synchronous validate(), validate_and_handle and reset() are inside: labels Validate, ValidateAndHandle, Reset)",
    ]
    return chk.finish()


def replay(data):
    rep = data["replay"]
    if rep.get("threaded"):
        import random
        import c15_threads
        print("threaded scenario (timing dependent); recorded:", rep["clause"], rep["actions"])
        rng = random.Random(0)
        for j in range(200):
            res = with_watchdog(lambda: c15_threads.run_scenario(Env.get(), rng, 25), 90)
            if res:
                print("re-run %d: ORACLE FAILS: %s  [actions: %s]" % (j, res["clause"], " ".join(res["actions"])))
                return 1
        print("200 fresh threaded scenarios: oracle ok")
        return 0
    case = rep["case"]
    if is_lc_case(case):
        out, _, extra = impl_case(case, window=0.2)
        print(describe_lc(case, out))
        bad = extra and extra.get("lc_oracle")
        print("ORACLE FAILS: " + bad if bad else "oracle ok")
        m = run_model("c15", [case])[0]
        print("model agrees" if m == sx_norm(out) else "model differs: %r" % (m,))
        return 1 if bad else 0
    if is_fn_case(case):
        out, _, extra = impl_case(case)
        print(describe_fn(case, out))
        bad = extra and extra.get("fn_oracle")
        print("ORACLE FAILS: " + bad if bad else "oracle ok")
        m = run_model("c15", [case])[0]
        print("model agrees" if m == sx_norm(out) else "model differs: %r" % (m,))
        return 1 if bad else 0
    if not valid_case(case):
        print("malformed case: implementation not run; model answers", run_model("c15", [case])[0])
        return 0
    out, trace, _ = impl_case(case)
    rc = 0
    print("config cwt/validator/vwt/suggest/max = %r  text=%r cursor=%d" % (case[0], unS(case[1]), case[2]))
    for g, ob, oa in trace:
        bad = oracle_step(g, ob, oa, case[0])
        print("  %-34s -> %s   %s" % (group_str(g), describe_obs(oa), "ORACLE FAILS: " + bad[0] if bad else "oracle ok"))
        if bad:
            rc = 1
            break
    m = run_model("c15", [case])[0]
    print("model agrees" if m == sx_norm(out) else "model differs")
    return rc
