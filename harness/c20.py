"""C20 - output printed from any thread appears once, in order, outside the prompt.
Model: coq/Model/C20_StdoutProxy.v (LTS); theorems: coq/Props/C20.v.

Tie: schedules (label lists) are enumerated / random-walked FROM THE MODEL
(mode 1 of run_C20 answers which labels are enabled), replayed label by label
on a real StdoutProxy + Application (harness/c20_rig.py) and the observation
after every step is compared with the model's; an independent oracle checks
the property text on the implementation's own terminal trace; free-running
stress runs are judged by the oracle only."""
import threading
import time

from common import *  # noqa
import c20_rig

PROP = "C20"
TABLES = []
MODELS = [("c20", "Extract/ExC20.v", "run_C20")]

LNAME = {1: "W", 2: "Flush", 3: "Close", 4: "FGet", 5: "FNowait", 6: "FChoose", 7: "FDeliver",
         8: "AppStart", 9: "AppExit", 10: "AppStop", 11: "LoopClose", 12: "LoopStep", 13: "Render",
         14: "ExtBegin", 15: "ExtEnd", 16: "Wake", 17: "CprAnswer", 18: "CprTimeout", 22: "AppDone"}
LIFECYCLE = (8, 9, 10, 11)


def show_label(l):
    if l[0] == 1:
        return "W%d(%r)" % (l[1], unS(l[2]))
    if l[0] == 2:
        return "Flush%d" % l[1]
    if l[0] == 16:
        return "Wake%d" % l[1]
    return LNAME.get(l[0], "?%r" % (l,))


def show(labels):
    return " ".join(show_label(l) for l in labels)


# --------------------------------------------------------------------------
# schedules from the model

class Walk:
    """A partially built schedule: per-thread programs still to run + budgets."""

    def __init__(self, programs, scenario, ctx, budget):
        self.programs = programs        # list of lists of ("w", text) / ("f",)
        self.pos = [0] * len(programs)
        self.scenario = scenario
        self.ctx = ctx
        self.labels = []
        self.budget = dict(budget)      # label kind -> how many more
        self.closed = False
        self.dead = False

    def clone(self):
        w = Walk(self.programs, self.scenario, self.ctx, self.budget)
        w.pos = list(self.pos)
        w.labels = list(self.labels)
        w.closed = self.closed
        return w

    def in_window(self):
        """between AppDone (exit() called) and AppExit (run_async resumed): everything there
        happens in one or two loop iterations, only callbacks already on the loop can run"""
        for l in reversed(self.labels):
            if l[0] == 22:
                return True
            if l[0] != 12:
                return False
        return False

    def candidates(self):
        if self.in_window():
            return [[12], [9]]
        c = []
        for t, prog in enumerate(self.programs):
            if self.pos[t] < len(prog):
                op = prog[self.pos[t]]
                c.append([1, t, S(op[1])] if op[0] == "w" else [2, t])
        wl = [l for l in self.labels if l[0] in (1, 2)]
        tidy = all(p >= len(g) for p, g in zip(self.pos, self.programs)) and bool(wl) and wl[-1][0] == 2
        if not self.closed and (tidy or self.budget.get("early_close")):
            c.append([3])
        c += [[4], [5], [6], [7]]
        if self.scenario != "noapp":
            c += [[12], [16, 0]]
            for k in (13, 14, 15):
                if self.budget.get(k, 0) > 0 or k == 15:
                    c.append([k])
        if self.scenario != "noapp" and (self.ctx & 2):
            c += [[17], [18]]
        if self.scenario == "lifecycle":
            for k in LIFECYCLE + (22,):
                if self.budget.get(k, 0) > 0 or k == 10:
                    c.append([k])
        return c

    def take(self, lab):
        self.labels.append(lab)
        if lab[0] in (1, 2):
            self.pos[lab[1]] += 1
        elif lab[0] == 3:
            self.closed = True
            self.budget["early_close"] = 0
        elif lab[0] in self.budget:
            self.budget[lab[0]] -= 1


def forced(enabled_labels, labels_so_far):
    """asyncio does these by itself as soon as they are possible; the replay
    cannot hold them back, so schedules take them at once."""
    for l in enabled_labels:
        if l[0] == 16:
            return l
    for l in enabled_labels:
        if l[0] == 10:
            return l
    return None


def forced_for(w, enabled_labels):
    """... and, when the application is run asyncio.run-style (cfg bit 2), the
    loop is closed as soon as run_async has returned."""
    if (w.ctx & 4) and w.labels and w.labels[-1][0] == 10:
        return [11]
    return forced(enabled_labels, w.labels)


def query_enabled(walks):
    cases = []
    cands = []
    for w in walks:
        c = w.candidates()
        cands.append(c)
        cases.append([1, int(w.ctx), w.labels, c])
    res = run_model("c20", cases)
    out = []
    for w, c, r in zip(walks, cands, res):
        if not (isinstance(r, list) and len(r) == 2 and isinstance(r[1], list) and len(r[1]) == len(c)):
            raise SystemExit("model enabled-query failed: %r" % (r,))
        out.append([l for l, e in zip(c, r[1]) if e == 1])
    return out


def explore(rng, start, depth, cap):
    """All schedules of `depth` labels from the model (sampled down to `cap`
    per level when there are more)."""
    frontier = [start]
    done = []
    for _ in range(depth):
        if not frontier:
            break
        en = query_enabled(frontier)
        nxt = []
        for w, labs in zip(frontier, en):
            f = forced_for(w, labs)
            if f is not None:
                labs = [f]
            if not labs:
                done.append(w)
                continue
            for l in labs:
                w2 = w.clone()
                w2.take(l)
                nxt.append(w2)
        if len(nxt) > cap:
            nxt = rng.sample(nxt, cap)
        frontier = nxt
    return close_forced(done + frontier)


def close_forced(walks):
    """Never end a schedule where asyncio would at once do a forced step."""
    for _ in range(4):
        live = [w for w in walks if w.labels]
        if not live:
            break
        en = query_enabled(live)
        any_f = False
        for w, labs in zip(live, en):
            f = forced_for(w, labs)
            if f is not None:
                w.take(f)
                any_f = True
        if not any_f:
            break
    return walks


def random_walks(rng, starts, depth, weights):
    walks = list(starts)
    live = list(walks)
    for _ in range(depth):
        if not live:
            break
        en = query_enabled(live)
        nl = []
        for w, labs in zip(live, en):
            f = forced_for(w, labs)
            if f is not None:
                w.take(f)
                nl.append(w)
                continue
            if not labs:
                continue
            ws = [weights.get(l[0], 1.0) for l in labs]
            w.take(rng.choices(labs, ws)[0])
            nl.append(w)
        live = nl
    return close_forced(walks)


def drive_scripts(items):
    """items: list of (walk, script).  Take the script's labels in order where the
    model enables them (skipping those it does not), and every forced step."""
    live = [(w, list(sc)) for w, sc in items]
    for _ in range(400):
        act = [(w, sc) for w, sc in live if sc]
        if not act:
            break
        en = query_enabled([w for w, _ in act])
        for (w, sc), labs in zip(act, en):
            f = forced_for(w, labs)
            if f is not None:
                w.take(f)
                continue
            nxt = sc.pop(0)
            if nxt in labs or nxt[0] in (1, 2):
                w.take(nxt)
    return close_forced([w for w, _ in live])


def shutdown_chain_walks(rng, n):
    """The family 'prints keep arriving while the application shuts down': a
    section blocks the chain (a foreign in_terminal section, or a print waiting
    for a cursor position report), the application exits, k more bundles are
    chained behind it, the blocker ends, run_async returns and - asyncio.run
    style - the loop is closed at once."""
    items = []
    for _ in range(n):
        k_before = rng.choice([0, 0, 1, 2])
        k_after = rng.randint(2, 9)
        cfg = rng.choice([5, 5, 7, 7, 4, 1, 3])
        texts = ["%s\n" % chr(ord("a") + i) for i in range(k_before + k_after)]
        nthreads = rng.choice([1, 1, 2])
        progs = [[] for _ in range(nthreads)]
        script = [[8]]
        use_ext = not (cfg & 2) or rng.random() < 0.5
        if use_ext:
            script.append([14])
            if cfg & 2:
                script.append(rng.choice([[17], [18]]))

        def bundle(i):
            t = i % nthreads
            progs[t].append(("w", texts[i]))
            return [[1, t, S(texts[i])], [4], [5], [6], [7], [12]]
        for i in range(k_before):
            script += bundle(i)
        script.append([9])
        for i in range(k_before, k_before + k_after):
            script += bundle(i)
            if rng.random() < 0.15:
                script.append([13])
        if use_ext:
            script.append([15])
        if cfg & 2:
            script += [rng.choice([[17], [18]]), [18]]
        script += [[2, 0], [3], [4], [5], [4]]
        progs[0].append(("f",))
        w = Walk(progs, "lifecycle", cfg, {8: 1, 9: 1, 11: 1, 13: 3, 14: 1})
        items.append((w, script))
    return drive_scripts(items)


def exit_window_walks(rng, n):
    """The window between Application.exit() (is_done) and run_async resuming (_is_running still
    True): m callbacks are on the loop when exit() is called in the same iteration; their
    run-in-terminal sections run inside the window (bracketed, redrawn, but no cursor position
    request - the request is keyed on is_done)."""
    items = []
    for _ in range(n):
        cfg = rng.choice([3, 3, 3, 7, 1, 5, 2])
        k_before = rng.choice([0, 1, 2])
        m = rng.randint(1, 3)
        texts = ["%s\n" % chr(ord("a") + i) for i in range(k_before + m + 1)]
        nthreads = rng.choice([1, 2])
        progs = [[] for _ in range(nthreads)]
        script = [[8]]
        if cfg & 2 and rng.random() < 0.8:
            script.append([17])

        def bundle(i, step=True):
            t = i % nthreads
            progs[t].append(("w", texts[i]))
            return [[1, t, S(texts[i])], [4], [5], [6], [7]] + ([[12]] if step else [])
        for i in range(k_before):
            script += bundle(i)
            if cfg & 2 and rng.random() < 0.5:
                script.append([17])
        for i in range(k_before, k_before + m):
            script += bundle(i, step=False)
        script += [[22]] + [[12]] * m + [[9]]
        if cfg & 2:
            script += [[18], [18]]
        script += bundle(k_before + m)
        script += [[12], [2, 0], [3], [4], [5], [4]]
        progs[0].append(("f",))
        w = Walk(progs, "lifecycle", cfg, {8: 1, 9: 1, 22: 1, 11: 1})
        items.append((w, script))
    return drive_scripts(items)


TEXTS = ["a\n", "b", "", "c\nd", "\n", "e\n\nf", "gh\n", "\x1b[0;1mz\x1b\n", "\x1bc"]


def thread_text(t, s):
    """The same shapes for every thread, but in the thread's own letters, so that the
    oracle's interleaving search cannot re-parse one thread's text as another's."""
    if t == 0:
        return s
    if t == 1:
        return s.upper()
    return "".join(chr(ord(c) + 8 * (t - 1)) if "a" <= c <= "h" else c for c in s)


def rand_program(rng, nthreads, nops):
    progs = []
    for t in range(nthreads):
        p = []
        for _ in range(rng.randint(1, nops)):
            if rng.random() < 0.15:
                p.append(("f",))
            else:
                p.append(("w", thread_text(t, rng.choice(TEXTS))))
        progs.append(p)
    return progs


def mark_reports(labels):
    """A step is observed unless asyncio will at once do the next (forced) one."""
    steps = []
    window = False
    for i, l in enumerate(labels):
        nxt = labels[i + 1] if i + 1 < len(labels) else None
        rep = 0 if (nxt is not None and nxt[0] in (16, 10)) else 1
        if l[0] == 22:
            window = True
        elif l[0] != 12:
            window = False
        if window:
            rep = 0      # the exit()..resume window runs in one go
        if l[0] == 9:
            rep = 0 if (nxt is None or nxt[0] == 10) else 1
        steps.append([l, rep])
    return steps


def gen_schedules(chk):
    rng = chk.rng
    thorough = chk.tier == "thorough"
    scheds = []     # (ctx, labels, origin)
    dist = {}

    def add(ws, origin):
        for w in ws:
            if w.labels:
                scheds.append((w.ctx, w.labels, origin))
                dist[origin] = dist.get(origin, 0) + 1

    cap = 2500 if thorough else 150
    depth = 9 if thorough else 8
    # exhaustive small scopes: 2 writers, one write each; 1 writer two writes with a split line
    small = [
        [[("w", "a\n")], [("w", "b\n")]],
        [[("w", "x"), ("w", "y\nz")], [("w", "B\n")]],
        [[("w", "p\nq")], [("w", "r"), ("f",)]],
    ]
    for progs in small:
        add(explore(rng, Walk(progs, "noapp", 1, {}), depth, cap), "exhaustive-noapp")
        w = Walk(progs, "running", 1, {13: 1, 14: 1})
        w.take([8])
        add(explore(rng, w, depth + 1, cap), "exhaustive-running")
    w = Walk(small[0], "running", 0, {})
    w.take([8])
    add(explore(rng, w, depth, cap // 2), "exhaustive-running-other-session")
    # escape sequences in the text: Output.write shows ESC as "?" (raw=False), write_raw passes it on (raw=True)
    esc = [[("w", "\x1b[1mx\n")], [("w", "Y\x1b"), ("f",)]]
    for cfg in (1, 9):
        add(explore(rng, Walk(esc, "noapp", cfg, {}), depth, cap // 3), "exhaustive-escape")
        w = Walk(esc, "running", cfg, {})
        w.take([8])
        add(explore(rng, w, depth + 1, cap // 3), "exhaustive-escape")
    w = Walk(small[0], "lifecycle", 1, {8: 1, 9: 1, 11: 1, 14: 1})
    add(explore(rng, w, depth + 1, cap), "exhaustive-lifecycle")
    # outputs that answer cursor position requests: a print waits for the outstanding report
    for progs, budget in ((small[0], {13: 1, 9: 1}), ([[("w", "a\n"), ("w", "b\n")]], {13: 1, 9: 1, 14: 1})):
        w = Walk(progs, "lifecycle", 3, dict(budget))
        w.take([8])
        add(explore(rng, w, depth + 3, cap), "exhaustive-cpr")
    # random deep walks
    n = 900 if thorough else 110
    wt_flush = {4: 3.0, 5: 3.0, 6: 3.0, 7: 3.0, 12: 3.0, 15: 2.0, 17: 1.5, 18: 0.7}
    starts = [Walk(rand_program(rng, rng.randint(1, 4), 4), "noapp", rng.choice([1, 1, 9]), {"early_close": rng.random() < 0.2})
              for _ in range(n)]
    add(random_walks(rng, starts, 60, wt_flush), "random-noapp")
    starts = []
    for _ in range(n):
        w = Walk(rand_program(rng, rng.randint(1, 4), 4), "running", rng.choice([1, 1, 3, 3, 2, 9, 11, 8]), {13: 2, 14: 2})
        w.take([8])
        starts.append(w)
    add(random_walks(rng, starts, 70, wt_flush), "random-running")
    starts = []
    for _ in range(n):
        w = Walk(rand_program(rng, rng.randint(1, 3), 4), "lifecycle", rng.choice([1, 1, 3, 3, 0, 2, 9, 11]),
                 {8: 2, 9: 2, 11: 1, 13: 1, 14: 1, 22: 1, "early_close": rng.random() < 0.1})
        starts.append(w)
    add(random_walks(rng, starts, 70, {**wt_flush, 8: 2.0, 9: 0.6, 11: 0.4, 22: 0.5}), "random-lifecycle")
    add(shutdown_chain_walks(rng, 250 if thorough else 40), "shutdown-chain")
    add(exit_window_walks(rng, 200 if thorough else 40), "exit-window")
    return scheds, dist


# --------------------------------------------------------------------------
# implementation runner

def nwriters_of(labels):
    return 1 + max([l[1] for l in labels if l[0] in (1, 2)] + [-1])


def replay_schedule(ctx, labels, complete=True):
    """-> (canonical result like the model's, info dict for the oracle)"""
    steps = mark_reports(labels)
    rig = c20_rig.Rig(bool(ctx & 1), True, nwriters_of(labels), cpr=bool(ctx & 2), runstyle=bool(ctx & 4),
                      raw=bool(ctx & 8))
    obs = []
    status = None
    try:
        skip = 0
        for i, (l, rep) in enumerate(steps):
            if skip:
                skip -= 1      # LoopSteps of an exit()..resume window, already done by do_window
                if rep:
                    obs.append(rig.obs())
                continue
            try:
                if l[0] == 22:
                    n = 0
                    while i + 1 + n < len(steps) and steps[i + 1 + n][0][0] == 12:
                        n += 1
                    rig.do_window(n)
                    skip = n
                else:
                    rig.do(l)
            except c20_rig.RigTimeout as e:
                status = "timeout at %s: %s" % (show_label(l), e)
                break
            except BaseException as e:  # noqa
                status = "exception at %s: %r" % (show_label(l), e)
                break
            if rep:
                obs.append(rig.obs())
        fin = rig.final()
        before = len(rig.events)
        problems = rig.finish(complete=complete)
    except BaseException:
        rig.teardown()
        raise
    info = {"events": list(rig.events), "events_at_schedule_end": before, "lost": list(rig.lost),
            "crashed": list(rig.crashed), "problems": problems, "status": status,
            "leaked": rig.leaked_threads(), "flags": sorted(rig.flags),
            "raced": list(rig.raced), "handed": list(rig.handed), "host_error": repr(rig.host.error) if rig.host.error else None}
    result = [obs, fin] if status is None else [obs, fin, S(status)]
    return result, info


# --------------------------------------------------------------------------
# oracle: the property text on the implementation's own trace

def interleaving_ok(out, per_thread):
    """Is `out` a concatenation of whole write texts in which each thread's
    texts keep their order?"""
    n = len(per_thread)
    start = tuple(0 for _ in range(n))
    seen = {(start, 0)}
    todo = [(start, 0)]
    total = sum(len(t) for p in per_thread for t in p)
    if len(out) != total:
        return False
    while todo:
        idx, pos = todo.pop()
        if pos == len(out) and all(idx[t] == len(per_thread[t]) for t in range(n)):
            return True
        for t in range(n):
            if idx[t] < len(per_thread[t]):
                tx = per_thread[t][idx[t]]
                if out.startswith(tx, pos):
                    st = (idx[:t] + (idx[t] + 1,) + idx[t + 1:], pos + len(tx))
                    if st not in seen:
                        seen.add(st)
                        todo.append(st)
    return False


FLUSH_THREAD = "patch-stdout-flush-thread"


def unbracketed_events(events):
    """The write events the bracket clause of the oracle objects to."""
    bad = []
    erased = False
    for e in events:
        if e[0] == "e":
            erased = True
        elif e[0] == "r":
            erased = False
        elif e[0] == "w" and (e[4] or (e[2] and not (e[3] and erased))):
            bad.append(e)
    return bad


def _remove_multiset(seq, rem):
    from collections import Counter
    c = Counter(rem)
    out = []
    for x in seq:
        if c[x] > 0:
            c[x] -= 1
        else:
            out.append(x)
    return out


def race_explains(fam, events, per_thread, lost, raced, handed, order_ok):
    """Is THIS failure the known start/stop race (F3a/b/c), not merely a failure in a
    schedule that contains such a race?
      unbracketed-write: every offending write was made by the flush thread itself (it chose
                         'no application' and wrote directly - the start race);
      lost:              the missing characters are exactly the batches that sat on a loop
                         when that loop was closed;
      reorder:           the terminal got exactly the batches that were handed over, the
                         hand-over order is a correct interleaving, and the only batches out of
                         hand-over order are the ones handed to (or left on) a loop nobody ran."""
    from collections import Counter
    if fam == "unbracketed-write":
        ev = unbracketed_events(events)
        return bool(ev) and all(e[5] == FLUSH_THREAD for e in ev)
    out_texts = [e[1] for e in events if e[0] == "w"]
    if fam == "lost":
        want = Counter("".join(t for p in per_thread for t in p))
        got = Counter("".join(out_texts))
        return bool(lost) and not (got - want) and (want - got) == Counter("".join(lost))
    if fam in ("reorder", "split"):
        if not raced or Counter(out_texts) != Counter(handed):
            return False
        if _remove_multiset(out_texts, raced) != _remove_multiset(handed, raced):
            return False
        return order_ok("".join(handed))
    return False


def cause_of(ctx, labels, fam=None, flags=(), explained=True):
    """Which circumstance of the schedule explains a failure of family `fam`
    (used only to tell known findings apart).  `lifecycle-race` is given only
    when the schedule contains a start/stop race AND `explained` (race_explains)."""
    chosen = False
    ext_open = 0
    race = "stop-with-pending-callback" in flags
    exit_in_term = False
    for l in labels:
        if l[0] == 6:
            chosen = True
        elif l[0] == 7:
            chosen = False
        elif l[0] in (8, 10, 11) and chosen:     # AppExit alone leaves the chosen loop valid
            race = True
        if l[0] == 14:
            ext_open += 1
        elif l[0] == 15:
            ext_open = max(0, ext_open - 1)
        elif l[0] == 9 and ext_open > 0:
            exit_in_term = True
    started = any(l[0] == 8 for l in labels)
    stopped = sum(1 for l in labels if l[0] == 10) >= sum(1 for l in labels if l[0] == 8)
    if chosen and started and not stopped:
        race = True     # finishing the run stops the application before the deliver
    if race and explained:
        return "lifecycle-race"
    if exit_in_term:
        return "exit-while-in-terminal"
    if not (ctx & 1):
        return "other-session"
    return "none"


def oracle_trace(events, per_thread, complete, early_close=False, raw=False):
    """-> list of (family, message).  `per_thread`: texts each writer wrote, in
    its own order.  `complete`: the run was flushed, closed and drained."""
    bad = []
    # what the TERMINAL received: text written to the Output object and flushed.  Text still in
    # the Output's buffer at the end of a complete run is its own failure; the remaining clauses
    # then judge what the terminal would show once that buffer is flushed (the buffer is FIFO).
    term, pend = c20_rig.flushed_text(events)
    out = term + pend
    if complete and pend:
        bad.append(("never-flushed", "text %r was written to the Output object but never flushed: it did not reach "
                    "the terminal (terminal text %r)" % (pend, term)))
    erased = False
    for e in events:
        if e[0] == "e":
            erased = True
        elif e[0] == "r":
            erased = False
        elif e[0] == "w":
            # the characters handed to the Output object arrive in its buffer unchanged, except
            # that Output.write (raw=False) shows an ESC as "?"
            want_bytes = e[1] if raw else e[1].replace("\x1b", "?")
            if e[6] is not None and e[6] != want_bytes:
                bad.append(("bytes-changed", "text %r (StdoutProxy(raw=%s)) arrived in the Output's buffer as %r, expected %r"
                            % (e[1], raw, e[6], want_bytes)))
            run, interm, in_render = e[2], e[3], e[4]
            if in_render:
                bad.append(("unbracketed-write", "text %r written while the renderer was drawing" % (e[1],)))
            elif run and not (interm and erased):
                bad.append(("unbracketed-write",
                            "text %r written while the application runs, outside erase..redraw "
                            "(_running_in_terminal=%s, erased=%s, thread %s)" % (e[1], interm, erased, e[5])))
    want = sorted("".join(t for p in per_thread for t in p))
    got = sorted(out)
    if complete and not early_close:
        if got != want:
            from collections import Counter
            cw, cg = Counter(want), Counter(got)
            if cg - cw:
                bad.append(("duplicated", "characters written more often than handed in: %r" % (dict(cg - cw),)))
            if cw - cg:
                bad.append(("lost", "characters never written: %r (terminal text %r)" % (dict(cw - cg), out)))
        elif not interleaving_ok(out, per_thread):
            bad.append(("reorder", "terminal text %r is not an order-preserving interleaving of whole write calls %r"
                        % (out, per_thread)))
    else:
        from collections import Counter
        cw, cg = Counter(want), Counter(got)
        if cg - cw:
            bad.append(("duplicated", "characters written more often than handed in: %r" % (dict(cg - cw),)))
    return bad


def per_thread_texts(labels):
    n = nwriters_of(labels)
    per = [[] for _ in range(n)]
    for l in labels:
        if l[0] == 1:
            per[l[1]].append(unS(l[2]))
    return per


def writes_after_close(labels):
    """close() called before the last flush(): what is written or still
    buffered then is outside the property ('after a flush')."""
    last = None
    for l in labels:
        if l[0] == 3:
            if last != 2:
                return True
            last = 3
        elif l[0] in (1, 2):
            if last == 3:
                return True
            last = l[0]
    return False


# --------------------------------------------------------------------------
# free-running stress (oracle only)

def stress(chk, scenario, nthreads, nwrites, seed):
    import random as _r
    import sys as _sys
    old_si = _sys.getswitchinterval()
    _sys.setswitchinterval(1e-6)      # preempt as often as CPython can
    try:
        return _stress(chk, scenario, nthreads, nwrites, seed)
    finally:
        _sys.setswitchinterval(old_si)


def _stress(chk, scenario, nthreads, nwrites, seed):
    import random as _r
    rig = c20_rig.Rig(True, False, 0, sleep=0.002)
    stop_evt = threading.Event()
    per = [[] for _ in range(nthreads)]
    errors = []
    try:
        if scenario in ("running", "lifecycle"):
            rig._ev0 = 0
            rig.do([8])

        def writer(t):
            rr = _r.Random(seed * 131 + t)
            try:
                for i in range(nwrites):
                    k = rr.random()
                    tok = "<%d:%d>" % (t, i)
                    if scenario == "partial":
                        # partial-line pieces from most threads, whole lines from the last one,
                        # while a further thread flushes all the time
                        txt = tok + "\n" if t == nthreads - 1 else tok
                    else:
                        txt = tok + "\n" if k < 0.5 else (tok if k < 0.8 else tok + "\n" + "~")
                    per[t].append(txt)
                    rig.proxy.write(txt)
                    if scenario != "partial":
                        if k > 0.97:
                            rig.proxy.flush()
                        if i % 64 == 0:
                            time.sleep(0.0005)
            except BaseException as e:  # noqa
                errors.append(repr(e))
        def flusher():
            try:
                while not stop_evt.is_set():
                    rig.proxy.flush()
            except BaseException as e:  # noqa
                errors.append(repr(e))
        ths = [threading.Thread(target=writer, args=(t,), daemon=True) for t in range(nthreads)]
        fl = threading.Thread(target=flusher, daemon=True) if scenario == "partial" else None
        if fl:
            fl.start()
        for t in ths:
            t.start()
        if scenario == "lifecycle":
            # applications come and go on a user-managed loop while the writers run
            for _ in range(4):
                time.sleep(0.02)
                rig.do([9])
                rig.do([10])
                time.sleep(0.01)
                rig._ev0 = len(rig.events)
                rig.do([8])
        for t in ths:
            t.join(60)
            if t.is_alive():
                errors.append("writer thread stuck")
        stop_evt.set()
        if fl:
            fl.join(10)
        problems = rig.finish(complete=True)
    except BaseException as e:  # noqa
        rig.teardown()
        errors.append("stress rig: %r" % (e,))
        problems = []
    bad = []
    attrib = {}
    if not errors:
        pend = rig.unflushed_text()
        out = rig.out_text() + pend
        if pend:
            bad.append(("never-flushed", "%d characters were written to the Output object but never flushed "
                        "(they did not reach the terminal): %r" % (len(pend), pend[:60])))
        unb = unbracketed_events(rig.events)
        if unb:
            e = unb[0]
            bad.append(("unbracketed-write", "text %r written while the application runs, outside erase..redraw "
                        "(_running_in_terminal=%s, in render=%s, thread %s); %d such write(s)" % (e[1][:60], e[3], e[4], e[5], len(unb))))
        bad += token_analysis(out, per, nthreads)
        if scenario == "lifecycle":
            # which of these is the known start/stop race and nothing else (see race_explains).
            # Free-running, "handed to a loop that then stopped" cannot be seen at hand-over time;
            # its signature is: a batch handed to the loop is overtaken by a later batch that the
            # flush thread wrote directly (it only does that after it saw the application gone).
            wev = [e for e in rig.events if e[0] == "w"]
            pos = {}
            for k, e in enumerate(wev):
                pos.setdefault(e[1], k)
            hidx = {}
            for k, t in enumerate(rig.handed):
                hidx.setdefault(t, k)
            direct_pos = sorted((pos[e[1]], hidx.get(e[1], -1)) for e in wev if e[5] == FLUSH_THREAD and e[1] in hidx)
            overtaken = []
            for k, t in enumerate(rig.handed):
                if k < len(rig.handed_via_loop) and rig.handed_via_loop[k] and t in pos:
                    if any(p < pos[t] and h > k for p, h in direct_pos):
                        overtaken.append(t)
            for fam in set(f for f, _ in bad):
                if race_explains(fam, rig.events, per, rig.lost, rig.raced + overtaken, rig.handed,
                                 lambda text: not token_analysis(text, per, nthreads)):
                    attrib[fam] = {"unbracketed-write": "-start-race", "reorder": "-stop-race", "split": "-stop-race"}.get(fam, "")
    for p in problems:
        bad.append(("shutdown-problem", "finishing the run: " + p))
    if rig.crashed:
        bad.append(("flush-thread-died", repr(rig.crashed[:2])))
    for e in errors:
        bad.append(("harness", e))
    if rig.unlocked:
        bad.append(("unlocked-buffer-access",
                    "_buffer touched by a thread that does not hold _lock (a step the model does not have): %r" % (rig.unlocked[:3],)))
    return bad, {"scenario": scenario, "threads": nthreads, "writes": nwrites, "seed": seed,
                 "leaked": rig.leaked_threads(), "flags": sorted(rig.flags), "chars": sum(len(t) for p in per for t in p),
                 "attrib": attrib}


def token_analysis(out, per, nthreads):
    """Tokens <t:i> make the parse unique.  Three independent clauses: every thread's
    tokens 0,1,2.. in order (reorder / duplicated), the character multiset (lost /
    duplicated), and every write call's text in one piece at its token (split)."""
    import re
    bad = []
    nxt = [0] * nthreads
    for m in re.finditer(r"<(\d+):(\d+)>", out):
        t, i = int(m.group(1)), int(m.group(2))
        if t >= nthreads:
            continue
        if i != nxt[t]:
            bad.append(("reorder", "thread %d: token %d seen where %d was due" % (t, i, nxt[t])))
            break
        nxt[t] = i + 1
    want = "".join(t for p in per for t in p)
    if sorted(out) != sorted(want):
        bad.append(("lost" if len(out) < len(want) else "duplicated",
                    "terminal has %d characters, %d were written" % (len(out), len(want))))
    for m in re.finditer(r"<(\d+):(\d+)>", out):
        t, i = int(m.group(1)), int(m.group(2))
        if t < nthreads and i < len(per[t]) and not out.startswith(per[t][i], m.start()):
            bad.append(("split", "the text of write call %r is split by other text: %r" % (
                per[t][i], out[max(0, m.start() - 20):m.start() + 40])))
            break
    return bad


def patch_exit_probe(seed, rounds):
    """The patch_stdout() context manager itself, with a second thread printing
    across its exit and a slow terminal: every character printed through
    sys.stdout while it WAS the proxy (still the proxy when the call returned)
    must be written.  (Model: LPW/LRestore/LClose, C20_patch_stdout_*.)
    Oracle only."""
    import io
    import random as _r
    import sys as _sys
    from prompt_toolkit.application import create_app_session
    from prompt_toolkit.input import DummyInput
    from prompt_toolkit.output import DummyOutput
    from prompt_toolkit.patch_stdout import StdoutProxy, patch_stdout

    class Slow(DummyOutput):
        def __init__(self):
            self.chunks = []

        def write(self, data):
            self.chunks.append(data)
            time.sleep(0.0005)

        def write_raw(self, data):
            self.chunks.append(data)
            time.sleep(0.0005)

    rr = _r.Random(seed)
    bad = []
    old_si = _sys.getswitchinterval()
    real_out, real_err = _sys.stdout, _sys.stderr
    for rnd in range(rounds):
        out = Slow()
        counted = []
        stop = threading.Event()
        started = threading.Event()

        def printer():
            i = 0
            while not stop.is_set():
                s = _sys.stdout
                tok = "<%d>\n" % i
                if i % 3 == 0:
                    tok = "<%d>" % i
                s.write(tok)
                if isinstance(s, StdoutProxy) and _sys.stdout is s:
                    counted.append(tok)
                i += 1
                started.set()
                if i % 16 == 0:
                    time.sleep(0.0002)
        t = threading.Thread(target=printer, daemon=True)
        _sys.stdout = _sys.stderr = io.StringIO()      # what patch_stdout() hands back
        try:
            _sys.setswitchinterval(1e-6)
            with create_app_session(input=DummyInput(), output=out):
                with patch_stdout():
                    t.start()
                    started.wait(5)
                    time.sleep(rr.choice([0.002, 0.01, 0.03]))
                stop.set()
                t.join(10)
        finally:
            _sys.setswitchinterval(old_si)
            _sys.stdout, _sys.stderr = real_out, real_err
        if t.is_alive():
            bad.append(("harness", "printer thread stuck"))
            break
        text = "".join(out.chunks)
        # a trailing partial line may legitimately still sit in _buffer: compare up to the last newline counted
        want = "".join(counted)
        want = want[:want.rfind("\n") + 1]
        if not text.startswith(want):
            k = 0
            while k < min(len(text), len(want)) and text[k] == want[k]:
                k += 1
            bad.append(("lost", "thread B prints through sys.stdout while thread A leaves `with patch_stdout():` "
                                "(round %d): %d characters printed while sys.stdout was the proxy, the terminal got %d; "
                                "first difference at %d: expected %r, got %r" % (
                                    rnd, len(want), len(text), k, want[k:k + 30], text[k:k + 30])))
            break
    return bad, {"scenario": "patch-exit", "rounds": rounds, "seed": seed, "leaked": []}


def render_fault_probe():
    """A redraw of the prompt that raises once right after a patched print (a
    widget callback failing) must not stop later prints: in_terminal resolves
    the chain future in an inner `finally` (the model's start_sec marks the
    section done unconditionally).  Oracle only."""
    rig = c20_rig.Rig(True, False, 1, sleep=0.0)
    rig.run_app_kwargs = {"set_exception_handler": False}
    bad = []
    seen = lambda t: any(e[0] == "w" and t in e[1] for e in rig.events)  # noqa
    try:
        rig.do([8])
        rig.writers[0].do(("w", "first\n"))
        rig._poll(lambda: seen("first\n"), "'first' not emitted")
        rig.settle()
        rig.fail_next_render = True
        rig.writers[0].do(("w", "second\n"))
        rig._poll(lambda: seen("second\n") and rig.render_failures == 1, "'second' not emitted / fault not taken")
        rig.settle()
        rig.writers[0].do(("w", "third\n"))
        try:
            rig._poll(lambda: seen("third\n"), "", timeout=3.0)
        except c20_rig.RigTimeout:
            bad.append(("lost", "print 'first', make the redraw after the next print raise once, print 'second', print 'third': "
                                "'third' never reaches the terminal (terminal text %r)" % (rig.out_text(),)))
    except BaseException as e:  # noqa
        bad.append(("harness", "render-fault probe: %r" % (e,)))
    problems = rig.finish(complete=True)
    for p in problems:
        bad.append(("shutdown-problem", "render-fault probe, finishing: " + p))
    if not bad and rig.out_text() != "first\nsecond\nthird\n":
        bad.append(("reorder", "render-fault probe: terminal text %r" % (rig.out_text(),)))
    return bad, {"scenario": "render-fault", "leaked": rig.leaked_threads()}


# --------------------------------------------------------------------------

def judge_schedule(chk, ctx, labels, origin, info):
    """Oracle on one replayed schedule; returns True when it failed."""
    per = per_thread_texts(labels)
    early = writes_after_close(labels)
    bad = oracle_trace(info["events"], per, True, early_close=early, raw=bool(ctx & 8))
    if any(n == "patch-stdout-flush-thread" for n, _ in info["crashed"]):
        bad.append(("flush-thread-died", "the flush thread died: %s" % (info["crashed"][0][1],)))
    for p in info["problems"]:
        bad.append(("shutdown-problem", "finishing the run: " + p))
    seen = set()
    for fam, msg in bad:
        if fam in seen:
            continue
        seen.add(fam)
        expl = race_explains(fam, info["events"], per, info["lost"], info.get("raced", []), info.get("handed", []),
                             lambda text: interleaving_ok(text, per))
        cause = cause_of(ctx, labels, fam, info.get("flags", ()), explained=expl)
        chk.violation("oracle", "%s [%s; proxy in %s session] schedule: %s" % (
            msg, origin, ("the default" if ctx & 1 else "a create_app_session()") + (", output answering CPR" if ctx & 2 else "") + (", StdoutProxy(raw=True)" if ctx & 8 else ""), show(labels)),
            {"family": fam, "cause": cause},
            {"ctx_default": int(ctx), "labels": labels, "family": fam, "clause": msg,
             "how": "harness/c20.py replay_schedule: real StdoutProxy/Application driven label by label"})
    return bool(bad)


def main(tier):
    chk = Check(PROP, tier)
    pr = chk.proofs("Props/C20.v", tables=TABLES)
    okm, logm = build_model("c20", "Extract/ExC20.v", "run_C20", tables=TABLES)
    if not okm:
        chk.violation("tie", "model does not build: " + logm[-400:], {"kind": "model-build"}, {"log": logm[-3000:]}, no_input=True)
        return chk.finish()

    scheds, dist = gen_schedules(chk)
    corpus = load_corpus(PROP)
    for c in corpus:
        scheds.insert(0, (c[1], [st[0] for st in c[2]], "corpus"))
    cases, impl_results = [], []
    oracle_bad = set()
    leaked = 0
    t_replay = time.time()
    for i, (ctx, labels, origin) in enumerate(scheds):
        case = [0, int(ctx), mark_reports(labels)]
        try:
            res, info = with_watchdog(lambda: replay_schedule(ctx, labels), 60)
        except Hang:
            res, info = [[], [], S("hang")], None
        cases.append(case)
        impl_results.append(res)
        if info is None:
            chk.violation("oracle", "replay hung: " + show(labels), {"family": "hang", "cause": cause_of(ctx, labels)},
                          {"ctx_default": int(ctx), "labels": labels}, no_input=False)
            oracle_bad.add(i)
            continue
        leaked += len(info["leaked"])
        nontrivial = any(e[0] == "w" for e in info["events"])
        chk.count_case(case, nontrivial)
        if judge_schedule(chk, ctx, labels, origin, info):
            oracle_bad.add(i)
        if i % 211 == 0:
            chk.sample({"origin": origin, "schedule": show(labels), "terminal_text": c20_rig.flushed_text(info["events"])[0]})
    t_replay = time.time() - t_replay

    def tagger(c, a, m):
        labels = [st[0] for st in c[2]]
        return {"family": "model-differs", "cause": cause_of(c[1], labels)}

    correspondence(chk, "c20", cases, impl_results, tagger,
                   describe=lambda c, a, m: "schedule %s: impl %r model %r" % (
                       show([st[0] for st in c[2]]), str(a)[:300], str(m)[:300]),
                   oracle_failed=lambda i: i in oracle_bad)

    # malformed cases: the model must answer bad_case
    mal = [[0, 1, [[[99], 1]]], [0, 16, []], [7], [1, 1, [[4]], [[77]]], [0, 1, [[[16, -1], 1]]]]
    for m, r in zip(mal, run_model("c20", mal)):
        if r != [-999]:
            chk.violation("tie", "model accepted malformed case %r -> %r" % (m, r), {"kind": "malformed"}, {"case": m}, no_input=True)

    # free-running stress, oracle only
    st_runs = []
    nth, nwr = (4, 3000) if chk.tier == "thorough" else (4, 1000)
    reps = 10 if chk.tier == "thorough" else 3
    for scenario in ("noapp", "running", "lifecycle", "partial", "render-fault", "patch-exit"):
        for r in range(reps if scenario not in ("render-fault", "patch-exit") else 1):
            try:
                if scenario == "render-fault":
                    bad, meta = with_watchdog(render_fault_probe, 60)
                elif scenario == "patch-exit":
                    bad, meta = with_watchdog(lambda: patch_exit_probe(chk.seed, 40 if chk.tier == "thorough" else 12), 120)
                else:
                    bad, meta = with_watchdog(lambda: stress(chk, scenario, nth, nwr if scenario != "partial" else 4 * nwr,
                                                             chk.seed * 17 + r), 150)
            except Hang:
                bad, meta = [("hang", "stress run hung")], {"scenario": scenario}
            st_runs.append(meta)
            leaked += len(meta.get("leaked", []))
            chk.coverage["evaluations"] += 1
            seen = set()
            for fam, msg in bad:
                if fam in seen:
                    continue
                seen.add(fam)
                chk.violation("tie" if fam == "unlocked-buffer-access" else "oracle",
                              "free-running %s run (%d threads x %d writes): %s" % (scenario, nth, nwr, msg),
                              {"family": fam, "cause": "stress-" + scenario + meta.get("attrib", {}).get(fam, "")},
                              {"stress": meta, "clause": msg}, no_input=(fam == "unlocked-buffer-access"))

    if leaked:
        chk.violation("tie", "%d harness/implementation thread(s) still alive after a case" % leaked,
                      {"kind": "thread-leak"}, {"leaked": leaked}, no_input=True)

    # extraction/driver cross-check inside Coq on a sample
    k = 400 if chk.tier == "thorough" else 120
    idx = sorted(chk.rng.sample(range(len(cases)), min(k, len(cases))))
    pairs = [(cases[i], impl_results[i]) for i in idx]
    bad, logs = vm_crosscheck(PROP, "run_C20", "Model.C20_StdoutProxy", pairs, per_file=100)
    chk.coverage["vm_compute_crosschecked"] = len(pairs)
    model_results = run_model("c20", cases)
    model_bad = set(i for i, (a, m) in enumerate(zip(impl_results, model_results)) if sx_norm(a) != m)
    vm_bad = set(idx[b] for b in bad if isinstance(b, int))
    if any(not isinstance(b, int) for b in bad):
        chk.violation("tie", "vm_compute cross-check failed to run: " + (logs[0] if logs else ""), {"kind": "vm"}, {"log": logs}, no_input=True)
    if vm_bad != (model_bad & set(idx)):
        chk.violation("tie", "extracted model and in-Coq evaluation disagree on cases %r" % sorted(vm_bad ^ (model_bad & set(idx)))[:5],
                      {"kind": "extraction"}, {"cases": [cases[i] for i in sorted(vm_bad ^ (model_bad & set(idx)))[:5]]}, no_input=True)

    proof_gate(chk, pr)
    chk.coverage["input_distribution"] = dict(dist, corpus=len(corpus), stress=st_runs,
                                              replay_seconds=round(t_replay, 1))
    chk.coverage["rule"] = ("case = one schedule (list of model labels: writer steps of 1-4 real threads, flush-thread gates, "
                            "application/loop/run-in-terminal steps) enumerated exhaustively to depth 8-10 for three 2-thread "
                            "programs and random-walked to depth 60-70 FROM THE MODEL (enabledness queries), replayed on a real "
                            "StdoutProxy + Application(pipe input, Vt100_Output(StringIO)) and compared after every step with the "
                            "model (flush thread position and locals, _buffer, queue, pending callbacks, app flags, chain, trace incl. the proxy's flushes, bytes appended to the Output per write, bytes flushed to the terminal); "
                            "non-trivial = text reached the terminal; plus free-running 4-thread stress judged by the oracle only")
    chk.assumptions += [
        "one label = one atomic step: the locked body of write/flush, one queue operation of the flush thread, one event-loop callback; preemption inside these (GIL/bytecode level), queue.Queue's own locking and asyncio's FIFO ready queue are assumed, exercised only by the free-running stress",
        "time.sleep(sleep_between_writes) only delays the flush thread (no-op in the model); gated replays use 0",
        "set_is_running/set_loop/set_app of run_async are one step (AppStart), their exits one step (AppStop)",
        "positive in-order/bracket theorems across application start/exit/stop/loop-close/restart need loop validity (Model: valid - no AppStart between a `_get_app_loop() -> None` and its use, no AppStop between a `-> loop` and its use or with a callback pending; refuted without: C20_bracket_start_refuted, C20_stop_race_refuted, whose witnesses are not valid: C20_races_violate_validity); the session flag c is read by LoopStep through get_app_or_none(cb_session ...): that the callback sees the proxy's own session follows from context=self._context.copy() (cb_session true), the pre-fix step (step_noctx) is refuted for a proxy of another session",
        "what reaches the terminal = text written to the Output object before a flush of it (rig: every flush of the real Vt100_Output is logged; model: EFlush after every write, Renderer.erase/render end with a flush); Vt100_Output.write's ESC->'?' replacement and raw=True are a function of the observation (vt_write), compared per write event with what the real Output appended to its buffer",
        "loop-side progress (C20_loop_side_progress) counts a foreign in_terminal section ending and the CPR wait timing out as steps the environment eventually takes (fairness); exceptions in callbacks are outside",
        "CPR requests are keyed on `not is_done` (model field isdone; the key processor's input queue is assumed empty at the modelled call sites: no keys are typed); the window between exit() and run_async resuming (AppDone .. AppExit) is modelled and replayed as one loop iteration [callbacks.., exit()] (rig.do_window), observed only after the resumption",
        "the 'lost' list compared with the model is the rig's bookkeeping of batches it held when a loop was closed; C20_flush_thread_never_dies is a model sanity lemma (step has no crash transition)",
        "Render is replayed as Application._redraw() in the loop, not through invalidate()'s postponing scheduler; the one invalidate() the schedules cause (the key binding handling a cursor position report) is made load-independent by constructing the rig's Application with max_render_postpone_time=1e6: its redraw runs when the loop is idle, i.e. after the section woken by the same report has resumed (the model's order); with the default 0.01 s a loaded machine can render first - also property-conforming, not modelled",
        "text written after close() is outside the property (never delivered; the model keeps it in the queue)"]
    return chk.finish()


def replay(data):
    rep = data["replay"]
    if "stress" in rep:
        m = rep["stress"]
        chk = types_ns()
        if m["scenario"] == "patch-exit":
            bad, meta = patch_exit_probe(m.get("seed", 0), m.get("rounds", 12))
            print("patch-exit probe ->", bad or "oracle ok")
            return 1 if bad else 0
        if m["scenario"] == "render-fault":
            bad, meta = render_fault_probe()
            print("render-fault probe ->", bad or "oracle ok")
            return 1 if bad else 0
        bad, meta = stress(chk, m["scenario"], m.get("threads", 4), m.get("writes", 300), m.get("seed", 0))
        print("stress", meta, "->", bad or "oracle ok")
        return 1 if bad else 0
    if "case" in rep:
        ctx = rep["case"][1]
        labels = [st[0] for st in rep["case"][2]]
    else:
        ctx, labels = rep["ctx_default"], rep["labels"]
    print("proxy created in", "the default AppSession" if ctx & 1 else "a create_app_session() session",
          "| output responds to CPR" if ctx & 2 else "")
    print("schedule:", show(labels))
    res, info = replay_schedule(ctx, labels)
    for e in info["events"]:
        if e[0] == "F":
            continue
        print("   ", {"e": "erase", "r": "render", "f": "flush (by the proxy)"}.get(e[0], None) or
              "write %r  app._is_running=%s _running_in_terminal=%s thread=%s" % (e[1], e[2], e[3], e[5]))
    if info["crashed"]:
        print("    thread died:", info["crashed"])
    if info["status"]:
        print("    replay stopped:", info["status"])
    per = per_thread_texts(labels)
    bad = oracle_trace(info["events"], per, True, early_close=writes_after_close(labels), raw=bool(ctx & 8))
    if any(n == "patch-stdout-flush-thread" for n, _ in info["crashed"]):
        bad.append(("flush-thread-died", info["crashed"][0][1]))
    for p in info["problems"]:
        bad.append(("lost", p))
    print("written per thread:", per)
    print("terminal text (written and flushed):", repr(c20_rig.flushed_text(info["events"])[0]),
          "| left in the Output's buffer:", repr(c20_rig.flushed_text(info["events"])[1]))
    for fam, msg in bad:
        print("ORACLE FAILS [%s]: %s" % (fam, msg))
    if not bad:
        print("oracle ok")
    m = run_model("c20", [[0, int(ctx), mark_reports(labels)]])[0]
    print("model agrees" if m == sx_norm(res) else "model differs:\n impl  %r\n model %r" % (sx_norm(res), m))
    return 1 if bad else 0


def types_ns():
    import types
    return types.SimpleNamespace(seed=0)
