"""C11 - after every render the cursor is visible and sits on its character.
Model: coq/Model/C11_Scroll.v, C11_CopyBody.v; theorems: coq/Props/C11.v.
Implementation side: harness/c11_impl.py (real Window(BufferControl) -> Screen)."""
import itertools

from common import *  # noqa
from c11_impl import *  # noqa

PROP = "C11"
TABLES = []
MODELS = [("c11", "Extract/ExC11.v", "run_C11")]

FIELDS = ["status", "vertical_scroll", "vertical_scroll_2", "horizontal_scroll", "margin_width", "body_width",
          "content_cursor", "screen_cursor", "rowcol_to_yx", "rowcol_to_yx_extra_keys", "display_to_source_all_columns",
          "visible_line_to_row_col", "cells"]

NARROW = "abcdefgh"
ALPHABETS = {
    "narrow_printable": ["abcdefg", "ab ", "xyz"],
    "tabs": ["ab\t", "a\t"],                     # with TabsProcessor: narrow cells
    "wide": ["ab界", "a界"],
    "control": ["ab\x01", "a\t", "ab\x85", "ab́", "a\xa0\x7f", "a界\x01"],
}


def mkcfg(wrap=1, margin=0, offs=(0, 0, 0, 0), pf=None, tabstop=0, before=None, allow=0):
    """margin: 0 none, 1 left NumberedMargin, 2 right ScrollbarMargin, 3 both"""
    pfx = [0, [], [], 0] if pf is None else [1, S(pf[0]), S(pf[1]), int(pf[2])]
    return [int(wrap), int(margin), list(offs), pfx, tabstop, [1, S(before)] if before is not None else [0, []], int(allow)]


def margin_extra(cfg):
    return (4 if cfg[1] & 1 else 0) + (1 if cfg[1] & 2 else 0)


def mkcase(cfg, states):
    return [cfg, make_chartab(cfg, states), states]


# --------------------------------------------------------------------------
# generators

def docs_small():
    """Structured small documents: single lines of every length 0..13, pairs and
    triples of lines with lengths around the interesting widths, many short lines."""
    out = []
    for n in range(0, 14):
        out.append("".join(NARROW[i % 8] for i in range(n)))
    for a, b in itertools.product([0, 1, 3, 5, 6, 10], repeat=2):
        out.append("a" * a + "\n" + "b" * b)
    for a, b, c in [(2, 0, 7), (5, 5, 5), (12, 1, 0), (0, 0, 0), (4, 9, 4), (1, 6, 11)]:
        out.append("a" * a + "\n" + "b" * b + "\n" + "c" * c)
    out.append("\n".join("l%d" % i for i in range(9)))
    out.append("\n".join(["abcdefghijkl"] * 4))
    out.append("\n".join("x" * (i % 4) for i in range(12)))
    out.append("a\tbc\t")
    out.append("\t\tx\nab\tc")
    return out


def cfgs_small():
    out = []
    for wrap in (1, 0):
        for o in (0, 1, 2, 3):
            out.append(mkcfg(wrap, 0, (o, o, o, o)))
        out.append(mkcfg(wrap, 0, (2, 0, 0, 1)))
        out.append(mkcfg(wrap, 0, (0, 3, 1, 0)))
        out.append(mkcfg(wrap, 0, (0, 0, 0, 0), pf=("> ", ". ", 0)))
        out.append(mkcfg(wrap, 0, (1, 1, 1, 1), pf=(">", ".", 0)))
        out.append(mkcfg(wrap, 1, (1, 0, 0, 0)))
        out.append(mkcfg(wrap, 1, (0, 2, 2, 2), pf=("> ", ". ", 0)))
        out.append(mkcfg(wrap, 2, (0, 0, 0, 0)))
        out.append(mkcfg(wrap, 2, (1, 1, 1, 1)))
        out.append(mkcfg(wrap, 3, (0, 1, 0, 2)))
        out.append(mkcfg(wrap, 0, (1, 1, 1, 1), allow=1))
        out.append(mkcfg(wrap, 2, (0, 0, 0, 0), pf=("", ">> ", 0)))
        out.append(mkcfg(wrap, 0, (0, 0, 0, 0), before="界> "))
        out.append(mkcfg(wrap, 0, (0, 0, 0, 0), tabstop=4))
        out.append(mkcfg(wrap, 0, (1, 1, 0, 0), before="$ "))
    return out


def gen_exhaustive(chk, dist):
    """Every (document, cursor, width 1..12 + margin, height 1..6) for the small
    configurations, each as a one-state case on a reset window; quick tier takes
    a stratum."""
    rng = chk.rng
    stratum = 0.35 if chk.tier == "thorough" else 0.016
    docs = docs_small()
    for cfg in cfgs_small():
        extra = margin_extra(cfg)
        for d in docs:
            for cur in range(len(d) + 1):
                for W in range(1, 13):
                    for H in range(1, 7):
                        if stratum < 1.0 and rng.random() >= stratum:
                            continue
                        dist["exhaustive_one_state"] += 1
                        yield mkcase(cfg, [[W + extra, H, 0, 0, S(d), cur]])


def rand_text(rng, alpha, maxlines=6):
    nl = rng.choice([1, 1, 2, 3, 5, maxlines, 12])
    ls = []
    for _ in range(nl):
        n = rng.choice([0, 1, 2, 3, 4, 5, 6, 8, 10, 12, 15, 20, 25, 36])
        ls.append("".join(rng.choice(alpha) for _ in range(n)))
    return "\n".join(ls)


def rand_cfg(rng, tabs=False, wide_before=False, odd_prefix=None):
    wrap = rng.randint(0, 1)
    margin = rng.choice([0, 0, 0, 0, 1, 2, 2, 3])
    offs = [rng.choice([0, 0, 1, 2, 3]) for _ in range(4)]
    pf = None
    r = rng.random()
    if r < 0.2:
        a = rng.choice([">", "> ", ">> "])
        pf = (a, "." * len(a), 0)                       # constant width
    elif r < 0.3:
        pf = (rng.choice([">", "> ", "", ""]), rng.choice([".", ". ", ">> ", ""]), rng.randint(0, 1))   # variable width
    if odd_prefix and rng.random() < 0.3:
        pf = (rng.choice(odd_prefix), rng.choice(odd_prefix + ["."]), 0)   # wide / control characters in the line prefix
    if rng.random() < 0.08:
        offs = [rng.choice([0, 4, 7, 20]) for _ in range(4)]              # offsets larger than the window
    before = rng.choice(["$ ", "in: ", ""]) if rng.random() < 0.2 else None
    if wide_before and rng.random() < 0.5:
        before = rng.choice(["提示> ", "界 ", "a界"])          # double-width characters in the text before the input
    tabstop = rng.choice([1, 2, 3, 4, 8]) if tabs else 0
    return mkcfg(wrap, margin, offs, pf, tabstop, before, allow=int(rng.random() < 0.15))


def rand_states(rng, cfg, alpha, n, extra_max=None):
    """A history through one window: typing at the end, cursor motion, jumps,
    edits, new documents, resizes."""
    extra = margin_extra(cfg) if extra_max is None else extra_max
    t = rand_text(rng, alpha) if rng.random() < 0.7 else ""
    cur = rng.randint(0, len(t))
    big = rng.random() < 0.08

    def size():
        if big:
            return rng.randint(1, 30) + extra, rng.randint(1, 15)
        return rng.randint(1, 12) + extra, rng.randint(1, 6)
    W, H = size()
    xp, yp = rng.randint(0, 3), rng.randint(0, 2)
    states = []
    for _ in range(n):
        r = rng.random()
        if r < 0.3:                                   # type characters at the cursor
            ins = "".join(rng.choice(alpha) for _ in range(rng.choice([1, 1, 1, 2, 5])))
            t = t[:cur] + ins + t[cur:]
            cur += len(ins)
        elif r < 0.4 and "\n" not in alpha:
            t = t[:cur] + "\n" + t[cur:]
            cur += 1
        elif r < 0.6:
            cur = max(0, min(len(t), cur + rng.choice([-1, 1, -3, 3, -10, 10])))
        elif r < 0.75:
            cur = rng.choice([0, len(t), rng.randint(0, len(t))])
        elif r < 0.85:
            W, H = size()
        elif r < 0.92 and cur > 0:
            k = rng.randint(1, min(cur, 4))
            t = t[:cur - k] + t[cur:]
            cur -= k
        else:
            t = rand_text(rng, alpha)
            cur = rng.randint(0, len(t))
        states.append([W, H, xp, yp, S(t), cur])
    return states


def gen_random(chk, dist):
    rng = chk.rng
    thorough = chk.tier == "thorough"
    cases = []
    plan = [("narrow_printable", 9000 if thorough else 900), ("tabs", 3000 if thorough else 300),
            ("wide", 4000 if thorough else 350), ("control", 4000 if thorough else 350)]
    for dom, n in plan:
        for _ in range(n):
            alpha = rng.choice(ALPHABETS[dom])
            cfg = rand_cfg(rng, tabs=(dom == "tabs") or (dom == "wide" and rng.random() < 0.3), wide_before=(dom == "wide"),
                           odd_prefix={"wide": ["界>", "界"], "control": ["\x01>", "\x01", "́>"]}.get(dom))
            states = rand_states(rng, cfg, alpha, rng.randint(1, 8))
            cases.append(mkcase(cfg, states))
            dist["random_sequence_" + dom] += 1
    # long typing runs: one character per render, cursor at the end (the prompt scenario)
    for _ in range(400 if thorough else 40):
        cfg = rand_cfg(rng)
        extra = margin_extra(cfg)
        W, H = rng.randint(1, 12) + extra, rng.randint(1, 6)
        t = ""
        states = []
        for _ in range(rng.randint(10, 40)):
            t += rng.choice("abc" if rng.random() < 0.93 else "\n")
            states.append([W, H, 1, 1, S(t), len(t)])
        cases.append(mkcase(cfg, states))
        dist["typing_run"] += 1
    # documents around 100 lines with a NumberedMargin: its width changes from 3 to 4 at 100 lines
    # (ndigits + 1), also in the middle of a history (typing / deleting line ends)
    for _ in range(150 if thorough else 24):
        cfg = rand_cfg(rng)
        cfg[1] = rng.choice([1, 1, 3])
        extra = margin_extra(cfg) + 1
        nl = rng.randint(96, 103)
        t = "\n".join("".join(rng.choice("ab") for _ in range(rng.choice([0, 1, 3, 9]))) for _ in range(nl))
        cur = rng.randint(0, len(t))
        W, H = rng.randint(1, 12) + extra, rng.randint(1, 6)
        states = []
        for _ in range(rng.randint(2, 8)):
            r = rng.random()
            if r < 0.4:
                t = t[:cur] + "\n" + t[cur:]
                cur += 1
            elif r < 0.7 and "\n" in t:
                k = t.rfind("\n", 0, max(cur, 1))
                k = k if k >= 0 else t.find("\n")
                t = t[:k] + t[k + 1:]
                cur = min(cur, len(t))
            else:
                cur = rng.choice([0, len(t), rng.randint(0, len(t))])
            states.append([W, H, 0, 0, S(t), cur])
        cases.append(mkcase(cfg, states))
        dist["around_100_lines"] += 1
    # degenerate sizes (margin wider than the window, zero width): model/implementation only
    for _ in range(300 if thorough else 60):
        cfg = rand_cfg(rng)
        t = rand_text(rng, "abc", 3)
        states = [[rng.randint(1, 5), rng.randint(1, 3), 0, 0, S(t), rng.randint(0, len(t))] for _ in range(3)]
        cases.append(mkcase(cfg, states))
        dist["small_or_degenerate_size"] += 1
    return cases


def gen_switching(chk, dist):
    """Histories that CHANGE the window configuration between renders of ONE Window object:
    wrap mode on/off (vertical_scroll_2 / horizontal_scroll left by the other mode carry over),
    scroll offsets, margins (body width changes), line prefixes, allow_scroll_beyond_bottom,
    processors.  (a) random histories where every state may bring a new configuration;
    (b) pairs of the small configurations on the structured small documents: scroll with A, render with B."""
    rng = chk.rng
    thorough = chk.tier == "thorough"
    cases = []

    def mutate(cfg, dom):
        r = rng.random()
        new = [cfg[0], cfg[1], list(cfg[2]), list(cfg[3]), cfg[4], list(cfg[5]), cfg[6]]
        if r < 0.3:
            new[0] = 1 - cfg[0]                                   # wrap mode only
        elif r < 0.42:
            new[2] = [rng.choice([0, 0, 1, 2, 3, 7]) for _ in range(4)]
        elif r < 0.54:
            new[1] = rng.choice([m for m in (0, 1, 2, 3) if m != cfg[1]])
        elif r < 0.66:
            pf = rng.choice([None, (">", ".", 0), ("> ", ". ", 0), ("", ">> ", 0), (">", ". ", 1), (">> ", "", 1)])
            new[3] = [0, [], [], 0] if pf is None else [1, S(pf[0]), S(pf[1]), int(pf[2])]
        elif r < 0.72:
            new[6] = 1 - cfg[6]
        elif r < 0.8:
            new[5] = [0, []] if cfg[5][0] else [1, S(rng.choice(["$ ", "in: "]))]
        else:
            c2 = rand_cfg(rng, tabs=bool(cfg[4]))
            new = c2
        return new

    for dom, n in [("narrow_printable", 1500 if thorough else 420), ("tabs", 400 if thorough else 80),
                   ("wide", 400 if thorough else 60), ("control", 400 if thorough else 60)]:
        for _ in range(n):
            alpha = rng.choice(ALPHABETS[dom])
            cfg = rand_cfg(rng, tabs=(dom == "tabs"))
            states = rand_states(rng, cfg, alpha, rng.randint(2, 10), extra_max=5)
            cur = cfg
            for st in states[1:]:
                if rng.random() < 0.4:
                    cur = mutate(cur, dom)
                    st.append(cur)
            cases.append(mkcase(cfg, states))
            dist["switching_random_" + dom] += 1
    docs = docs_small()
    cfgs = cfgs_small()
    for _ in range(12000 if thorough else 1200):
        a, b = rng.choice(cfgs), rng.choice(cfgs)
        d = rng.choice(docs)
        W, H = rng.randint(1, 12) + 5, rng.randint(1, 6)
        c1, c2 = rng.randint(0, len(d)), rng.randint(0, len(d))
        if rng.random() < 0.5:
            c1 = len(d)
        states = [[W, H, 0, 0, S(d), c1], [W, H, 0, 0, S(d), c2, b]]
        if rng.random() < 0.3:
            states.append([W, H, 0, 0, S(d), rng.randint(0, len(d)), a])
        cases.append(mkcase(a, states))
        dist["switching_pairs_small"] += 1
    return cases


WITNESSES = [
    # C11-F1 (fixed by /repo commit f4b07a8)  Window 5x1, 'abcde', cursor at the end
    mkcase(mkcfg(1), [[5, 1, 0, 0, S("abcde"), 5]]),
    mkcase(mkcfg(1), [[5, 2, 0, 0, S("abcdefghij"), 10]]),
    # C11-F13 / F14 of DESIGN.md
    mkcase(mkcfg(1), [[5, 2, 0, 0, S("ab\n" + "\x01" * 6), 9]]),
    mkcase(mkcfg(1), [[5, 2, 0, 0, S("ab\n" + "\t" * 6), 9]]),
    mkcase(mkcfg(1), [[5, 2, 0, 0, S("ab\ncd\n" + "界" * 4 + "z"), 11]]),
    mkcase(mkcfg(0), [[5, 2, 0, 0, S("\x01\x01\x01\x01"), 4]]),
    # C11-F2  cursor on a combining mark that follows a full row
    mkcase(mkcfg(1), [[3, 2, 0, 0, S("abc\u0301"), 3]]),
    # configuration switches through ONE window (round 6): intra-line scroll left by a wrapped render of an
    # over-tall line, then the wrap filter goes off (seeded C11-13); horizontal scroll left by a non-wrapped
    # render, then the wrap filter goes on; margins / prefixes / offsets appearing mid-history
    mkcase(mkcfg(1), [[10, 2, 0, 0, S("one\ntwo\n" + "abcdefghijklmnopqrstuvwxyz" * 2 + "\nfour\nfive"), 40],
                      [10, 2, 0, 0, S("one\ntwo\n" + "abcdefghijklmnopqrstuvwxyz" * 2 + "\nfour\nfive"), 33, mkcfg(0)],
                      [10, 2, 0, 0, S("one\ntwo\n" + "abcdefghijklmnopqrstuvwxyz" * 2 + "\nfour\nfive"), 3, mkcfg(1)]]),
    mkcase(mkcfg(0), [[8, 3, 1, 1, S("ab\n" + "abcdefghijklmnopqrstuvwxyz"), 29],
                      [8, 3, 1, 1, S("ab\n" + "abcdefghijklmnopqrstuvwxyz"), 5, mkcfg(1)],
                      [8, 3, 1, 1, S("ab\n" + "abcdefghijklmnopqrstuvwxyz"), 29, mkcfg(1, 3, (1, 1, 1, 1), pf=("> ", ". ", 1))],
                      [8, 3, 1, 1, S("ab\n" + "abcdefghijklmnopqrstuvwxyz"), 20, mkcfg(0, 1, (0, 0, 2, 2), pf=(">", "", 0))]]),
]

MALFORMED = [[], [1], [[1, 0], [], []], [mkcfg(), [], [[5, 2, 0, 0, 7, 0]]], [mkcfg(), [[97, 1, 1]], []],
             [mkcfg()[:5], [], []], [[2] + mkcfg()[1:], [], []], [mkcfg(tabstop=-1), [], []], [mkcfg(margin=4), [], []],
             [mkcfg()[:6], [], []],
             [mkcfg(), [], [], 0],
             [mkcfg(), [], [[5, 2, 0, 0, [], 0, mkcfg()[:6]]]], [mkcfg(), [], [[5, 2, 0, 0, [], 0, mkcfg(margin=4)]]],
             [mkcfg(), [], [[5, 2, 0, 0, [], 0, mkcfg(), 0]]]]


# --------------------------------------------------------------------------

def tags_of(cfg, chartab, st, obs, family):
    return {"domain": domain_of(cfg, chartab, st), "mode": "wrap" if cfg[0] else "nowrap",
            "family": family, "cause": cause_of(cfg, st, obs) if family in ("not-visible", "outside", "wrong-cell") else "n/a"}


def describe_state(cfg, st):
    return "wrap_lines=%s margins(1=left numbered,2=right scrollbar)=%s allow_beyond_bottom=%s scroll_offsets(top,bottom,left,right)=%r prefix=%r tabstop=%r before_input=%r window=%dx%d at (%d,%d) text=%r cursor=%d" % (
        bool(cfg[0]), cfg[1], bool(cfg[6]), cfg[2], (unS(cfg[3][1]), unS(cfg[3][2]), cfg[3][3]) if cfg[3][0] else None,
        cfg[4], unS(cfg[5][1]) if cfg[5][0] else None, st[0], st[1], st[2], st[3], unS(st[4]), st[5])


CHUNK = 40000


def chunks_of(it, n):
    buf = []
    for x in it:
        buf.append(x)
        if len(buf) >= n:
            yield buf
            buf = []
    if buf:
        yield buf


def main(tier):
    chk = Check(PROP, tier)
    pr = chk.proofs("Props/C11.v", tables=TABLES)
    chk.coverage["proof_seconds"] = round(time.time() - chk.t0, 1)
    okm, logm = build_model("c11", "Extract/ExC11.v", "run_C11", tables=TABLES)
    if not okm:
        chk.violation("tie", "model does not build: " + logm[-400:], {"kind": "model-build"}, {"log": logm[-3000:]}, no_input=True)
        return chk.finish()

    dist = {"exhaustive_one_state": 0, "typing_run": 0, "small_or_degenerate_size": 0, "around_100_lines": 0,
            "witnesses": len(WITNESSES)}
    for d in ("narrow_printable", "tabs", "wide", "control"):
        dist["random_sequence_" + d] = 0
        dist["switching_random_" + d] = 0
    dist["switching_pairs_small"] = 0
    corpus = load_corpus(PROP)

    def all_cases():
        for c in corpus:
            yield c
        for c in WITNESSES:
            yield c
        for c in gen_random(chk, dist):
            yield c
        for c in gen_exhaustive(chk, dist):
            yield c
        # after the older families, so that their random streams are what they were before round 6
        for c in gen_switching(chk, dist):
            yield c

    sub = {d: {"states_in_scope": 0, "oracle_failures": 0, "by_cause": {}} for d in ("narrow_printable", "wide", "control")}
    modes = {"wrap": 0, "nowrap": 0}
    switched = {"states_with_new_configuration": 0, "of_which_previous_scroll_nonzero": 0, "wrap_mode_changed": 0,
                "wrap_mode_changed_with_other_modes_scroll_carried": 0}
    timing = {"impl": 0.0, "model": 0.0, "vm": 0.0}
    vm_total = 500 if chk.tier == "thorough" else 120
    vm_done = 0
    ncases = 0
    retried = [0]

    def tagger(c, a, m):
        for j, (x, y) in enumerate(zip(a, m if isinstance(m, list) else [])):
            if x != y:
                field = "?"
                if isinstance(y, list) and isinstance(x, list):
                    for k in range(min(len(x), len(y))):
                        if x[k] != y[k]:
                            field = FIELDS[k] if k < len(FIELDS) else "?"
                            break
                return {"field": field, "mode": "wrap" if eff_cfg(c, j)[0] else "nowrap",
                        "domain": domain_of(eff_cfg(c, j), c[1], c[2][j]),
                        "switched": int(any(len(st) > 6 for st in c[2][:j + 1]))}
        return {"field": "?"}

    def describe(c, a, m):
        for j, (x, y) in enumerate(zip(a, m if isinstance(m, list) else [])):
            if x != y:
                return "state %d: %s | impl=%r model=%r" % (j, describe_state(eff_cfg(c, j), c[2][j]), x[:8], y[:8] if isinstance(y, list) else y)
        return "shape"

    for cases in chunks_of(all_cases(), CHUNK):
        oracle_bad = set()
        nontriv = {}

        def on_state(ci, si, cfg, st, res, obs):
            if res[0] != 0 or obs is None:
                return
            if not in_scope(cfg, st, obs):
                return
            chartab = cases[ci][1]
            dom = domain_of(cfg, chartab, st)
            sub[dom]["states_in_scope"] += 1
            modes["wrap" if cfg[0] else "nowrap"] += 1
            if obs["vs"] or obs["vs2"] or obs["hs"]:
                nontriv[ci] = True
            if len(st) > 6:
                switched["states_with_new_configuration"] += 1
                if obs["prev"] != (0, 0, 0):
                    switched["of_which_previous_scroll_nonzero"] += 1
                pcfg = eff_cfg(cases[ci], si - 1) if si else cfg
                if pcfg[0] != cfg[0]:
                    switched["wrap_mode_changed"] += 1
                    if (obs["prev"][1] and not cfg[0]) or (obs["prev"][2] and cfg[0]):
                        switched["wrap_mode_changed_with_other_modes_scroll_carried"] += 1
            bad = oracle_state(cfg, st, obs)
            if bad:
                clause, fam = bad
                tags = tags_of(cfg, chartab, st, obs, fam)
                if match_known(chk.known, tags) is None:
                    oracle_bad.add(ci)       # a failing input that is not one of the known findings
                sub[dom]["oracle_failures"] += 1
                sub[dom]["by_cause"][tags["cause"]] = sub[dom]["by_cause"].get(tags["cause"], 0) + 1
                hist = cases[ci][2][:si + 1]
                chk.violation("oracle", "%s | %s | previous scroll (v, v2, h)=%r | rows drawn: %r" % (
                    clause, describe_state(cfg, st), obs["prev"],
                    ["".join(obs["scr"].data_buffer[y + obs["ypos"]][x + obs["xpos"] + obs["mw"]].char for x in range(obs["bw"])) for y in range(obs["H"])]),
                    tags, {"case": [cases[ci][0], chartab, hist], "state_index": si, "clause": clause,
                           "configuration_in_force": describe_state(cfg, st),
                           "how": "harness/c11_impl.py Window11(cfg).render(state) for each state in order, one Window"})

        t0 = time.time()
        impl_results = impl_cases(cases, on_state, retried)
        timing["impl"] += time.time() - t0
        for ci, c in enumerate(cases):
            chk.count_case(c, nontriv.get(ci, False))
            if (ncases + ci) % 1499 == 0:
                chk.sample({"config": describe_state(c[0], c[2][0]) if c[2] else "", "n_states": len(c[2]),
                            "impl_result_head": [r[:8] for r in impl_results[ci][:2]]})
        t0 = time.time()
        model_results, nbad = correspondence(chk, "c11", cases, impl_results, tagger, describe=describe,
                                             oracle_failed=lambda i: i in oracle_bad)
        timing["model"] += time.time() - t0

        # extraction/driver cross-check inside Coq on a sample of this chunk
        k = min(len(cases), max(20, vm_total * len(cases) // (CHUNK * 3)) if chk.tier == "thorough" else vm_total)
        k = min(k, vm_total - vm_done) if vm_total > vm_done else 0
        if k > 0:
            t0 = time.time()
            idx = sorted(chk.rng.sample(range(len(cases)), k))
            pairs = [(cases[i], impl_results[i]) for i in idx]
            bad, logs = vm_crosscheck(PROP, "run_C11", "Model.C11_Scroll Model.C11_CopyBody", pairs, per_file=60)
            vm_done += len(pairs)
            model_bad = set(i for i, (a, m) in enumerate(zip(impl_results, model_results)) if sx_norm(a) != m)
            vm_bad = set(idx[b] for b in bad if isinstance(b, int))
            if any(not isinstance(b, int) for b in bad):
                chk.violation("tie", "vm_compute cross-check failed to run: " + (logs[0] if logs else ""), {"kind": "vm"}, {"log": logs}, no_input=True)
            if vm_bad != (model_bad & set(idx)):
                chk.violation("tie", "extracted model and in-Coq evaluation disagree on cases %r" % sorted(vm_bad ^ (model_bad & set(idx)))[:5],
                              {"kind": "extraction"}, {"cases": [cases[i] for i in sorted(vm_bad ^ (model_bad & set(idx)))[:5]]}, no_input=True)
            timing["vm"] += time.time() - t0
        ncases += len(cases)
        del impl_results, model_results

    chk.coverage["input_distribution"] = dict(dist, corpus=len(corpus), states_by_mode=modes,
                                              watchdog_retries=retried[0],
                                              configuration_switches_in_scope=switched)
    chk.coverage["sub_domains"] = sub
    chk.coverage["vm_compute_crosschecked"] = vm_done
    chk.coverage["phase_seconds"] = {k: round(v, 1) for k, v in timing.items()}

    # malformed stream: the model must answer bad_case
    mal = run_model("c11", MALFORMED)
    if any(m != [-999] for m in mal):
        chk.violation("tie", "model accepts a malformed case", {"kind": "malformed"}, {"results": mal}, no_input=True)

    proof_gate(chk, pr)
    chk.coverage["rule"] = ("case = (window configuration, 1..40 states (size, position, text, cursor, optionally a NEW configuration in force from that state on)) rendered through ONE real "
                            "Window(BufferControl) into a Screen by write_to_screen and through the Coq model; compared per state: "
                            "vertical_scroll, vertical_scroll_2, horizontal_scroll, margin width, content cursor, Screen.cursor_positions, "
                            "render_info._rowcol_to_yx for every cell of every line, visible_line_to_row_col, every cell of the window body. "
                            "Exhaustive stratum: %d documents x all cursors x widths 1..12 x heights 1..6 x %d configurations (%s); "
                            "non-trivial = some state scrolled (vertical, intra-line or horizontal); distinct by hash of the whole case. "
                            "Oracle evaluated on states inside the property's quantifier (body width >= widest character + prefix)." % (
                                len(docs_small()), len(cfgs_small()), "35% sample" if chk.tier == "thorough" else "1.6% sample"))
    chk.assumptions += [
        "character widths (get_cwidth of the source character, Char.width and Char.char of the displayed form) are inputs of the model, measured on the implementation per case; the theorems quantify over arbitrary width functions",
        "processors other than BeforeInput and TabsProcessor (highlighting, password, auto-suggestion) and of the margins anything but NumberedMargin's and ScrollbarMargin's widths are outside the model; the default highlight processors are present in the real control and tied only as far as they leave text unchanged",
        "allow_scroll_beyond_bottom is a configuration flag (both values generated, modelled and covered by the theorems); align=LEFT, no cursorline/colorcolumn, no get_vertical_scroll/get_horizontal_scroll hooks, z_index None (the defaults); text, cursor, window size and position change between the states of every history; the switching families also change wrap mode (filter), scroll offsets (callables), margins, get_line_prefix, allow_scroll_beyond_bottom (filter) and the input processors of the SAME Window/BufferControl objects between renders",
        "styles and zero-width escapes are not modelled; cells are compared by their text"]
    return chk.finish()


def replay(data):
    rep = data["replay"]
    case = rep["case"]
    cfg, chartab, states = case[:3]
    out, obss = impl_case(case)
    rc = 0
    cfg0 = cfg
    for si, (st, res, obs) in enumerate(zip(states, out, obss)):
        cfg = eff_cfg([cfg0, chartab, states], si)
        print("state %d: %s%s" % (si, describe_state(cfg, st), "  (NEW configuration from this state on)" if len(st) > 6 else ""))
        if obs is None:
            print("   status", res)
            continue
        print("   scroll (v, v2, h) = %r content cursor = %r screen cursor = %r" % ((obs["vs"], obs["vs2"], obs["hs"]), obs["ui_cursor"], obs["cp"]))
        for y in range(obs["H"]):
            print("   |" + "".join(obs["scr"].data_buffer[y + obs["ypos"]][x + obs["xpos"] + obs["mw"]].char or "·" for x in range(obs["bw"])) + "|")
        if in_scope(cfg, st, obs):
            bad = oracle_state(cfg, st, obs)
            print("   " + ("ORACLE FAILS: %s %r" % (bad[0], tags_of(cfg, chartab, st, obs, bad[1])) if bad else "oracle ok"))
            if bad:
                rc = 1
        else:
            print("   (outside the property's quantifier: window cannot hold one character plus prefix/margins)")
    m = run_model("c11", [case])[0]
    print("model agrees" if m == sx_norm(out) else "model differs: first states impl=%r model=%r" % (sx_norm(out)[:1], m[:1] if isinstance(m, list) else m))
    return rc
