"""./check --replay <file>: re-run the failing input recorded in a replay file
against the implementation in /repo and print what it does now."""
import importlib
import json

from common import *  # noqa


def main(path):
    data = json.load(open(path))
    mod = importlib.import_module(data["property"].lower())
    print("property:", data["property"], "| kind:", data["kind"])
    print("what:", data["what"])
    if hasattr(mod, "replay"):
        return mod.replay(data)
    print(json.dumps(data["replay"], indent=1)[:4000])
    return 0
