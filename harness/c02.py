"""C02 - Document coordinates and motion queries.
Model: coq/Model/Document.v + coq/Model/C02_{DocQueries,More,Cache,Run}.v; theorems: coq/Props/C02.v.

A case is (text, cursor, [op ...]); every op is one query of a real
prompt_toolkit.document.Document and of the Coq model (run_C02).  The oracle
(oracle_op) is the theorem statements of Props/C02.v transcribed for the
implementation's own answers; it never calls the model."""
import gc
import itertools

from common import *  # noqa

PROP = "C02"
TABLES = ["Whitespace", "C02_Patterns", "C02_CaseFold"]
MODELS = [("c02", "Extract/ExC02.v", "run_C02")]
ALPHA = ["a", "_", ".", " ", "\n", "(", ")", "界"]
RAND_ALPHA = ["a", "b", "B", "Z", "0", "_", ".", ",", "-", " ", " ", " ", "\n", "\n", "\t", "\r", "\x0b", "\x1c",
              " ", " ", "　", "(", ")", "[", "]", "{", "}", "<", ">", '"', "'", "界", "\U0001F600", "ß"]

sys.path.insert(0, os.path.join(VERIF, "gen"))
from gen_t_c02 import FOLD_EXTRA, FOLD_UNCASED, cased_code_points  # noqa
FOLD_SMALL = ["a", "A", "s", "S", "\u00df", "\u1e9e", "\u017f", "\u0130", "i", "I", "\u0131", "\ufb01", "f",
              "k", "\u212a", "\u01f0", "\u0390", "\u00e9", "\u00c9", " ", "\n"]
# the regenerated re.IGNORECASE table covers EVERY cased code point; uncased characters must be listed in
# gen_t_c02.FOLD_UNCASED (checked there to match only themselves)
CASED = frozenset(map(chr, cased_code_points()))
FOLD_G = CASED | frozenset(FOLD_UNCASED)
# cased letters beyond the round-4 list: other scripts, titlecase digraphs, symbols that fold onto letters
# (Ohm, Angstrom, Kelvin), the sre "equivalences" (iota/ypogegrammeni/prosgegrammeni, beta/theta/phi/pi/rho
# symbols, long s t ligatures, Cyrillic Extended-C), astral (Deseret, Osage, Adlam, Warang Citi)
FOLD_WIDE = ("\u01c4\u01c5\u01c6\u01f1\u01f2\u01f3\u0345\u0399\u03b9\u1fbe\u2126\u03a9\u03c9\u212b\u00c5\u00e5"
             "\u03b2\u03d0\u0392\u03b8\u03d1\u03f4\u0398\u03c6\u03d5\u03a6\u03c0\u03d6\u03a0\u03c1\u03f1\u03a1\u03ba\u03f0\u039a"
             "\u03b5\u03f5\u0395\ufb05\ufb06\u1c80\u0432\u0412\u1c88\ua64a\ua64b\u1e61\u1e9b\u1e60"
             "\u0434\u0414\u1c81\u0561\u0531\u10d0\u1c90\u13a0\uab70\u13f8\u13f0\uff21\uff41\u24b6\u24d0\u2160\u2170"
             "\U00010400\U00010428\U000104b0\U000104d8\U0001e900\U0001e922\U000118a0\U000118c0\u0130\u0131\u1e9e\u00df")
for _name, _al in (("ALPHA", ALPHA), ("RAND_ALPHA", RAND_ALPHA), ("FOLD_SMALL", FOLD_SMALL), ("FOLD_WIDE", FOLD_WIDE)):
    _out = [c for c in _al if c not in FOLD_G]
    if _out:
        raise SystemExit("harness/c02.py: %s has characters outside the regenerated IGNORECASE alphabet: %r" % (_name, _out))
if not all(c in CASED for c in FOLD_WIDE):
    raise SystemExit("harness/c02.py: FOLD_WIDE has uncased characters: %r" % [c for c in FOLD_WIDE if c not in CASED])

OPNAMES = {1: "views", 2: "translate_index_to_position", 3: "translate_row_col_to_index",
           4: "get_cursor_left_position", 5: "get_cursor_right_position", 6: "get_cursor_up_position",
           7: "get_cursor_down_position", 8: "get_start_of_line_position", 9: "get_end_of_line_position",
           10: "last_non_blank_of_current_line_position", 11: "get_column_cursor_position",
           12: "get_start_of_document_position", 13: "get_end_of_document_position", 14: "find",
           15: "find_backwards", 16: "find_all", 17: "has_match_at_current_position",
           18: "find_start_of_previous_word", 19: "find_boundaries_of_current_word",
           20: "find_next_word_beginning", 21: "find_next_word_ending", 22: "find_previous_word_beginning",
           23: "find_previous_word_ending", 24: "find_enclosing_bracket_right", 25: "find_enclosing_bracket_left",
           26: "find_matching_bracket_position", 27: "start_of_paragraph", 28: "end_of_paragraph",
           29: "get_word_before_cursor", 30: "get_word_under_cursor", 31: "empty_line_count_at_the_end",
           32: "find_start_of_previous_word(pattern=)", 33: "get_word_before_cursor(pattern=)"}

# pattern= : (kind, s1, s2) with kind 0: [s1]+|[s2]+ (s2 empty: [s1]+), 1: [^s1]+, 2: ^[s1]*
WORD_ALPHABET = "abcdefghijklmnopqrstuvwxyzABCDEFGHIJKLMNOPQRSTUVWXYZ0123456789_"
_PATS = {}


def re_space_chars():
    import re as _r
    return "".join(chr(c) for c in range(0x110000) if not (0xD800 <= c <= 0xDFFF) and _r.match(r"\s", chr(c)))


RE_SPACE = re_space_chars()


def mk_pattern(p):
    """the compiled regex for a pattern triple; the pattern strings the code base itself uses are taken
    literally (FuzzyCompleter: `^[a-zA-Z0-9_]*` and `[^\\s]+`; `[a-zA-Z0-9_]+`)"""
    import re as _r
    kind, s1, s2 = p[0], unS(p[1]), unS(p[2])
    key = (kind, s1, s2)
    r = _PATS.get(key)
    if r is None:
        esc = lambda cs: "".join(_r.escape(c) for c in cs)  # noqa
        if kind == 2 and s1 == WORD_ALPHABET:
            src = r"^[a-zA-Z0-9_]*"
        elif kind == 1 and s1 == RE_SPACE:
            src = r"[^\s]+"
        elif kind == 0 and s1 == WORD_ALPHABET and not s2:
            src = r"[a-zA-Z0-9_]+"
        elif kind == 0:
            src = "[%s]+" % esc(s1) + ("|[%s]+" % esc(s2) if s2 else "")
        elif kind == 1:
            src = "[^%s]+" % esc(s1)
        else:
            src = "^[%s]*" % esc(s1)
        r = _PATS[key] = _r.compile(src)
    return r


def pat_cls(p, c):
    kind, s1, s2 = p[0], unS(p[1]), unS(p[2])
    if kind == 1:
        return 0 if c in s1 else 1
    return 1 if c in s1 else (2 if kind == 0 and c in s2 else 0)


FIXED_PATS = [[0, S("a_"), S("")], [0, S("a_"), S(".(")], [0, S("."), S("a\u754c")], [1, S(" \n"), S("")], [1, S("a"), S("")],
              [2, S("a_"), S("")], [2, S(WORD_ALPHABET), S("")], [1, S(RE_SPACE), S("")], [0, S(WORD_ALPHABET), S("")]]



def O(v):
    """Python Optional[int] <-> sx option"""
    return [] if v is None else [v]


def unO(l):
    return l[0] if l else None


# --------------------------------------------------------------------------
# implementation runner

def impl_views(d):
    cc, cb = d.current_char, d.char_before_cursor
    return [S(d.text_before_cursor), S(d.text_after_cursor), S(d.current_line_before_cursor),
            S(d.current_line_after_cursor), S(d.current_line), [S(l) for l in d.lines], d.line_count,
            list(d._line_start_indexes), d.cursor_position_row, d.cursor_position_col,
            int(d.on_first_line), int(d.on_last_line), [ord(cc)] if cc else [], [ord(cb)] if cb else [],
            int(d.is_cursor_at_the_end), int(d.is_cursor_at_the_end_of_line),
            S(d.leading_whitespace_in_current_line), [S(l) for l in d.lines_from_current]]


def impl_call(d, op):
    k = op[0]
    if k == 1:
        return impl_views(d)
    if k == 2:
        return list(d.translate_index_to_position(op[1]))
    if k == 3:
        return d.translate_row_col_to_index(op[1], op[2])
    if k == 4:
        return d.get_cursor_left_position(op[1])
    if k == 5:
        return d.get_cursor_right_position(op[1])
    if k == 6:
        return d.get_cursor_up_position(count=op[1], preferred_column=unO(op[2]))
    if k == 7:
        return d.get_cursor_down_position(count=op[1], preferred_column=unO(op[2]))
    if k == 8:
        return d.get_start_of_line_position(after_whitespace=bool(op[1]))
    if k == 9:
        return d.get_end_of_line_position()
    if k == 10:
        return d.last_non_blank_of_current_line_position()
    if k == 11:
        return d.get_column_cursor_position(op[1])
    if k == 12:
        return d.get_start_of_document_position()
    if k == 13:
        return d.get_end_of_document_position()
    if k == 14:
        return O(d.find(unS(op[1]), in_current_line=bool(op[2]), include_current_position=bool(op[3]),
                        ignore_case=bool(op[4]), count=op[5]))
    if k == 15:
        return O(d.find_backwards(unS(op[1]), in_current_line=bool(op[2]), ignore_case=bool(op[3]), count=op[4]))
    if k == 16:
        return list(d.find_all(unS(op[1]), ignore_case=bool(op[2])))
    if k == 17:
        return int(d.has_match_at_current_position(unS(op[1])))
    if k == 18:
        return O(d.find_start_of_previous_word(count=op[1], WORD=bool(op[2])))
    if k == 19:
        return list(d.find_boundaries_of_current_word(WORD=bool(op[1]), include_leading_whitespace=bool(op[2]),
                                                      include_trailing_whitespace=bool(op[3])))
    if k == 20:
        return O(d.find_next_word_beginning(count=op[1], WORD=bool(op[2])))
    if k == 21:
        return O(d.find_next_word_ending(include_current_position=bool(op[1]), count=op[2], WORD=bool(op[3])))
    if k == 22:
        return O(d.find_previous_word_beginning(count=op[1], WORD=bool(op[2])))
    if k == 23:
        return O(d.find_previous_word_ending(count=op[1], WORD=bool(op[2])))
    if k == 24:
        return O(d.find_enclosing_bracket_right(chr(op[1]), chr(op[2]), end_pos=unO(op[3])))
    if k == 25:
        return O(d.find_enclosing_bracket_left(chr(op[1]), chr(op[2]), start_pos=unO(op[3])))
    if k == 26:
        return d.find_matching_bracket_position(start_pos=unO(op[1]), end_pos=unO(op[2]))
    if k == 27:
        return d.start_of_paragraph(count=op[1], before=bool(op[2]))
    if k == 28:
        return d.end_of_paragraph(count=op[1], after=bool(op[2]))
    if k == 29:
        return S(d.get_word_before_cursor(WORD=bool(op[1])))
    if k == 30:
        return S(d.get_word_under_cursor(WORD=bool(op[1])))
    if k == 31:
        return d.empty_line_count_at_the_end()
    if k == 32:
        return O(d.find_start_of_previous_word(count=op[1], WORD=bool(op[2]), pattern=mk_pattern(op[3])))
    if k == 33:
        return S(d.get_word_before_cursor(WORD=bool(op[1]), pattern=mk_pattern(op[2])))
    raise ValueError(k)


def impl_op(d, op):
    try:
        return [0, impl_call(d, op)]
    except AssertionError:
        return [1]
    except IndexError:
        return [2]
    except Hang:
        return [98]
    except Exception:  # noqa
        return [99]


class Runner:
    """Evaluates the ops of a group of cases (usually: all cursors of one
    text) in shuffled order on a mixture of fresh and long-lived Document
    objects, so that documents with equal text share the module-level line
    cache in every population order (lines first / line_indexes first), and
    documents of other texts stay alive next to them."""

    def __init__(self, rng):
        self.rng = rng
        self.keep = []          # documents of earlier groups, kept alive
        self.groups = 0
        self.fresh = 0
        self.shared = 0

    def run_group(self, cases):
        from prompt_toolkit.document import Document
        rng = self.rng
        results = [None] * len(cases)
        docs = {}
        jobs = []
        for ci, (text, cur, ops) in enumerate(cases):
            t = unS(text)
            try:
                docs[ci] = Document(t, cur)
            except AssertionError:
                results[ci] = [1]
                continue
            results[ci] = [None] * len(ops)
            jobs += [(ci, oi) for oi in range(len(ops))]
        rng.shuffle(jobs)

        def work():
            for ci, oi in jobs:
                text, cur, ops = cases[ci]
                if rng.random() < 0.3:
                    d = Document(unS(text), cur)      # new object, same text: shares (or re-creates) the cache
                    self.fresh += 1
                else:
                    d = docs[ci]
                    self.shared += 1
                results[ci][oi] = impl_op(d, ops[oi])
        try:
            with_watchdog(work, 20 + len(jobs) // 2000)
        except Hang:
            for ci in range(len(cases)):
                if isinstance(results[ci], list):
                    results[ci] = [[98] if r is None else r for r in results[ci]]
        for d in docs.values():
            if rng.random() < 0.1:
                self.keep.append(d)
        if len(self.keep) > 64:
            del self.keep[:32]
        self.groups += 1
        if self.groups % 64 == 0:
            gc.collect()
        return results


# --------------------------------------------------------------------------
# oracle: the theorem statements transcribed for the implementation's results

import re as _re
_SPACE = None


_BLANK = {}


def is_blank(c):
    r = _BLANK.get(c)
    if r is None:
        r = _BLANK[c] = _re.match(r"\s", c) is not None
    return r


def is_wordch(c):
    return ("a" <= c <= "z") or ("A" <= c <= "Z") or ("0" <= c <= "9") or c == "_"


def cls(c, WORD):
    if is_blank(c):
        return 0
    if WORD:
        return 1
    return 1 if is_wordch(c) else 2


def clsat(t, i, WORD):
    return cls(t[i], WORD) if 0 <= i < len(t) else 0


_IEQ = {}


def ieq(occ, sub):
    """occ equals sub character-wise under re.IGNORECASE (what find(ignore_case=True) must report)"""
    if len(occ) != len(sub):
        return False
    key = (occ, sub)
    r = _IEQ.get(key)
    if r is None:
        r = _IEQ[key] = _re.fullmatch(_re.escape(sub), occ, _re.IGNORECASE | _re.DOTALL) is not None
        if len(_IEQ) > 200000:
            _IEQ.clear()
    return r


def is_word_start(t, i, WORD):
    k = clsat(t, i, WORD)
    return k != 0 and clsat(t, i - 1, WORD) != k


def is_word_end(t, i, WORD):
    """i is the exclusive end of a word: t[i-1] is its last character"""
    k = clsat(t, i - 1, WORD)
    return k != 0 and clsat(t, i, WORD) != k


def balanced(span, l, r):
    depth = 0
    for c in span:
        if c == l:
            depth += 1
        elif c == r:
            depth -= 1
            if depth < 0:
                return False
    return depth == 0


def greedy_occurrences(text, sub, ig):
    """leftmost non-overlapping occurrences (the empty needle occurs at every offset); under
    re.IGNORECASE's character equivalence when ig"""
    out, pos, m = [], 0, len(sub)
    while pos <= len(text):
        if ig:
            k = next((j for j in range(pos, len(text) - m + 1) if ieq(text[j:j + m], sub)), -1)
        else:
            k = text.find(sub, pos)
        if k < 0:
            break
        out.append(k)
        pos = k + max(1, m)
    return out


def line_bounds(t, cur):
    a = t.rfind("\n", 0, cur) + 1
    e = t.find("\n", cur)
    return a, (len(t) if e < 0 else e)


def _oracle_op(t, cur, op, res, d):
    """None or (clause, family).  `d` is a Document(t, cur) for follow-up queries."""
    k = op[0]
    n = len(t)
    name = OPNAMES[k]
    if res[0] == 98:
        return (name + " did not terminate", "hang")
    if k in (32, 33) and op[2 if k == 32 else 1]:
        # `assert not (WORD and pattern)`: the documented precondition; nothing else to judge
        return None if res == [1] else (name + ": WORD together with pattern did not raise AssertionError", "raise")
    if res[0] != 0:
        return (name + " raised", "raise")       # no query of Document may raise for a valid document
    v = res[1]
    a, e = line_bounds(t, cur)
    lines = t.split("\n")
    row = t.count("\n", 0, cur)
    col = cur - a

    def bounds(r, fam="bounds"):
        if not (0 <= cur + r <= n):
            return ("%s: offset %d from cursor %d leaves 0..%d" % (name, r, cur, n), fam)
        return None

    def same_line(r, fam="same-line"):
        if not (a <= cur + r <= e):
            return ("%s: offset %d from cursor %d leaves the current line [%d,%d]" % (name, r, cur, a, e), fam)
        return None

    if k == 1:
        tb, ta, clb, cla, cl = [unS(x) for x in v[:5]]
        ls = [unS(x) for x in v[5]]
        if tb + ta != t or len(tb) != cur:
            return ("views: text_before + text_after != text", "views")
        if clb + cla != cl or "\n" in cl or not tb.endswith(clb) or not ta.startswith(cla):
            return ("views: current line parts", "views")
        if "\n".join(ls) != t or any("\n" in l for l in ls) or ls != lines:
            return ("views: lines is not text.split(newline) / join is not its inverse", "views")
        if v[6] != 1 + t.count("\n") or v[6] != len(ls):
            return ("views: line_count != 1 + number of newlines", "views")
        if v[7] != [sum(len(x) + 1 for x in ls[:j]) for j in range(len(ls))]:
            return ("views: line start table", "views")
        if v[8] != row or v[9] != col:
            return ("views: cursor row/col != (newlines before cursor, distance to previous newline)", "views")
        if cl != ls[row] or t[a:e] != cl:
            return ("views: current_line != lines[row]", "views")
        if v[10] != int(row == 0) or v[11] != int(row == len(ls) - 1):
            return ("views: on_first_line/on_last_line", "views")
        # the character views (theorem C02_views_chars)
        if v[12] != ([ord(t[cur])] if cur < n else []):
            return ("views: current_char is not the character at the cursor", "views")
        if cur > 0 and v[13] != [ord(t[cur - 1])]:
            return ("views: char_before_cursor is not the character before the cursor", "views")
        if v[14] != int(cur == n) or v[15] != int(cur == e):
            return ("views: is_cursor_at_the_end / is_cursor_at_the_end_of_line", "views")
        cl_ = t[a:e]
        if unS(v[16]) != cl_[:len(cl_) - len(cl_.lstrip())]:
            return ("views: leading_whitespace_in_current_line", "views")
        if [unS(x) for x in v[17]] != lines[row:]:
            return ("views: lines_from_current is not lines[row:]", "views")
        return None
    if k == 2:
        i = op[1]
        if 0 <= i <= n:
            r0, c0 = t.count("\n", 0, i), i - (t.rfind("\n", 0, i) + 1)
            if v != [r0, c0]:
                return ("translate_index_to_position(%d) != (newlines before, distance to previous newline)" % i, "index-to-position")
            if d.translate_row_col_to_index(v[0], v[1]) != i:
                return ("index -> (row, col) -> index is not the identity at %d" % i, "roundtrip")
        return None
    if k == 3:
        r0, c0 = op[1], op[2]
        if not (0 <= v <= n):
            return ("translate_row_col_to_index result outside 0..len", "bounds")
        if 0 <= r0 < len(lines) and 0 <= c0 <= len(lines[r0]):
            if v != sum(len(x) + 1 for x in lines[:r0]) + c0:
                return ("translate_row_col_to_index(%d,%d) != start of line + col" % (r0, c0), "position-to-index")
            if list(d.translate_index_to_position(v)) != [r0, c0]:
                return ("(row, col) -> index -> (row, col) is not the identity", "roundtrip")
        return None
    if k in (4, 5):
        c = op[1]
        bad = bounds(v) or same_line(v)
        if bad:
            return bad
        if c >= 0:
            exp = -min(col, c) if k == 4 else min(c, e - cur)
            if v != exp:
                return ("%s(%d) is not min(count, available) characters" % (name, c), "lands")
        return None
    if k in (6, 7):
        c, pc = op[1], unO(op[2])
        bad = bounds(v)
        if bad:
            return bad
        # a negative count is the opposite motion (fix 46fed32)
        up = (k == 6) == (c >= 0)
        trow = max(0, row - abs(c)) if up else min(len(lines) - 1, row + abs(c))
        want = col if pc is None else pc
        tcol = max(0, min(want, len(lines[trow])))
        tgt = cur + v
        if t.count("\n", 0, tgt) != trow or tgt - (t.rfind("\n", 0, tgt) + 1) != tcol:
            return ("%s(count=%d, preferred_column=%r): target is not (row moved by min(count, available), column min(preferred, len line))" % (name, c, pc), "lands")
        return None
    if k == 8:
        bad = bounds(v) or same_line(v)
        if bad:
            return bad
        cl = t[a:e]
        exp = a + (len(cl) - len(cl.lstrip()) if op[1] else 0)
        if cur + v != exp:
            return ("get_start_of_line_position: target is not the line start (after leading blanks)", "lands")
        return None
    if k == 9:
        bad = bounds(v) or same_line(v)
        if bad:
            return bad
        if cur + v != e:
            return ("get_end_of_line_position: target is not the end of the line", "lands")
        return None
    if k == 10:
        fam = "blank-line" if t[a:e].strip() == "" else "non-blank-line"
        bad = bounds(v, fam) or same_line(v, fam)
        if bad:
            return bad
        tgt = cur + v
        if fam == "blank-line":
            return None        # nothing to land on: staying on the line is all the property asks
        if is_blank(t[tgt:tgt + 1] or " ") or t[tgt + 1:e].strip() != "":
            return ("last_non_blank_of_current_line_position: target is not the last non-blank character of the line", fam)
        return None
    if k == 11:
        bad = bounds(v) or same_line(v)
        if bad:
            return bad
        if cur + v != a + max(0, min(e - a, op[1])):
            return ("get_column_cursor_position: target column is not clamp(column, 0, len line)", "lands")
        return None
    if k == 12:
        return None if cur + v == 0 else ("get_start_of_document_position does not land on 0", "lands")
    if k == 13:
        return None if cur + v == n else ("get_end_of_document_position does not land on len(text)", "lands")
    if k == 14:
        r = unO(v)
        sub, il, ic, ig = unS(op[1]), op[2], op[3], op[4]
        if op[5] >= 1:
            # the count-th element of the greedy list of occurrences in the scanned text (C02_find_exact)
            scanned = t[cur:e] if il else t[cur:]
            if not ic and scanned == "":
                want = None
            else:
                occs = greedy_occurrences(scanned if ic else scanned[1:], sub, ig)
                want = (occs[op[5] - 1] + (0 if ic else 1)) if len(occs) >= op[5] else None
            if r != want:
                return ("find(%r, count=%d): answer %r, but the count-th occurrence after the cursor is at offset %r" % (sub, op[5], r, want), "nth")
        if r is None:
            return None
        bad = bounds(r) or (same_line(r) if il else None)
        if bad:
            return bad
        tgt = cur + r
        occ = t[tgt:tgt + len(sub)]
        if (not ieq(occ, sub)) if ig else (occ != sub):
            return ("find(%r): the needle does not occur at the reported target %d" % (sub, tgt), "lands")
        if r < 0 or (r == 0 and not ic):
            return ("find: target is not after the cursor", "lands")
        if il and tgt + len(sub) > e:
            return ("find(in_current_line): match extends past the line", "same-line")
        return None
    if k == 15:
        r = unO(v)
        sub, il, ig = unS(op[1]), op[2], op[3]
        if op[4] >= 1:
            before = (t[a:cur] if il else t[:cur])[::-1]
            occs = greedy_occurrences(before, sub[::-1], ig)
            want = (-occs[op[4] - 1] - len(sub)) if len(occs) >= op[4] else None
            if r != want:
                return ("find_backwards(%r, count=%d): answer %r, but the count-th occurrence before the cursor (from the right) is at offset %r" % (sub, op[4], r, want), "nth")
        if r is None:
            return None
        bad = bounds(r) or (same_line(r) if il else None)
        if bad:
            return bad
        tgt = cur + r
        occ = t[tgt:tgt + len(sub)]
        if (not ieq(occ, sub)) if ig else (occ != sub):
            return ("find_backwards(%r): the needle does not occur at the reported target %d" % (sub, tgt), "lands")
        if tgt + len(sub) > cur:
            return ("find_backwards: match is not before the cursor", "lands")
        return None
    if k == 16:
        sub, ig = unS(op[1]), op[2]
        if v != greedy_occurrences(t, sub, ig):
            return ("find_all(%r): not the leftmost non-overlapping list of all occurrences" % sub, "nth")
        for p in v:
            occ = t[p:p + len(sub)]
            if not (0 <= p <= n) or ((not ieq(occ, sub)) if ig else (occ != sub)):
                return ("find_all(%r): the needle does not occur at reported position %d" % (sub, p), "lands")
        return None
    if k == 17:
        if bool(v) != t.startswith(unS(op[1]), cur):
            return ("has_match_at_current_position", "lands")
        return None
    if k in (18, 20, 21, 22, 23):
        r = unO(v)
        cnt = op[2] if k == 21 else op[1]
        W = bool(op[3] if k == 21 else op[2])
        fam = "lands"
        if cnt < 1:
            return None        # the property quantifies over counts >= 1
        # exactly the count-th word start / word end in the direction of the motion
        # (theorems C02_*_exact); None iff there are fewer
        if k == 20:
            cands = [j for j in range(cur + 1, n) if is_word_start(t, j, W)]
        elif k == 21:
            cands = [j for j in range((cur if op[1] else cur + 1) + 1, n + 1) if is_word_end(t, j, W)]
        elif k in (18, 22):
            cands = [j for j in range(cur - 1, -1, -1) if is_word_start(t, j, W)]
        else:
            cands = [j for j in range(cur, 0, -1) if is_word_end(t, j, W)]
        want = cands[cnt - 1] - cur if len(cands) >= cnt else None
        if k == 23 and cur == n and r != want:
            # Known finding C02-F2, and ONLY it: at the end of the text the code answers with the count-th
            # word end j <= n - 1 (counting backwards) reported as j + 1 - n, None if there are fewer
            # (theorem C02_previous_word_ending_exact).  Any other wrong answer is an ordinary violation.
            kc = [j for j in range(n - 1, 0, -1) if is_word_end(t, j, W)]
            known = kc[cnt - 1] + 1 - n if len(kc) >= cnt else None
            if r == known:
                return ("%s(count=%d) with the cursor at the end of the text: answer %r, but the count-th word end "
                        "before the cursor is at offset %r (off by one / the word ending at the cursor is skipped)"
                        % (name, cnt, r, want), "cursor-at-end-of-text")
        if r != want:
            return ("%s(count=%d): answer %r, but the count-th word %s %s the cursor is at offset %r" % (
                name, cnt, r, "end" if k in (21, 23) else "start", "after" if k in (20, 21) else "before", want),
                "nth")
        if r is None:
            return None
        bad = bounds(r, "bounds")
        if bad:
            return bad
        tgt = cur + r
        if k in (18, 22):
            if not (r < 0 and is_word_start(t, tgt, W)):
                return ("%s: target %d is not the start of a word before the cursor" % (name, tgt), fam)
        elif k == 20:
            if not (r > 0 and is_word_start(t, tgt, W)):
                return ("%s: target %d is not the start of a word after the cursor" % (name, tgt), fam)
        elif k == 21:
            if not (r > 0 and is_word_end(t, tgt, W)):
                return ("%s: target %d is not the end of a word after the cursor" % (name, tgt), fam)
        elif k == 23:
            if not (r <= 0 and is_word_end(t, tgt, W)):
                return ("%s: target %d is not the (exclusive) end of a word before the cursor" % (name, tgt), fam)
        return None
    if k == 19:
        s0, e0 = v
        W, lead, trail = bool(op[1]), op[2], op[3]
        if not (s0 <= 0 <= e0):
            return ("find_boundaries_of_current_word: start > 0 or end < 0", "lands")
        bad = bounds(s0) or bounds(e0) or same_line(s0) or same_line(e0)
        if bad:
            return bad
        # exact: the maximal run of one class on each side of the cursor (joined only when both sides
        # have the same class), extended over the blanks of the line when the flag is set
        # (C02_word_boundaries_is_run / _trailing_ws / _leading_ws)
        def side(seg, ws):
            if not seg or is_blank(seg[0]):
                return 0
            kk, m = cls(seg[0], W), 0
            while m < len(seg) and cls(seg[m], W) == kk:
                m += 1
            if ws:
                while m < len(seg) and is_blank(seg[m]):
                    m += 1
            return m
        we, ws_ = side(t[cur:e], trail), side(t[a:cur][::-1], lead)
        if not W and we and ws_ and is_wordch(t[cur - 1]) != is_wordch(t[cur]):
            ws_ = 0
        if [s0, e0] != [-ws_, we]:
            return ("find_boundaries_of_current_word: answer %r, the word around the cursor is %r" % ([s0, e0], [-ws_, we]), "exact")
        if not lead and not trail:
            span = t[cur + s0:cur + e0]
            if any(is_blank(c) for c in span) or len(set(cls(c, W) for c in span)) > 1:
                return ("find_boundaries_of_current_word: the word contains a blank or characters of two classes", "lands")
            if e0 > 0 and not is_word_end(t[a:e], cur + e0 - a, W):
                return ("find_boundaries_of_current_word: end is not a word end", "lands")
            if s0 < 0 and not is_word_start(t[a:e], cur + s0 - a, W):
                return ("find_boundaries_of_current_word: start is not a word start", "lands")
        return None
    if k in (24, 25):
        r = unO(v)
        l, rr, lim = chr(op[1]), chr(op[2]), unO(op[3])
        # exactly (C02_bracket_scanners_exact): 0 on the bracket itself, otherwise THE first position of the
        # span up to the limit that holds the partner with a balanced span in between; None iff there is none
        if k == 24:
            if t[cur:cur + 1] == rr:
                want = 0
            else:
                hi = n if lim is None else min(n, lim)
                want = next((i - cur for i in range(cur + 1, hi) if l != rr and t[i] == rr and balanced(t[cur + 1:i], l, rr)), None)
        else:
            if t[cur:cur + 1] == l:
                want = 0
            else:
                lo = 0 if lim is None else max(0, lim)
                want = next((i - cur for i in range(cur - 1, lo - 1, -1)
                             if l != rr and t[i] == l and balanced(t[i + 1:cur][::-1], rr, l)), None)
        if r != want:
            return ("%s(%r, %r, limit=%r): answer %r, the enclosing bracket is at offset %r" % (name, l, rr, lim, r, want), "exact")
        if r is None:
            return None
        bad = bounds(r)
        if bad:
            return bad
        tgt = cur + r
        want = rr if k == 24 else l
        if tgt >= n or t[tgt] != want:
            return ("%s: target %d does not hold %r" % (name, tgt, want), "lands")
        if (k == 24 and r < 0) or (k == 25 and r > 0):
            return ("%s: wrong direction" % name, "lands")
        if l != rr and r != 0:
            span = t[cur + 1:tgt] if k == 24 else t[tgt + 1:cur]
            if not balanced(span, l, rr):
                return ("%s: the span between cursor and target is not balanced" % name, "lands")
        if r != 0 and lim is not None and ((k == 24 and tgt >= lim) or (k == 25 and tgt < lim)):
            return ("%s: target beyond the given limit" % name, "lands")
        return None
    if k == 26:
        bad = bounds(v)
        if bad:
            return bad
        if v != 0:
            cc = t[cur:cur + 1]
            tgt = cur + v
            for A_, B_ in ("()", "[]", "{}", "<>"):
                if cc == A_:
                    if not (v > 0 and t[tgt] == B_ and balanced(t[cur + 1:tgt], A_, B_)):
                        return ("find_matching_bracket_position: target is not the matching closer", "lands")
                    return None
                if cc == B_:
                    if not (v < 0 and t[tgt] == A_ and balanced(t[tgt + 1:cur], A_, B_)):
                        return ("find_matching_bracket_position: target is not the matching opener", "lands")
                    return None
            return ("find_matching_bracket_position: moved although the cursor is not on a bracket", "lands")
        return None
    if k in (27, 28):
        if op[1] < 1:
            return None
        bad = bounds(v)
        if bad:
            return bad
        if (k == 27 and v > 0) or (k == 28 and v < 0):
            return ("%s: wrong direction" % name, "lands")
        # lands, exactly (theorems C02_start/end_of_paragraph_lands + C02_matching_line_is_count_th): the
        # index of (B, min(cursor column, len of line B)) for B the count-th blank row above/below (the
        # farthest one when there are fewer), +1 unless before / -1 unless after; the document
        # start/end when there is no blank row
        tgt = cur + v
        blank = lambda l: l.strip() == ""  # noqa
        start_of = lambda j: sum(len(x) + 1 for x in lines[:j])  # noqa
        if k == 27:
            rows = [j for j in range(row - 1, -1, -1) if blank(lines[j])][:op[1]]
            if not rows:
                if tgt != 0:
                    return ("start_of_paragraph: no blank line above, target is not the document start", "lands")
            else:
                B = rows[-1]
                exp = start_of(B) + min(col, len(lines[B])) + (0 if op[2] else 1)
                if tgt != exp:
                    return ("start_of_paragraph(count=%d, before=%r): target %d, expected %d = (blank row %d, clipped column) %s"
                            % (op[1], bool(op[2]), tgt, exp, B, "" if op[2] else "+ 1"), "lands")
        else:
            rows = [j for j in range(row + 1, len(lines)) if blank(lines[j])][:op[1]]
            if not rows:
                if tgt != n:
                    return ("end_of_paragraph: no blank line below, target is not the document end", "lands")
            else:
                B = rows[-1]
                exp = start_of(B) + min(col, len(lines[B])) - (0 if op[2] else 1)
                if tgt != exp:
                    return ("end_of_paragraph(count=%d, after=%r): target %d, expected %d = (blank row %d, clipped column) %s"
                            % (op[1], bool(op[2]), tgt, exp, B, "" if op[2] else "- 1"), "lands")
        return None
    if k in (29, 30):
        W = bool(op[1])
        w = unS(v)
        if k == 29:
            # empty, or exactly the characters from the start of the previous word to the cursor
            # (C02_word_before_cursor + C02_previous_word_beginning_exact)
            if cur == 0 or t[cur - 1].isspace():
                want = ""
            else:
                j = cur - 1
                while j > 0 and cls(t[j - 1], W) == cls(t[cur - 1], W) and cls(t[cur - 1], W) != 0:
                    j -= 1
                want = t[j:cur] if cls(t[cur - 1], W) != 0 else None
            if want is not None and w != want:
                return ("get_word_before_cursor: answer %r, the word before the cursor is %r" % (w, want), "lands")
        else:
            s0, e0 = d.find_boundaries_of_current_word(WORD=W)
            if w != t[cur + s0:cur + e0]:
                return ("get_word_under_cursor is not the text between the boundaries of the current word", "lands")
        return None
    if k == 31:
        # exactly the number of trailing blank lines (C02_empty_line_count_exact)
        cnt = 0
        for l in reversed(lines):
            if l.strip() == "":
                cnt += 1
            else:
                break
        if v != cnt:
            return ("empty_line_count_at_the_end: answer %d, the text ends with %d blank line(s)" % (v, cnt), "lands")
        return None
    if k in (32, 33):
        p = op[3] if k == 32 else op[2]
        kind = p[0]
        # the count-th previous match of the pattern, scanning backwards from the cursor
        # (C02_start_of_previous_word_pattern_exact): runs of one class of the pattern; for `^[s]*` the run of
        # s-characters immediately before the cursor, once
        def start_for(cnt):
            if cnt < 1:
                return None
            if kind == 2:
                j = cur
                while j > 0 and pat_cls(p, t[j - 1]) == 1:
                    j -= 1
                return (j - cur) if cnt == 1 else None
            cat = lambda i: pat_cls(p, t[i]) if 0 <= i < cur else 0  # noqa
            cands = [j for j in range(cur - 1, -1, -1) if cat(j) != 0 and cat(j - 1) != cat(j)]
            return cands[cnt - 1] - cur if len(cands) >= cnt else None
        if k == 32:
            r = unO(v)
            if op[1] >= 1:
                want = start_for(op[1])
                if r != want:
                    return ("find_start_of_previous_word(count=%d, pattern=%r): answer %r, the count-th match before the cursor starts at offset %r"
                            % (op[1], mk_pattern(p).pattern, r, want), "nth")
            if r is not None:
                return bounds(r) or (None if r <= 0 else ("find_start_of_previous_word(pattern=): target after the cursor", "lands"))
            return None
        st = start_for(1)
        want = "" if st is None else t[cur + st:cur]
        if unS(v) != want:
            return ("get_word_before_cursor(pattern=%r): answer %r, expected %r" % (mk_pattern(p).pattern, unS(v), want), "lands")
        return None
    return None


def oracle_op(t, cur, op, res, d):
    """The oracle must never crash on an answer it did not expect: an answer it
    cannot even interpret (wrong shape, target outside every table it indexes)
    is reported as a violation with the input."""
    try:
        return _oracle_op(t, cur, op, res, d)
    except Exception as e:  # noqa
        return ("%s: the answer %r cannot be interpreted by the oracle (%s: %s)" % (
            OPNAMES.get(op[0], "?"), res, type(e).__name__, e), "uninterpretable")


# --------------------------------------------------------------------------
# generators

def needles_for(t, rng=None, extra=()):
    subs = {""}
    for i in range(len(t)):
        subs.add(t[i:i + 1])
        subs.add(t[i:i + 2])
    subs.update(["z", "a.", "aa"])
    subs.update(extra)
    return sorted(subs)


def ops_for(t, cur, full=True):
    n = len(t)
    nl = t.count("\n") + 1
    ops = [[1]]
    ops += [[2, i] for i in range(-1, n + 2)]
    for r in range(-2, nl + 2):
        for c in (-1, 0, 1, 2, 3, n + 1):
            ops.append([3, r, c])
    for c in (-2, -1, 0, 1, 2, 3, 7):
        ops += [[4, c], [5, c]]
    for c in (-2, -1, 0, 1, 2, 3):
        for pc in ([], [0], [1], [2], [5], [-1]):
            ops += [[6, c, pc], [7, c, pc]]
    ops += [[8, 0], [8, 1], [9], [10], [12], [13]]
    ops += [[11, c] for c in (-1, 0, 1, 2, 9)]
    nds = needles_for(t)
    nds += [x.upper() for x in nds if x.upper() != x]
    for nd in nds:
        s = S(nd)
        cased = is_cased(nd) and uncased_outside_ascii(t + nd)
        igs = (0, 1) if cased else (0,)
        for ig in igs:
            for cnt in (1, 2, 3):
                for il in (0, 1):
                    for ic in (0, 1):
                        ops.append([14, s, il, ic, ig, cnt])
                    ops.append([15, s, il, ig, cnt])
            ops.append([16, s, ig])
        ops.append([14, s, 0, 1, 0, 0])
        ops.append([15, s, 0, 0, -1])
        ops.append([17, s])
    for W in (0, 1):
        for cnt in (-2, -1, 0, 1, 2, 3):
            ops += [[18, cnt, W], [20, cnt, W], [22, cnt, W], [23, cnt, W], [21, 0, cnt, W], [21, 1, cnt, W]]
        for lead in (0, 1):
            for trail in (0, 1):
                ops.append([19, W, lead, trail])
        ops += [[29, W], [30, W]]
    for lim in [[]] + [[x] for x in range(-1, n + 2)]:
        ops += [[24, 40, 41, lim], [25, 40, 41, lim]]
    ops += [[24, 97, 97, []], [25, 97, 97, []], [24, 46, 95, []], [25, 46, 95, []], [24, 41, 40, []], [25, 41, 40, []]]
    for sp in ([], [0], [1], [2]):
        for ep in ([], [n], [n - 1], [1]):
            ops.append([26, sp, ep])
    for cnt in (-1, 0, 1, 2, 3):
        for b in (0, 1):
            ops += [[27, cnt, b], [28, cnt, b]]
    ops.append([31])
    for pt in FIXED_PATS:
        for cnt in (-1, 0, 1, 2, 3):
            ops.append([32, cnt, 0, pt])
        ops.append([33, 0, pt])
    ops += [[32, 1, 1, FIXED_PATS[0]], [33, 1, FIXED_PATS[5]]]
    return ops


def rand_text(rng, maxlen):
    n = rng.choice([0, 1, 2, 3, 5, 8, 13, 21, maxlen])
    kind = rng.random()
    parts = []
    for _ in range(n):
        r = rng.random()
        if kind < 0.3 and r < 0.5:
            parts.append(rng.choice("()[]{}<>"))
        elif kind < 0.6 and r < 0.4:
            parts.append(rng.choice(["ab", "Ab", "x_1", "..", "foo", "  ", "\n\n", "\n \n"]))
        else:
            parts.append(rng.choice(RAND_ALPHA))
    return "".join(parts)[:maxlen]


def uncased_outside_ascii(s):
    """every character is cased (the regenerated table covers all of them) or an uncased character the
    table generator checked to match only itself"""
    return all(c in FOLD_G for c in s)


def is_cased(s):
    return any(c.lower() != c or c.upper() != c for c in s)


def fold_ops_for(t, cur):
    """find-family queries with and without ignore_case for the case-folding stratum: needles are the
    substrings of the text and their upper/lower/swapcase/casefold variants"""
    subs = set()
    for i in range(len(t)):
        for w in (1, 2):
            x = t[i:i + w]
            subs.update([x, x.upper(), x.lower(), x.swapcase(), x.casefold()])
    subs.update(["s", "ss", "i", "fi"])
    ops = []
    for nd in sorted(x for x in subs if x and uncased_outside_ascii(x)):
        sx_ = S(nd)
        for ig in (0, 1):
            for cnt in (1, 2):
                for il in (0, 1):
                    for ic in (0, 1):
                        ops.append([14, sx_, il, ic, ig, cnt])
                    ops.append([15, sx_, il, ig, cnt])
            ops.append([16, sx_, ig])
        ops.append([17, sx_])
    return ops


def rand_ops(rng, t, cur, k):
    n = len(t)
    ops = []
    cnt = lambda: rng.choice([-2, -1, 0, 1, 1, 1, 2, 2, 3, 4, 7, n, n + 1])  # noqa
    oi = lambda: rng.choice([[], [], [rng.randint(-2, n + 2)]])  # noqa
    b = lambda: rng.randint(0, 1)  # noqa
    for _ in range(k):
        code = rng.choice(list(range(1, 34)) + [14, 15, 14, 15, 19, 20, 21, 22, 23, 23, 24, 25, 26, 26, 27, 28, 6, 7, 10, 32, 33])
        if code in (1, 9, 10, 12, 13, 31):
            ops.append([code])
        elif code == 2:
            ops.append([2, rng.randint(-2, n + 2)])
        elif code == 3:
            ops.append([3, rng.randint(-2, t.count("\n") + 2), rng.randint(-2, n + 2)])
        elif code in (4, 5, 11):
            ops.append([code, cnt()])
        elif code in (6, 7):
            ops.append([code, cnt(), rng.choice([[], [], [rng.randint(-1, 12)]])])
        elif code == 8:
            ops.append([8, b()])
        elif code in (14, 15, 16, 17):
            if n and rng.random() < 0.8:
                i = rng.randint(0, n - 1)
                nd = t[i:i + rng.choice([1, 1, 2, 3])]
                if rng.random() < 0.2:
                    nd = nd.swapcase() if uncased_outside_ascii(nd) else nd
            else:
                nd = rng.choice(["", "a", "zz", ".", "\n", " "])
            ig = b() if uncased_outside_ascii(t + nd) else 0
            if code == 14:
                ops.append([14, S(nd), b(), b(), ig, cnt()])
            elif code == 15:
                ops.append([15, S(nd), b(), ig, cnt()])
            elif code == 16:
                ops.append([16, S(nd), ig])
            else:
                ops.append([17, S(nd)])
        elif code in (18, 20, 22, 23):
            ops.append([code, cnt(), b()])
        elif code == 21:
            ops.append([21, b(), cnt(), b()])
        elif code == 19:
            ops.append([19, b(), b(), b()])
        elif code in (24, 25):
            l, r = rng.choice(["()", "[]", "{}", "<>", "()", '""', ")(", "ab"])
            ops.append([code, ord(l), ord(r), oi()])
        elif code == 26:
            ops.append([26, oi(), oi()])
        elif code in (27, 28):
            ops.append([code, cnt(), b()])
        elif code in (29, 30):
            ops.append([code, b()])
        elif code in (32, 33):
            if rng.random() < 0.3:
                pt = rng.choice(FIXED_PATS)
            else:
                pool = sorted(set(t)) or ["a"]
                s1 = rng.sample(pool, rng.randint(1, min(4, len(pool))))
                rest = [c for c in pool if c not in s1]
                kind = rng.choice([0, 0, 1, 2])
                s2 = rng.sample(rest, rng.randint(0, min(3, len(rest)))) if kind == 0 else []
                pt = [kind, S("".join(s1)), S("".join(s2))]
            W = 1 if rng.random() < 0.1 else 0
            ops.append([32, cnt(), W, pt] if code == 32 else [33, W, pt])
    return ops


def gen_groups(chk, dist):
    """yields groups; a group is a list of cases sharing one text (lazy: the thorough
    scope does not fit in memory at once)."""
    rng = chk.rng
    thorough = chk.tier == "thorough"
    dist.update({"exhaustive_texts": 0, "exhaustive_cases": 0, "stratum_texts": 0, "random_cases": 0, "malformed": 0})
    full_n = 4 if thorough else 3
    # malformed: cursor beyond the end (Document.__init__ asserts)
    for t in ("", "a", "a\nb"):
        yield [[S(t), len(t) + 1, [[1]]], [S(t), len(t) + 5, [[9]]]]
        dist["malformed"] += 2
    # the length <= full_n scope is enumerated completely in thorough; quick takes every
    # text of length <= 2 and a stratum of length 3
    for k in range(0, full_n + 1):
        for x in itertools.product(ALPHA, repeat=k):
            t = "".join(x)
            if not thorough and len(t) == 3 and rng.random() >= 0.12:
                continue
            g = [[S(t), cur, ops_for(t, cur)] for cur in range(len(t) + 1)]
            dist["exhaustive_texts"] += 1
            dist["exhaustive_cases"] += len(g)
            yield g
    # case-folding stratum: cased non-ASCII letters, including the ones whose casefold() changes length
    dist["casefold_cases"] = 0
    fold_full = 2
    for k in range(1, fold_full + 1):
        for x in itertools.product(FOLD_SMALL, repeat=k):
            t = "".join(x)
            if not thorough and k == 2 and rng.random() >= 0.12:
                continue
            g = [[S(t), cur, fold_ops_for(t, cur)] for cur in range(len(t) + 1)]
            dist["casefold_cases"] += len(g)
            yield g
    for _ in range(800 if thorough else 70):
        t = "".join(rng.choice(FOLD_SMALL) for _ in range(rng.choice([3, 3, 4, 5, 8])))
        curs = sorted(set([0, len(t), rng.randint(0, len(t))]))
        g = [[S(t), cur, fold_ops_for(t, cur)] for cur in curs]
        dist["casefold_cases"] += len(g)
        yield g
    # every cased code point of the running interpreter (the regenerated table covers all 2927 of them):
    # the character next to its one-character case variants; quick takes a sample
    cased_sorted = sorted(CASED)
    dist["casefold_wide_cases"] = 0
    for c in (cased_sorted if thorough else rng.sample(cased_sorted, 80)):
        var = [v for v in (c.swapcase(), c.upper(), c.lower(), c.title(), c.casefold()) if len(v) == 1 and v != c and v in FOLD_G]
        t = c + (var[0] if var else c) + rng.choice(FOLD_SMALL) + (var[-1] if var else c)
        g = [[S(t), cur, fold_ops_for(t, cur)] for cur in (0, len(t))]
        dist["casefold_wide_cases"] += len(g)
        yield g
    for _ in range(600 if thorough else 60):
        t = "".join(rng.choice(FOLD_WIDE) for _ in range(rng.choice([2, 3, 4, 6])))
        curs = sorted(set([0, len(t), rng.randint(0, len(t))]))
        g = [[S(t), cur, fold_ops_for(t, cur)] for cur in curs]
        dist["casefold_wide_cases"] += len(g)
        yield g
    # a stratum of the next sizes
    for k, cnt in ((full_n + 1, 600 if thorough else 100), (full_n + 2, 200 if thorough else 30)):
        for _ in range(cnt):
            t = "".join(rng.choice(ALPHA) for _ in range(k))
            curs = sorted(set([0, len(t)] + [rng.randint(0, len(t)) for _ in range(2)]))
            dist["stratum_texts"] += 1
            yield [[S(t), cur, ops_for(t, cur)] for cur in curs]
    nrand = 3000 if thorough else 350
    for _ in range(nrand):
        t = rand_text(rng, 48)
        g = []
        for _ in range(rng.choice([1, 2, 3])):
            cur = rng.choice([0, len(t), rng.randint(0, len(t)), rng.randint(0, len(t))])
            g.append([S(t), cur, rand_ops(rng, t, cur, rng.randint(4, 24))])
        dist["random_cases"] += len(g)
        yield g


# --------------------------------------------------------------------------
# the line cache as a memo table (Model/C02_Cache.v): operation sequences

CACHE_TEXTS = ["\u03a9", "\u03a9\nab", "\u03a9x\n\ny\n", "\u03a9 \n"]
CACHE_OPNAMES = {1: "Document()", 2: "lines", 3: "_line_start_indexes", 4: "drop all Documents of the text"}


def gen_cache_cases(chk):
    rng = chk.rng
    out = []
    for _ in range(400 if chk.tier == "thorough" else 40):
        ops = [[rng.choice([1, 2, 2, 3, 3, 4]), S(rng.choice(CACHE_TEXTS))] for _ in range(rng.randint(2, 14))]
        out.append([-1, ops])
    # every order of lines / indexes / drop on one text
    for perm in itertools.permutations([2, 3, 4, 2, 3], 4):
        out.append([-1, [[1, S(CACHE_TEXTS[1])]] + [[c, S(CACHE_TEXTS[1])] for c in perm]])
    return out


def impl_cache_case(case):
    import prompt_toolkit.document as m
    live = {}
    gc.collect()
    out = []
    for code, ts in case[1]:
        t = unS(ts)
        val = []
        if code == 4:
            live.pop(t, None)
            gc.collect()
        else:
            if code == 1 or t not in live:
                live.setdefault(t, []).append(m.Document(t, 0))
            d = live[t][-1]
            if code == 2:
                val = [S(l) for l in d.lines]
            elif code == 3:
                val = list(d._line_start_indexes)
            d = None
        e = m._text_to_document_cache.get(t)
        flags = [0, 0, 0] if e is None else [1, int(e.lines is not None), int(e.line_indexes is not None)]
        e = None
        out.append([val, flags])
    live.clear()
    gc.collect()
    return out


def oracle_cache_case(case, res):
    """cached = recomputed for equal text (theorem C02_cache_transparent)"""
    for (code, ts), (val, flags) in zip(case[1], res):
        t = unS(ts)
        ls = t.split("\n")
        if code == 2 and val != [S(l) for l in ls]:
            return ("Document(%r).lines through the shared cache != text.split(newline)" % t, "cache")
        if code == 3 and val != [sum(len(x) + 1 for x in ls[:j]) for j in range(len(ls))]:
            return ("Document(%r)._line_start_indexes through the shared cache != recomputed table" % t, "cache")
    return None


# --------------------------------------------------------------------------
# the cache carried between DOCUMENTS (Model/C02_Cache.v, slot operations): live Document objects in
# numbered slots; documents are created, queried (any query: it pre-seeds the shared cache according to
# its footprint), dropped, and PRODUCED from live ones by paste_clipboard_data / insert_after /
# insert_before / Document(d.text, d.cursor_position).  After every operation the whole entry of the
# target text in _text_to_document_cache is compared with the model: present, the cached lines, the
# cached line-start table (values, not only flags), whether every live equal-text Document shares that
# one entry object, and the number of fields of the entry the model does not know.

SLOT_OPNAMES = {1: "slot = Document(text, cursor)", 2: "slot.lines", 3: "slot._line_start_indexes", 4: "del slot",
                5: "slot.<query>", 6: "dst = src.paste_clipboard_data(ClipboardData(data, type), mode, count)",
                7: "dst = src.insert_after(text)", 8: "dst = src.insert_before(text)",
                9: "dst = Document(src.text, src.cursor_position)",
                10: "dst = Document(src.text, src.cursor_position, SelectionState(orig, type)).cut_selection()[0]"}
SLOT_TEXTS = ["", "a", "a\nb", "ab\n\ncd\n", "x y\n z", "\u03a9\nab", "\n", "one\ntwo\nthree"]
SLOT_DATA = ["x", "p\nq", "\n", "  ", "r\ns\nt", "yz", ""]
SLOT_QUERIES = [[1], [2, 0], [3, 0, 0], [3, 1, 1], [4, 1], [4, -1], [5, 1], [5, -1], [6, 1, []], [7, 1, []], [8, 0], [8, 1],
                [9], [10], [11, 1], [12], [13], [14, [97], 0, 0, 0, 1], [15, [97], 1, 0, 1], [16, [97], 0], [17, [97]],
                [18, 1, 0], [19, 0, 0, 0], [20, 1, 0], [21, 0, 1, 0], [22, 1, 0], [23, 1, 0], [24, 40, 41, []],
                [25, 40, 41, []], [26, [], []], [27, 1, 0], [28, 1, 0], [29, 0], [30, 0], [31]]


def describe_slot_ops(ops):
    out = []
    for op in ops:
        k = op[0]
        if k == 1:
            out.append("s%d = Document(%r, %d)" % (op[1], unS(op[2]), op[3]))
        elif k in (2, 3, 4):
            out.append({2: "s%d.lines", 3: "s%d._line_start_indexes", 4: "del s%d"}[k] % op[1])
        elif k == 5:
            out.append("s%d.%s%r" % (op[1], OPNAMES.get(op[2][0], "?"), tuple(op[2][1:])))
        elif k == 6:
            out.append("s%d = s%d.paste_clipboard_data(ClipboardData(%r, %s), %s, count=%d)" % (
                op[2], op[1], unS(op[3]), ["CHARACTERS", "LINES", "BLOCK"][op[4]], ["EMACS", "VI_BEFORE", "VI_AFTER"][op[5]], op[6]))
        elif k == 7:
            out.append("s%d = s%d.insert_after(%r)" % (op[2], op[1], unS(op[3])))
        elif k == 8:
            out.append("s%d = s%d.insert_before(%r)" % (op[2], op[1], unS(op[3])))
        elif k == 9:
            out.append("s%d = Document(s%d.text, s%d.cursor_position)" % (op[2], op[1], op[1]))
        elif k == 10:
            out.append("s%d = Document(s%d.text, s%d.cursor_position, SelectionState(%d, %s)).cut_selection()[0]" % (
                op[2], op[1], op[1], op[3], ["CHARACTERS", "LINES", "BLOCK"][op[4]]))
    return "; ".join(out)


def gen_slot_cases(chk, dist):
    rng = chk.rng
    thorough = chk.tier == "thorough"
    out = []
    follow = lambda dst, other: [[2, dst], [3, dst], [9, dst, other], [5, other, [1]], [4, dst], [2, other], [3, other]]  # noqa
    # directed: every paste kind x mode x count on a two-line clipboard entry (and a one-line one),
    # then queries on the result and on an equal-text document made while the result is alive
    nd = 0
    for ty in (0, 1, 2):
        for mode in (0, 1, 2):
            for count in (0, 1, 2):
                for data in ("p\nq", "x"):
                    for t, cur in (("one\ntwo\nthree", 5), ("a", 1)):
                        if not thorough and rng.random() < 0.5:
                            continue
                        pre = rng.choice([[], [[2, 0]], [[3, 0]], [[5, 0, [1]]]])
                        post = follow(1, 2)
                        if rng.random() < 0.5:
                            rng.shuffle(post)
                        out.append([-2, [[1, 0, S(t), cur]] + pre + [[6, 0, 1, S(data), ty, mode, count]] + post])
                        nd += 1
    for t in SLOT_TEXTS:
        for x in ("", "\n", "z\nw"):
            out.append([-2, [[1, 0, S(t), len(t) // 2], [7, 0, 1, S(x)], [3, 1], [8, 0, 2, S(x)], [2, 2], [9, 2, 0], [3, 0], [4, 2], [2, 0]]])
            nd += 1
    # cut_selection (all three selection types) of every text, then queries on the result and an equal-text copy
    for t in SLOT_TEXTS:
        for ty in (0, 1, 2):
            for o in (0, 2, 5):
                if not thorough and rng.random() < 0.6:
                    continue
                out.append([-2, [[1, 0, S(t), min(len(t), 3)], [10, 0, 1, o, ty], [3, 1], [9, 1, 2], [5, 2, [1]], [4, 1], [2, 2]]])
                nd += 1
    # random histories
    nr = 900 if thorough else 100
    for _ in range(nr):
        ops, filled = [], set()
        for _ in range(rng.randint(3, 16)):
            r = rng.random()
            if not filled or r < 0.18:
                i = rng.randint(0, 3)
                t = rng.choice(SLOT_TEXTS)
                cur = rng.choice([0, len(t), rng.randint(0, len(t)), len(t) + 1 if rng.random() < 0.1 else 0])
                ops.append([1, i, S(t), cur])
                if cur <= len(t):
                    filled.add(i)
                continue
            src = rng.choice(sorted(filled))
            if r < 0.30:
                ops.append([2, src])
            elif r < 0.42:
                ops.append([3, src])
            elif r < 0.50:
                ops.append([4, src])
                filled.discard(src)
            elif r < 0.66:
                ops.append([5, src, rng.choice(SLOT_QUERIES)])
            elif r < 0.86:
                ty, mode = rng.randint(0, 2), rng.randint(0, 2)
                data = rng.choice(SLOT_DATA)
                if ty == 0 and mode == 1 and data == "":
                    data = "x"         # (a negative cursor would result: outside the property)
                dst = rng.randint(0, 3)
                ops.append([6, src, dst, S(data), ty, mode, rng.choice([-1, 0, 1, 1, 2, 3])])
                filled.add(dst)
            elif r < 0.91:
                dst = rng.randint(0, 3)
                ops.append([7, src, dst, S(rng.choice(SLOT_DATA))])
                filled.add(dst)
            elif r < 0.95:
                dst = rng.randint(0, 3)
                ops.append([8, src, dst, S(rng.choice(SLOT_DATA))])
                filled.add(dst)
            elif r < 0.975:
                dst = rng.randint(0, 3)
                ops.append([9, src, dst])
                filled.add(dst)
            else:
                dst = rng.randint(0, 3)
                ops.append([10, src, dst, rng.randint(0, 6), rng.randint(0, 2)])
                filled.add(dst)
        out.append([-2, ops])
    dist["slot_histories"] = len(out)
    dist["slot_histories_directed"] = nd
    dist["slot_operations"] = sum(len(c[1]) for c in out)
    return out


def impl_slot_case(case, queries=None):
    """-> per op [value, [present, lines?, indexes?, shared, extra]]; `queries` collects
    (text, cursor, op, result) of the query operations for the ordinary oracle (evaluated afterwards, so
    that it does not disturb the cache)."""
    import prompt_toolkit.document as m
    from prompt_toolkit.clipboard import ClipboardData
    from prompt_toolkit.selection import PasteMode, SelectionType
    modes = [PasteMode.EMACS, PasteMode.VI_BEFORE, PasteMode.VI_AFTER]
    types = [SelectionType.CHARACTERS, SelectionType.LINES, SelectionType.BLOCK]
    live = {}
    gc.collect()
    out = []
    for op in case[1]:
        code = op[0]
        val, tgt, t_state = [], None, None
        try:
            if code == 1:
                tgt = op[1]
                nd = m.Document(unS(op[2]), op[3])
                val = [S(nd.text), nd.cursor_position]
                live[tgt] = nd
                nd = None
            elif code in (2, 3, 5):
                tgt = op[1]
                d = live.get(tgt)
                if d is not None:
                    if code == 2:
                        val = [S(l) for l in d.lines]
                    elif code == 3:
                        val = list(d._line_start_indexes)
                    else:
                        r = impl_op(d, op[2])
                        if queries is not None:
                            queries.append((d.text, d.cursor_position, op[2], r))
                        r = None
                d = None
            elif code == 4:
                d = live.pop(op[1], None)
                t_state = d.text if d is not None else ""
                d = None
                gc.collect()
            elif code in (6, 7, 8, 9, 10):
                tgt = op[2]
                d = live.get(op[1])
                if d is not None:
                    if code == 6:
                        nd = d.paste_clipboard_data(ClipboardData(unS(op[3]), types[op[4]]), paste_mode=modes[op[5]], count=op[6])
                    elif code == 7:
                        nd = d.insert_after(unS(op[3]))
                    elif code == 8:
                        nd = d.insert_before(unS(op[3]))
                    elif code == 9:
                        nd = m.Document(d.text, d.cursor_position)
                    else:
                        from prompt_toolkit.selection import SelectionState
                        tmp = m.Document(d.text, d.cursor_position, SelectionState(original_cursor_position=op[3], type=types[op[4]]))
                        nd, clip = tmp.cut_selection()
                        tmp = clip = None
                    val = [S(nd.text), nd.cursor_position]
                    live[tgt] = nd
                    nd = None
                d = None
        except AssertionError:
            val = [1]
            d = nd = None
        except Hang:
            raise
        except Exception as ex:  # noqa
            val = [99, S(type(ex).__name__)]
            d = nd = None
        if t_state is None:
            t_state = live[tgt].text if tgt in live else ""
        e = m._text_to_document_cache.get(t_state)
        if e is None:
            st = [0, [], [], 0, 0]
        else:
            same = [x for x in live.values() if x.text == t_state]
            st = [1, [] if e.lines is None else [[S(l) for l in e.lines]],
                  [] if e.line_indexes is None else [list(e.line_indexes)],
                  int(all(x._cache is e for x in same)),
                  len([k for k in vars(e) if k not in ("lines", "line_indexes")])]
            same = None
        e = None
        out.append([val, st])
    live.clear()
    gc.collect()
    return out


def slot_state_texts(case, res):
    """the text each reported cache entry belongs to (recomputed from the implementation's own values)"""
    live, out = {}, []
    for op, (val, _) in zip(case[1], res):
        code = op[0]
        t = None
        if code == 1 or code in (6, 7, 8, 9, 10):
            dst = op[1] if code == 1 else op[2]
            if len(val) == 2 and isinstance(val[0], list):
                live[dst] = unS(val[0])
            t = live.get(dst)
        elif code == 4:
            t = live.pop(op[1], None)
        else:
            t = live.get(op[1])
        out.append(t)
    return out


def oracle_slot_case(case, res):
    """Whatever the shared cache holds for a text describes THAT text (theorem C02_slots_cache_entries), every
    lines / _line_start_indexes answer is the recomputed one (C02_slots_cache_transparent), all live
    equal-text documents share the one entry."""
    texts = slot_state_texts(case, res)
    for j, (op, (val, st), t) in enumerate(zip(case[1], res, texts)):
        empty_slot = t is None          # the operation addressed a slot without a document: nothing to judge
        t = t or ""
        ls = t.split("\n")
        table = [sum(len(x) + 1 for x in ls[:k]) for k in range(len(ls))]
        where = "after `%s`" % describe_slot_ops(case[1][:j + 1])
        if val[:1] == [99]:
            return ("%s raised %s (%s)" % (SLOT_OPNAMES[op[0]], unS(val[1]), where), "raise")
        if op[0] == 2 and not empty_slot and val != [S(l) for l in ls]:
            return ("lines of a Document with text %r is %r, not text.split(newline) (%s)" % (t, [unS(l) for l in val], where), "cache")
        if op[0] == 3 and not empty_slot and val != table:
            return ("_line_start_indexes of a Document with text %r is %r, not %r (%s)" % (t, val, table, where), "cache")
        if st[0]:
            if st[1] and st[1][0] != [S(l) for l in ls]:
                return ("the shared line cache holds lines %r for the text %r (%s)" % ([unS(l) for l in st[1][0]], t, where), "cache")
            if st[2] and st[2][0] != table:
                return ("the shared line cache holds the line-start table %r for the text %r, expected %r (%s)" % (st[2][0], t, table, where), "cache")
            if not st[3]:
                return ("live Documents with equal text %r do not share one cache entry (%s)" % (t, where), "cache")
    return None


# --------------------------------------------------------------------------

def nontrivial_op(op, res):
    if res[0] != 0:
        return False
    v = res[1]
    if isinstance(v, int):
        return v != 0
    if isinstance(v, list):
        return any(x != 0 for x in v) if v and all(isinstance(x, int) for x in v) else bool(v)
    return False


def first_diff(a, m):
    if isinstance(a, list) and isinstance(m, list):
        for j, (x, y) in enumerate(zip(a, m)):
            if x != y:
                return ("op %d: %r" % (j, x), "op %d: %r" % (j, y))
    return (str(a)[:200], str(m)[:200])


def batches(it, max_ops):
    cur, n = [], 0
    for g in it:
        cur.append(g)
        n += sum(len(c[2]) for c in g)
        if n >= max_ops:
            yield cur
            cur, n = [], 0
    if cur:
        yield cur


def main(tier):
    chk = Check(PROP, tier)
    pr = chk.proofs("Props/C02.v", tables=TABLES)
    okm, logm = build_model("c02", "Extract/ExC02.v", "run_C02", tables=TABLES)
    if not okm:
        chk.violation("tie", "model does not build: " + logm[-400:], {"kind": "model-build"}, {"log": logm[-3000:]}, no_input=True)
        proof_gate(chk, pr)
        return chk.finish()
    from prompt_toolkit.document import Document

    dist = {}
    corpus = load_corpus(PROP)
    stream = itertools.chain([corpus] if corpus else [], gen_groups(chk, dist))
    runner = Runner(chk.rng)
    opcount = {}
    tot = {"ops": 0, "cases": 0, "groups": 0}
    kq = 400 if chk.tier == "thorough" else 120
    vm_pool = []        # (case truncated, impl truncated, model agrees?)

    def tagger(c, a, m):
        if isinstance(a, list) and isinstance(m, list) and len(a) == len(m) and isinstance(c[2], list):
            for j, (x, y) in enumerate(zip(a, m)):
                if x != y and j < len(c[2]):
                    return {"op": OPNAMES.get(c[2][j][0], "?")}
        return {"op": "?"}

    def describe(c, a, m):
        t, cur = unS(c[0]), c[1]
        if isinstance(a, list) and isinstance(m, list) and len(a) == len(m):
            for j, (x, y) in enumerate(zip(a, m)):
                if x != y and j < len(c[2]):
                    return "Document(%r, %d) op %s%r impl=%r model=%r" % (t, cur, OPNAMES.get(c[2][j][0]), c[2][j][1:], x, y)
        return "Document(%r, %d) impl=%r model=%r" % (t, cur, str(a)[:80], str(m)[:80])

    # the line cache as a memo table: operation sequences on real Documents vs Model/C02_Cache.v
    ccases = gen_cache_cases(chk)
    cres, cbad = [], set()
    for i, c in enumerate(ccases):
        try:
            r = with_watchdog(lambda: impl_cache_case(c), 20)
        except Exception as ex:  # noqa
            r = [[[], [9, 9, 9]]]
        cres.append(r)
        chk.count_case(c, True)
        bad = oracle_cache_case(c, r)
        if bad:
            cbad.add(i)
            chk.violation("oracle", "%s (operations %r)" % (bad[0], [(CACHE_OPNAMES[k], unS(t)) for k, t in c[1]]),
                          {"op": "line-cache", "family": bad[1]},
                          {"cache_case": c, "observed": r, "clause": bad[0],
                           "how": "see harness/c02.py impl_cache_case"})
    correspondence(chk, "c02", ccases, cres, lambda c, a, m: {"op": "line-cache"},
                   describe=lambda c, a, m: "cache operations %r impl=%r model=%r" % (
                       [(CACHE_OPNAMES.get(k), unS(t)) for k, t in c[1]], a, m),
                   oracle_failed=lambda i: i in cbad)
    dist["cache_sequences"] = len(ccases)

    # the cache carried between documents: slot histories (create / query / drop / produce)
    scases = gen_slot_cases(chk, dist)
    sres, sbad = [], set()
    late = []
    for i, c in enumerate(scases):
        qs = []
        try:
            r = with_watchdog(lambda: impl_slot_case(c, qs), 20)
        except Exception as ex:  # noqa
            r = [[[98], [9, [], [], 9, 9]]]
        sres.append(r)
        chk.count_case(c, True)
        chk.coverage["evaluations"] += len(c[1])
        bad = oracle_slot_case(c, r)
        if not bad:
            late.append((i, qs))
        if bad:
            sbad.add(i)
            chk.violation("oracle", bad[0], {"op": "line-cache", "family": bad[1]},
                          {"slot_case": c, "observed": r, "clause": bad[0], "how": "see harness/c02.py impl_slot_case"})
    for i, qs in late:
        for (t, cur, op, rr) in qs:
            bad = oracle_op(t, cur, op, rr, Document(t, cur))
            if bad and i not in sbad:
                sbad.add(i)
                chk.violation("oracle", "%s (Document(%r, %d).%s%r -> %r inside the history `%s`)" % (
                    bad[0], t, cur, OPNAMES[op[0]], tuple(op[1:]), rr, describe_slot_ops(scases[i][1])),
                    {"op": OPNAMES[op[0]], "family": bad[1]},
                    {"slot_case": scases[i], "text": t, "cursor": cur, "op": op, "observed": rr, "clause": bad[0],
                     "how": "see harness/c02.py impl_slot_case"})
    correspondence(chk, "c02", scases, sres, lambda c, a, m: {"op": "line-cache"},
                   describe=lambda c, a, m: "history `%s` impl=%r model=%r" % (describe_slot_ops(c[1]), first_diff(a, m)[0], first_diff(a, m)[1]),
                   oracle_failed=lambda i: i in sbad)

    for batch in batches(stream, 400000):
        cases, impl_results = [], []
        oracle_bad = set()
        for g in batch:
            tot["groups"] += 1
            res = runner.run_group(g)
            for c, r in zip(g, res):
                i = len(cases)
                cases.append(c)
                impl_results.append(r)
                tot["cases"] += 1
                t, cur, ops = unS(c[0]), c[1], c[2]
                if r == [1]:
                    chk.count_case(c, False)
                    if cur <= len(t):
                        oracle_bad.add(i)
                        chk.violation("oracle", "Document(%r, %d) raised AssertionError" % (t, cur), {"op": "Document", "family": "raise"},
                                      {"text": t, "cursor": cur, "ops": [], "clause": "constructor raised"})
                    continue
                d = Document(t, cur)
                for op, rr in zip(ops, r):
                    tot["ops"] += 1
                    name = OPNAMES[op[0]]
                    opcount[name] = opcount.get(name, 0) + 1
                    chk.coverage["evaluations"] += 1
                    if nontrivial_op(op, rr):
                        chk._distinct.add(hash((t, cur, repr(op))))
                    bad = oracle_op(t, cur, op, rr, d)
                    if bad:
                        oracle_bad.add(i)
                        clause, fam = bad
                        chk.violation("oracle", "%s (Document(%r, %d).%s%r -> %r)" % (clause, t, cur, name, tuple(op[1:]), rr),
                                      {"op": name, "family": fam},
                                      {"text": t, "cursor": cur, "op": op, "observed": rr, "clause": clause,
                                       "how": "Document(text, cursor).<op> (see harness/c02.py impl_call)"})
                if tot["cases"] % 1499 == 1:
                    chk.sample({"text": t, "cursor": cur, "ops": ops[:3], "impl_results": r[:3]})
        model_results, nbad = correspondence(chk, "c02", cases, impl_results, tagger, describe=describe,
                                             oracle_failed=lambda i: i in oracle_bad)
        # reservoir for the in-Coq cross-check
        for i in range(len(cases)):
            if chk.rng.random() < 0.04 or (nbad and sx_norm(impl_results[i]) != model_results[i] and len(vm_pool) < 2000):
                a = impl_results[i] if impl_results[i] == [1] else impl_results[i][:40]
                m = model_results[i]
                m = m if (not isinstance(m, list) or m == [1]) else m[:40]
                vm_pool.append(([cases[i][0], cases[i][1], cases[i][2][:40]], a, sx_norm(a) == m))
    dist.update(corpus=len(corpus), ops=opcount, query_evaluations=tot["ops"], cases=tot["cases"],
                documents_fresh=runner.fresh, documents_shared=runner.shared, groups=tot["groups"])
    chk.coverage["input_distribution"] = dist

    # extraction/driver cross-check inside Coq on a sample
    if len(vm_pool) > kq:
        vm_pool = chk.rng.sample(vm_pool, kq)
    pairs = [(c, a) for c, a, _ in vm_pool]
    bad, logs = vm_crosscheck(PROP, "run_C02", "Model.Document Model.C02_DocQueries Model.C02_Run", pairs, per_file=60)
    chk.coverage["vm_compute_crosschecked"] = len(pairs)
    model_bad = set(i for i, (_, _, agrees) in enumerate(vm_pool) if not agrees)
    vm_bad = set(b for b in bad if isinstance(b, int))
    if any(not isinstance(b, int) for b in bad):
        chk.violation("tie", "vm_compute cross-check failed to run: " + (logs[0] if logs else ""), {"kind": "vm"}, {"log": logs}, no_input=True)
    elif vm_bad != model_bad:
        chk.violation("tie", "extracted model and in-Coq evaluation disagree on cases %r" % sorted(vm_bad ^ model_bad)[:5],
                      {"kind": "extraction"}, {"cases": [vm_pool[i][0] for i in sorted(vm_bad ^ model_bad)[:5]]}, no_input=True)

    proof_gate(chk, pr)
    chk.coverage["exhaustive"] = False
    chk.coverage["rule"] = (
        "a case = (text, cursor, list of queries); every query is evaluated on a real Document and on the Coq model and "
        "compared; evaluations counts queries. Scope: every text of length <= %s over %r x every cursor x the fixed query "
        "list of ops_for (all index/row/col arguments in range +-1, counts -2..3, every substring of length <= 2 of the text "
        "plus absent and upper-cased needles, every flag combination, bracket limits -1..len+1, 9 pattern= regexes x counts -1..3), a case-folding stratum (21 letters exhaustively to length 2, a sample (thorough: all) of the 2927 cased code points next to their case variants, random texts over 78 cased letters of other scripts), cache slot histories (each operation counts as one evaluation), a stratum of longer texts, and random "
        "texts up to 48 characters over a 34-character alphabet (blanks of every kind, brackets, wide and astral "
        "characters). Non-trivial = the query returned a non-zero offset / non-empty value; distinct by (text, cursor, query)."
        % ("4" if chk.tier == "thorough" else "2 (12% stratum of length 3)", ALPHA))
    chk.assumptions += [
        "stdlib re is replaced by hand scanners written for the six pattern strings of document.py (compared with the regenerated strings on every run, Proofs/C02_Patterns.v) and by leftmost non-overlapping literal search for re.finditer(re.escape(sub), ...); tied to re only by this correspondence run",
        "re.IGNORECASE is modelled by the per-character relation regenerated on every run from CPython's re over EVERY cased code point of the interpreter (gen_t_c02.cased_code_points: 2927 with unicodedata 15.0; Gen/C02_CaseFold.v, looked up through a positive map proved equal to the pair list, proved symmetric and transitive per run); uncased characters used by the generators are listed in gen_t_c02.FOLD_UNCASED and checked there to match only themselves; ignore_case queries are generated only over cased + FOLD_UNCASED characters (the harness refuses to start otherwise); theorems hold for any character equivalence",
        "the line cache (_text_to_document_cache) is modelled as a memo table with exactly the two fields of _DocumentCache (field list regenerated and compared in Coq, theorem C02_cache_fields) and tied by (a) create/lines/indexes/drop sequences keyed by text and (b) slot histories of live Documents: create / lines / _line_start_indexes / any query (its cache footprint is modelled) / drop / paste_clipboard_data (CHARACTERS, LINES, BLOCK x 3 modes x counts) / cut_selection (3 selection types, outside an application) / insert_after / insert_before / copy, comparing after every step the whole cache entry of the target text (present, cached lines VALUE, cached table VALUE, identity shared by all live equal-text Documents, unknown extra fields) with Model/C02_Cache.v; the query models themselves are cache-free (theorems C02_slots_cache_transparent/_entries say that is sound), and the runner additionally evaluates queries on fresh and long-lived Documents of equal text in shuffled order",
        "pattern= of find_start_of_previous_word / get_word_before_cursor is modelled for compiled regexes of the forms [s1]+|[s2]+ (disjoint sets), [^s1]+ and ^[s1]* without flags (incl. the literal patterns of FuzzyCompleter); other user regexes are outside",
        "cursor positions 0..len(text) (the constructor's assertion for cursor > len is checked; negative cursors are outside the property)",
        "CPython str slicing/split/rstrip/lstrip/partition and bisect_right are re-implemented in coq/Lib/Py.v and Model/Document.v and tied by this correspondence only"]
    return chk.finish()


def replay(data):
    from prompt_toolkit.document import Document
    rep = data["replay"]
    sc = rep.get("slot_case") or (rep.get("case") if rep.get("case") and rep["case"][0] == -2 else None)
    if sc:
        qs = []
        r = impl_slot_case(sc, qs)
        bad = oracle_slot_case(sc, r)
        print("history: %s" % describe_slot_ops(sc[1]))
        for op, x in zip(sc[1], r):
            print("  %s %r -> value %r cache entry %r" % (SLOT_OPNAMES.get(op[0]), op[1:], x[0], x[1]))
        for (t, cur, op, rr) in qs:
            b2 = oracle_op(t, cur, op, rr, Document(t, cur))
            if b2 and not bad:
                bad = b2
        m = run_model("c02", [sc])[0]
        print("oracle: %s; model %s" % (bad[0] if bad else "ok", "agrees" if m == sx_norm(r) else "differs: %r" % (first_diff(sx_norm(r), m),)))
        return 1 if bad else 0
    cc = rep.get("cache_case") or (rep.get("case") if rep.get("case") and rep["case"][0] == -1 else None)
    if cc:
        r = impl_cache_case(cc)
        bad = oracle_cache_case(cc, r)
        for (k, t), x in zip(cc[1], r):
            print("%s %r -> %r" % (CACHE_OPNAMES.get(k), unS(t), x))
        m = run_model("c02", [cc])[0]
        print("oracle: %s; model %s" % (bad[0] if bad else "ok", "agrees" if m == sx_norm(r) else "differs: %r" % (m,)))
        return 1 if bad else 0
    if "case" in rep:
        t, cur, ops = unS(rep["case"][0]), rep["case"][1], rep["case"][2]
    else:
        t, cur, ops = rep["text"], rep["cursor"], ([rep["op"]] if "op" in rep else rep.get("ops", []))
    rc = 0
    try:
        d = Document(t, cur)
    except AssertionError:
        print("Document(%r, %d) raises AssertionError" % (t, cur))
        return 0 if cur > len(t) else 1
    res = []
    for op in ops:
        res.append(with_watchdog(lambda: impl_op(d, op), 10))
    m = run_model("c02", [[S(t), cur, ops]])[0]
    nbad = ndiff = 0
    for j, (op, rr) in enumerate(zip(ops, res)):
        bad = oracle_op(t, cur, op, rr, d)
        mj = m[j] if isinstance(m, list) and j < len(m) else m
        differs = sx_norm(rr) != mj
        nbad += bool(bad)
        ndiff += differs
        if bad or differs or len(ops) <= 8:
            print("Document(%r, %d).%s%r -> %r   %s%s" % (
                t, cur, OPNAMES[op[0]], tuple(op[1:]), rr, "ORACLE FAILS: " + bad[0] if bad else "oracle ok",
                "   MODEL DIFFERS: %r" % (mj,) if differs else ""))
        if bad:
            rc = 1
    print("%d queries replayed: %d oracle failure(s), %d model difference(s)" % (len(ops), nbad, ndiff))
    return rc
