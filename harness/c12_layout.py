"""C12, nested layouts (model: coq/Model/C12_Layout.v):
  op 10  write_to_screen of a nested HSplit/VSplit tree at WritePosition(x, y, w, h)
  op 11  preferred_width / preferred_height(width) reported by a nested tree
  op 12  renders of one split whose align / padding / children are assigned in between
Runs on real HSplit/VSplit objects; leaves are the recording stub containers of c12.py."""

M = None        # the c12 harness module (bound at import time by c12.py)


def bind(mod):
    global M
    M = mod


# --------------------------------------------------------------------------
# case encoding: tree = [0, id, rawW, rawH] | [1, orient, align, rawPad, [kids]]

def leaf(i, rw, rh):
    return [0, i, rw, rh]


def node(orient, align, pad, kids):
    return [1, orient, align, pad, kids]


def wleaf(i, rw, length):
    """a wrapping leaf: `length` cells of text, height = ceil(length / width offered)"""
    return [2, i, rw, length]


def over(ow, oh, t):
    """the split t constructed with width=ow / height=oh (each None or raw Dimension arguments)"""
    return [3, [] if ow is None else [ow], [] if oh is None else [oh], t]


def unwrap(t):
    while t[0] == 3:
        t = t[3]
    return t


def _w(r):
    return r[2][0] if r[2] else 1


def tree_weight(t):
    """-> (weights, entries): an upper bound for the sum of the weights / the number of entries of ANY division in the tree"""
    if t[0] == 0:
        return max(0, _w(t[2])) + max(0, _w(t[3])), 0
    if t[0] == 2:
        return max(0, _w(t[2])) + 1, 0
    if t[0] == 3:
        a, b = tree_weight(t[3])
        return a + sum(max(0, _w(o[0])) for o in (t[1], t[2]) if o), b
    ws, ns = 3 + max(0, _w(t[3])) * max(1, len(t[4])), 2 * len(t[4]) + 2
    for k in t[4]:
        a, b = tree_weight(k)
        ws, ns = ws + a + 1, ns + b
    return ws, ns


def tree_fuel(t, extent):
    ws, ns = tree_weight(t)
    return (max(0, extent) + 1) * ws + ns + 1


def tree_case(done, t, x, y, w, h):
    return [10, done, t, x, y, w, h, tree_fuel(t, max(w, h))]


def report_case(t, axis, width):
    return [11, t, axis, width, tree_fuel(t, width)]


def has_empty_vsplit(t):
    if t[0] == 3:
        return has_empty_vsplit(t[3])
    return t[0] == 1 and ((t[1] == 1 and not t[4]) or any(has_empty_vsplit(k) for k in t[4]))


def leaves_dfs(t, parent=None, out=None):
    out = [] if out is None else out
    if t[0] in (0, 2):
        out.append((t[1], parent))
    elif t[0] == 3:
        leaves_dfs(t[3], parent, out)
    else:
        for k in t[4]:
            leaves_dfs(k, t[1], out)
    return out


# --------------------------------------------------------------------------
# implementation

class _Tree:
    pass


def _wrap_class():
    if "Wrap" in M._patched:
        return M._patched["Wrap"]
    from prompt_toolkit.layout.containers import Container
    from prompt_toolkit.layout.dimension import Dimension

    class Wrap(Container):
        """`length` cells of text that wrap: the height depends on the width offered."""
        def __init__(self, wd, length, log, pid):
            self.other, self.length, self.log, self.pid, self.dim = wd, length, log, pid, None

        def reset(self):
            pass

        def preferred_width(self, max_available_width):
            return self.other

        def preferred_height(self, width, max_available_height):
            return Dimension(preferred=-(-self.length // max(1, width)))

        def write_to_screen(self, screen, mouse_handlers, write_position, parent_style, erase_bg, z_index):
            self.log.append((self, write_position))

        def get_children(self):
            return []
    M._patched["Wrap"] = Wrap
    return Wrap


def _ov_value(r, d, flip):
    """to_dimension accepts an int for an exact Dimension"""
    mn, mx, w, p = M.unraw(r)
    if flip and mn is not None and mn == mx == p and w is None:
        return mn
    return d


def build_tree(t, bt):
    """Dimensions are constructed in pre-order (overrides, padding, then the children; width before height)."""
    if t[0] == 2:
        wd = M._mkdim(t[2])
        b = _wrap_class()(wd, t[3], bt.log, t[1])
        bt.codes[id(b)] = t[1]
        bt.leaves[t[1]] = b
        bt.keep.append(b)
        bt.leafkeep = getattr(bt, "leafkeep", []) + [b]
        return b
    if t[0] == 3:
        ow = M._mkdim(t[1][0]) if t[1] else None
        oh = M._mkdim(t[2][0]) if t[2] else None
        sp = build_tree(t[3], bt)
        if t[1]:
            sp.width = _ov_value(t[1][0], ow, len(bt.keep) % 2 == 0)
        if t[2]:
            sp.height = _ov_value(t[2][0], oh, len(bt.keep) % 2 == 1)
        return sp
    if t[0] == 0:
        wd = M._mkdim(t[2])
        hd = M._mkdim(t[3])
        b = M._box_class()(hd, 0, bt.log, other=wd, pid=t[1])
        bt.codes[id(b)] = t[1]
        bt.leaves[t[1]] = b
        bt.keep.append(b)
        return b
    _, orient, align, pad, kids = t
    padd = M._mkdim(pad)
    ks = [build_tree(k, bt) for k in kids]
    b = M.make_split(orient, align, padd, ks, bt.log)
    bt.keep.append(b)
    bt.last_split = b
    bt.codes[id(b.small)] = -4
    bt.codes[id(b.split._remaining_space_window)] = -3
    for w in b.all:
        if id(w) in bt.codes:
            continue
        if getattr(w, "height", None) is padd or getattr(w, "width", None) is padd:
            bt.codes[id(w)] = -1
        else:
            bt.codes[id(w)] = -2
    return b.split


def make_tree(t):
    bt = _Tree()
    bt.log, bt.codes, bt.leaves, bt.keep = [], {}, {}, []
    try:
        bt.root = build_tree(t, bt)
    except ValueError:
        return 4
    except AssertionError:
        return 5
    return bt


def impl_tree(case):
    from prompt_toolkit.layout.screen import WritePosition
    _, done, t, x, y, w, h, fuel = case
    bt = make_tree(t)
    if isinstance(bt, int):
        return [bt], None
    M._patched["app"].is_done = bool(done)
    M._Budget.n, M._Budget.limit = 0, 400 * (2 * fuel + 1)
    info = {"tree": t, "bt": bt, "region": (x, y, w, h), "done": done}
    try:
        M.with_watchdog(lambda: bt.root.write_to_screen(None, None, WritePosition(x, y, w, h), "", False, None), 5)
    except M.Hang:
        return [3], info
    except ValueError as e:
        info["message"] = str(e)
        return [2], info
    except Exception as e:                       # e.g. WritePosition's `assert width >= 0`
        info["message"] = "%s: %s" % (type(e).__name__, e)
        return [6], info
    finally:
        M._Budget.limit = 10 ** 9
    rects = []
    for obj, wp in bt.log:
        rects.append([bt.codes.get(id(obj), -9), wp.xpos, wp.ypos, wp.width, wp.height])
    return [0, rects], info


def impl_tree_report(case):
    _, t, axis, width, fuel = case
    bt = make_tree(t)
    if isinstance(bt, int):
        return [bt]
    M._patched["app"].is_done = False
    M._Budget.n, M._Budget.limit = 0, 400 * (2 * fuel + 1)
    try:
        if axis == 0:
            d = M.with_watchdog(lambda: bt.root.preferred_width(width), 5)
        else:
            d = M.with_watchdog(lambda: bt.root.preferred_height(width, 10 ** 6), 5)
    except M.Hang:
        return [3]
    except (ValueError, AssertionError):
        return [4]
    finally:
        M._Budget.limit = 10 ** 9
    return M.canon_dim(d)


def canon_tree(res):
    if res[0] == 0:
        return [0, [[r[0]] + [M.big(v) for v in r[1:]] for r in res[1]]]
    return res


# --------------------------------------------------------------------------
# oracle (the property text on the implementation's own results)

def _overlap(a, b):
    return (a[3] > 0 and a[4] > 0 and b[3] > 0 and b[4] > 0 and
            a[1] < b[1] + b[3] and b[1] < a[1] + a[3] and a[2] < b[2] + b[4] and b[2] < a[2] + a[4])


def oracle_tree(case, res, info):
    if info is None:
        return None
    if res == [3]:
        return ("drawing the nested layout does not terminate (item budget or 5 s)", "tree-hang")
    if res == [2]:
        return ("ValueError while drawing the nested layout: %s" % info.get("message"), "tree-valueerror")
    if res == [6]:
        return ("write_to_screen of the nested layout raised %s" % info.get("message"), "tree-draw-exception")
    X, Y, W, H = info["region"]
    rects = res[1]
    t, bt = info["tree"], info["bt"]
    for r in rects:
        if r[0] == -9:
            return ("something that is no child, padding, alignment, remaining-space or too-small window was drawn", "tree-unknown")
        if r[3] < 0 or r[4] < 0:
            return ("a child is drawn with a negative extent: %r" % (r,), "tree-inside")
        if not (X <= r[1] and r[1] + r[3] <= X + W and Y <= r[2] and r[2] + r[4] <= Y + H):
            return ("a child is drawn outside the region of the layout (%d,%d,%d,%d): %r" % (X, Y, W, H, r), "tree-inside")
    for i in range(len(rects)):
        for j in range(i + 1, len(rects)):
            if _overlap(rects[i], rects[j]):
                return ("two children are drawn in overlapping regions: %r and %r" % (rects[i], rects[j]), "tree-disjoint")
    order = leaves_dfs(t)
    drawn = [r[0] for r in rects if r[0] >= 0]
    pos = 0
    ids = [i for i, _ in order]
    for d in drawn:
        while pos < len(ids) and ids[pos] != d:
            pos += 1
        if pos == len(ids):
            return ("the leaves are not drawn once each in their listed order: drawn %r, listed %r" % (drawn, ids), "tree-order")
        pos += 1
    if not has_empty_vsplit(t) and sum(r[3] * r[4] for r in rects) != W * H:
        return ("the regions drawn do not fill the region of the layout: area %d of %d" % (sum(r[3] * r[4] for r in rects), W * H), "tree-tiling")
    parents = dict(order)
    for r in rects:
        if r[0] >= 0 and parents.get(r[0]) is not None:
            b = bt.leaves[r[0]]
            d = b.dim if parents[r[0]] == 0 else b.other
            ext = r[4] if parents[r[0]] == 0 else r[3]
            if d is not None and not (d.min <= ext <= d.max):
                return ("leaf %d got size %d along its parent's axis, outside its own min..max %d..%d" % (r[0], ext, d.min, d.max), "tree-bounds")
    t = unwrap(t)
    if t[0] == 1 and t[4]:
        root = bt.root
        if t[1] == 0:
            smin, avail = sum(c.preferred_height(W, H).min for c in root._all_children), H
        else:
            smin, avail = sum(c.preferred_width(W).min for c in root._all_children), W
        # (a nested split that is too small and fills the whole region looks the same: go by the object drawn)
        small = len(bt.log) == 1 and bt.log[0][0] is bt.last_split.small
        if small != (smin > avail):
            return ("the layout %s although the minimums %s (sum of min %d, available %d)" % (
                "shows 'too small'" if small else "draws its children", "fit" if small else "do not fit", smin, avail), "tree-too-small")
    return None


def oracle_tree_report(case, res):
    if res[0] == 0:
        mn, mx, p, w = [M.unbig(v) for v in res[1]]
        if not (0 <= mn <= p <= mx) or w < 0:
            return ("a nested split reports a dimension that is not 0 <= min <= preferred <= max", "tree-report")
    elif res[0] == 3:
        return ("preferred_width/height of a nested split does not terminate", "tree-hang")
    elif res[0] == 4 and case[1] is not None:
        return None
    return None


# --------------------------------------------------------------------------
# op 12: split.align / split.padding / split.children assigned between renders

def stale_case(orient, done, pool, avail, steps):
    n_all = 2 * max(len(st[2]) for st in steps) + 2
    ws = [_w(c) for c in pool] + [_w(st[1]) for st in steps] + [1]
    return [12, orient, done, pool, avail, M.START, M.fuel_bound(n_all, ws, avail), steps]


def impl_stale(case):
    from prompt_toolkit.layout.containers import VerticalAlign, HorizontalAlign
    _, orient, done, pool, avail, start, fuel, steps = case
    Box = M._box_class()
    log = []
    try:
        dims = [M._mkdim(c) for c in pool]
        pads = [M._mkdim(st[1]) for st in steps]
    except ValueError:
        return [4], []
    except AssertionError:
        return [5], []
    boxes = [Box(d, orient, log, pid=k) for k, d in enumerate(dims)]
    enum = ([VerticalAlign.TOP, VerticalAlign.CENTER, VerticalAlign.BOTTOM, VerticalAlign.JUSTIFY] if orient == 0 else
            [HorizontalAlign.LEFT, HorizontalAlign.CENTER, HorizontalAlign.RIGHT, HorizontalAlign.JUSTIFY])
    b = M.make_split(orient, steps[0][0], pads[0], [boxes[i] for i in steps[0][2]], log)
    out, infos = [], []
    for k, (al, _pad, ids) in enumerate(steps):
        if k > 0:
            b.split.align = enum[al]
            b.split.padding = pads[k]
            new = [boxes[i] for i in ids]
            cur = b.split.children
            if len(cur) != len(new) or any(a is not c for a, c in zip(cur, new)):
                if (k + len(ids)) % 2 == 0:
                    b.split.children = new
                else:
                    cur[:] = new
        res, info = M.render_once(b, orient, done, avail, start, fuel)
        codes = []
        for w in b.all:
            if isinstance(w, Box):
                codes.append(w.pid)
            elif any(getattr(w, "height", None) is p or getattr(w, "width", None) is p for p in pads):
                codes.append(-1)
            else:
                codes.append(-2)
        out.append([M.canon_split(res), codes])
        infos.append((res, info))
    return out, infos


# --------------------------------------------------------------------------
# generators

def random_tree(rng, specs, pads, depth, ids, p_empty=0.06):
    """-> tree; ids is a one-element counter list"""
    n = 0 if rng.random() < p_empty else rng.choice([1, 1, 2, 2, 2, 3])
    kids = []
    for _ in range(n):
        if depth > 0 and rng.random() < 0.45:
            kids.append(random_tree(rng, specs, pads, depth - 1, ids, p_empty))
        elif rng.random() < 0.25:
            kids.append(wleaf(ids[0], rng.choice(specs), rng.randint(0, 14)))
            ids[0] += 1
        else:
            kids.append(leaf(ids[0], rng.choice(specs), rng.choice(specs)))
            ids[0] += 1
    t = node(rng.randint(0, 1), rng.randint(0, 3), rng.choice(pads), kids)
    if rng.random() < 0.2:
        exact = [M.raw(n, n, None, n) for n in (0, 2, 4)]
        t = over(rng.choice([None, rng.choice(specs + exact)]), rng.choice([None, rng.choice(specs + exact)]), t)
    return t


def wrap_trees():
    """Exhaustive small scope for 'height at the divided width': text of every length next to a column of every exact
    width in a VSplit, above a flexible leaf in an HSplit."""
    z = M.raw(0, None, None, None)
    out = []
    for length in range(0, 13):
        for k in range(0, 7):
            for al in (0, 3):
                vs = node(1, al, M.PADS[0], [wleaf(0, z, length), leaf(1, M.raw(k, k, None, k), z)])
                out.append((vs, node(0, 3, M.PADS[0], [vs, leaf(2, z, z)])))
    return out


def small_trees(specs2):
    """Exhaustive small scope: a split inside a split (both orientations, each with one leaf next to it),
    every pair of leaf requirements from specs2 for the two leaves that share the inner axis."""
    z = M.raw(0, None, None, None)
    out = []
    for oo in (0, 1):
        for oi in (0, 1):
            for al in (0, 1, 2, 3):
                for a in specs2:
                    for b in specs2:
                        inner = node(oi, al, M.PADS[0], [leaf(0, a, a), leaf(1, b, b)])
                        out.append(node(oo, 3, M.PADS[0], [inner, leaf(2, z, z)]))
    return out


def gen_cases(chk, add):
    rng = chk.rng
    thorough = chk.tier == "thorough"
    specs = M.child_specs()
    pads = M.PADS
    # exhaustive small scope (nested pair), all regions up to 6 x 6 sampled
    specs2 = [M.raw(mn, mx, w, p) for (mn, p, mx) in [(0, 0, 0), (0, 1, 2), (1, 1, 1), (1, 2, None), (0, 0, None), (2, 5, 5)] for w in (0, 1, 2)]
    st = small_trees(specs2)
    frac = 1.0 if thorough else 0.12
    for t in st:
        if rng.random() < frac:
            add("tree_exhaustive_nested_pair", tree_case(rng.choice([0, 0, 1]), t, rng.randint(0, 3), rng.randint(0, 3), rng.randint(0, 7), rng.randint(0, 7)))
    # text that wraps: the height a VSplit reports and is given depends on the divided width
    for vs, hs in wrap_trees():
        for width in ((3, 6, 8, 10, 12) if thorough else (rng.choice([3, 6, 8]), rng.choice([10, 12]))):
            add("tree_wrap_exhaustive", report_case(vs, 1, width))
            add("tree_wrap_exhaustive", tree_case(0, hs, rng.randint(0, 3), rng.randint(0, 3), width, rng.choice([4, 8, 14])))
    # random trees up to depth 3, non-zero offsets
    for _ in range(16000 if thorough else 2200):
        t = random_tree(rng, specs, pads, rng.choice([1, 2, 2, 3]), [0])
        add("tree_random", tree_case(rng.choice([0, 0, 0, 1]), t, rng.randint(0, 5), rng.randint(0, 5),
                                     rng.choice([0, 1, 3, 6, 9, 14, rng.randint(0, 20)]), rng.choice([0, 1, 3, 6, 9, 14, rng.randint(0, 20)])))
    # what nested trees report
    for _ in range(6000 if thorough else 900):
        t = random_tree(rng, specs, pads, rng.choice([1, 2, 3]), [0])
        add("tree_reported_dimension", report_case(t, rng.randint(0, 1), rng.randint(0, 16)))
    # a constructor error somewhere in a tree
    bad = [M.raw(3, 2, 1, 2), M.raw(-1, 2, 1, 2), M.raw(0, 2, -1, 1), M.raw(5, 1, None, None)]
    for _ in range(200 if thorough else 40):
        t = random_tree(rng, specs + bad[:1] * 3 + bad[1:], pads, 2, [0])
        add("tree_invalid_dimension", tree_case(0, t, 1, 1, rng.randint(0, 9), rng.randint(0, 9)))
    # align / padding assigned after construction
    small = [sp for sp in specs if sp[2] != [0] or rng.random() < 0.3]
    for _ in range(8000 if thorough else 1200):
        npool = rng.randint(1, 4)
        pool = [rng.choice(small) for _ in range(npool)]
        cur = rng.sample(range(npool), rng.randint(1, npool))
        al, pad = rng.randint(0, 3), rng.choice(pads)
        steps = [[al, pad, list(cur)]]
        for _ in range(rng.randint(1, 3)):
            e = rng.choice(["align", "pad", "both", "children", "children+pad", "same"])
            if e in ("align", "both"):
                al = rng.randint(0, 3)
            if e in ("pad", "both", "children+pad"):
                pad = rng.choice(pads)
            if e in ("children", "children+pad"):
                cur = rng.sample(range(npool), rng.randint(1, npool))
            steps.append([al, pad, list(cur)])
        add("align_padding_assigned_later", stale_case(rng.randint(0, 1), rng.choice([0, 0, 0, 1]), pool, rng.randint(0, 14), steps))


# --------------------------------------------------------------------------

def describe_tree(t):
    if t[0] == 2:
        return "Wrap#%d(width=D%r, %d cells of text)" % (t[1], M.unraw(t[2]), t[3])
    if t[0] == 3:
        inner = describe_tree(t[3])
        extra = "".join(", %s=D%r" % (n, M.unraw(o[0])) for n, o in (("width", t[1]), ("height", t[2])) if o)
        return inner[:-1] + extra + ")"
    if t[0] == 0:
        return "Leaf#%d(width=D%r, height=D%r)" % (t[1], M.unraw(t[2]), M.unraw(t[3]))
    return "%s([%s], align=%s, padding=D%r)" % ("HSplit" if t[1] == 0 else "VSplit", ", ".join(describe_tree(k) for k in t[4]),
                                                M.ALIGN_NAMES.get(t[2]), M.unraw(t[3]))


def describe_case(c):
    if c[0] == 10:
        return "%s.write_to_screen(WritePosition(xpos=%d, ypos=%d, width=%d, height=%d))%s" % (
            describe_tree(c[2]), c[3], c[4], c[5], c[6], " [app.is_done]" if c[1] else "")
    if c[0] == 11:
        return "%s.%s" % (describe_tree(c[1]), "preferred_width(%d)" % c[3] if c[2] == 0 else "preferred_height(%d, ..)" % c[3])
    return "%s of pool=%s, available %d%s: %s, rendered after each assignment" % (
        "HSplit" if c[1] == 0 else "VSplit", ["D(min=%r,max=%r,weight=%r,preferred=%r)" % M.unraw(k) for k in c[3]], c[4],
        " [app.is_done]" if c[2] else "",
        " -> ".join("align=%s, padding=D%r, children=pool[%r]" % (M.ALIGN_NAMES.get(st[0]), M.unraw(st[1]), st[2]) for st in c[7]))


def run_impl(c):
    if c[0] == 10:
        res, info = impl_tree(c)
        return canon_tree(res), info, oracle_tree(c, res, info)
    if c[0] == 11:
        res = impl_tree_report(c)
        return res, None, oracle_tree_report(c, res)
    res, infos = impl_stale(c)
    bad = None
    for k, (r, info) in enumerate(infos):
        bad = M.oracle_split(c, r, info)
        if bad:
            bad = ("render %d of %d: %s" % (k + 1, len(infos), bad[0]), bad[1])
            break
    return res, infos, bad
