"""Not a registered check.  Ties the PATCHED model variant (run_C08_patched =
/repo + fixes/C08-failed-motion-minimal.patch) to a tree that has
the patch applied:

    git -C /repo worktree add --detach /var/tmp/c08-wt HEAD
    git -C /var/tmp/c08-wt apply /verif/fixes/C08-failed-motion-minimal.patch
    VERIF_REPO=/var/tmp/c08-wt /venv/bin/python harness/c08_patched.py [seed]

Runs the key-level generators of the C08 check (single commands, sessions, the
motions typed alone) on the real Vi session of that tree, compares every
result with the patched model, and evaluates the property oracle; prints the
number of differences and the oracle families that still fail."""
import hashlib
import os
import random
import sys

sys.path.insert(0, os.path.dirname(os.path.abspath(__file__)))
import c08  # noqa
from common import build_model, run_model, sx_norm, assert_repo  # noqa


def main(seed):
    assert_repo()
    ok, log = build_model("c08p", "Extract/ExC08p.v", "run_C08_patched", tables=c08.TABLES)
    if not ok:
        print(log[-2000:])
        return 2

    class Chk:
        tier = "quick"
        rng = random.Random(seed * 1000003 + int(hashlib.sha1(b"C08").hexdigest()[:8], 16))
    cases, _ = c08.gen_cases(Chk)
    cases = [tuple(c) for c in c08.load_corpus_raw()] + [c for c in cases if c[0] in ("K", "S")]
    sess = c08.Session()
    impl, mc, fams = [], [], {}
    for c in cases:
        res, obs, tobj, failed, alone = c08.run_impl(sess, c)
        tb = obs[-1][4] if c[0] == "S" else tobj
        if tb is None:
            res[7] = 0          # operator cancelled: the model reports no text object either
        impl.append(res)
        mc.append(c08.model_case(c, tb))
        if c[0] == "K" and alone is not None:
            a, b = c08.alone_model_case(c, alone)
            mc.append(a)
            impl.append(b)
        bad = c08.judge(c, obs, tobj, failed, alone)
        if bad:
            fams.setdefault((bad[1], bad[2]), []).append(c08.describe_case(c) + " : " + bad[0])
    sess.close()
    mr = run_model("c08p", mc)
    nb = 0
    for c, a, m in zip(mc, impl, mr):
        if sx_norm(a) != m:
            nb += 1
            if nb <= 10:
                print("DIFF text=%r cursor=%d session=%s\n   impl  %r\n   model %r" % (
                    c08.unS(c[0]), c[1], c08.show_keys(c[2]), c08.show_res(sx_norm(a)), c08.show_res(m)))
    print("patched model vs %s: %d differences in %d cases" % (os.environ.get("VERIF_REPO", "/repo"), nb, len(mc)))
    for k, v in sorted(fams.items()):
        print("ORACLE still fails: %s/%s  %d  e.g. %s" % (k[0], k[1], len(v), v[0][:200]))
    return 1 if nb or fams else 0


if __name__ == "__main__":
    os.chdir(os.path.dirname(os.path.dirname(os.path.abspath(__file__))))
    sys.exit(main(int(sys.argv[1]) if len(sys.argv) > 1 else 0))
