"""C06 oracle: the property text evaluated on the implementation's own output,
through the Python terminal (c06_term.Term).  Does not call the Coq model."""
import re

from c06_term import PenTable, Term, tokenize
import c06_impl


def pvis(penstr):
    """The part of a pen that renders on a blank cell: background colour,
    underline, strike, blink, reverse - and the foreground colour only when one
    of those draws with it.  bold(1)/italic(3)/hidden(8) never show on a blank
    (renderer._StyleStringHasStyleCache; it also keeps a lone foreground colour,
    conservatively - that makes it draw more, not differently)."""
    ps = [int(x) for x in re.findall(r"\d+", penstr)]
    fg, rest = [], []
    i = 0
    while i < len(ps):
        p = ps[i]
        if p in (38, 48) and i + 1 < len(ps):
            n = 3 if ps[i + 1] == 5 else 5 if ps[i + 1] == 2 else 1
            (fg if p == 38 else rest).append(tuple(ps[i:i + n]))
            i += n
            continue
        if 30 <= p <= 37 or 90 <= p <= 97:
            fg.append(p)
        elif p not in (0, 1, 3, 8):
            rest.append(p)
        i += 1
    uses_fg = any(isinstance(p, int) and p in (4, 5, 7, 9) for p in rest)
    return (tuple(rest), tuple(fg) if uses_fg else ())


def cell_equiv(a, b, pens):
    (g1, p1, k1), (g2, p2, k2) = a, b
    if k1 != k2 or list(g1) != list(g2):
        return False
    if list(g1) == [32]:
        return pvis(pens.strs[p1]) == pvis(pens.strs[p2])
    return p1 == p2


def width_of(cp):
    from prompt_toolkit.utils import get_cwidth
    return get_cwidth(chr(cp))


def feed(term, data, pens):
    toks = tokenize(data, pens)
    for t in toks:
        term.step(t, width_of)
    return toks


def compare_terms(t1, t2, nrows, pens):
    """-> list of (what, message, row): every kind of visible difference between the
    incrementally rendered terminal t1 and the from-scratch terminal t2 (rows
    0..nrows-1; rows above the origin are checked per operation: untouched)."""
    if t1.undef or t2.undef:
        return [("undef", "output left the defined VT100 subset (wide character on the right edge / unknown sequence)", None)]
    out = []
    if (t1.cx, t1.cy) != (t2.cx, t2.cy):
        out.append(("cursor", "cursor at %r after incremental rendering, %r after drawing from scratch" % ((t1.cx, t1.cy), (t2.cx, t2.cy)), t1.cy))
    if t1.cvis != t2.cvis:
        out.append(("cvis", "cursor visibility %d incremental vs %d from scratch" % (t1.cvis, t2.cvis), None))
    if t1.pen != t2.pen:
        out.append(("pen", "pen left as %r incremental vs %r from scratch" % (pens.strs[t1.pen], pens.strs[t2.pen]), None))
    if t1.aw != t2.aw or t1.pending != t2.pending:
        out.append(("autowrap", "autowrap state differs", None))
    if t1.modes != t2.modes:
        out.append(("modes", "terminal modes (alternate screen / bracketed paste / mouse / cursor shape) %r after incremental rendering, %r after drawing from scratch" % (t1.modes, t2.modes), None))
    done = False
    for y in range(0, nrows):
        for x in range(t1.W):
            a, b = t1.cell(y, x), t2.cell(y, x)
            if not cell_equiv(a, b, pens):
                out.append(("cell", "cell (row %d, col %d): incremental shows %r pen %r, from scratch %r pen %r" % (
                    y, x, "".join(map(chr, a[0])), pens.strs[a[1]] if a[1] < len(pens.strs) else a[1],
                    "".join(map(chr, b[0])), pens.strs[b[1]] if b[1] < len(pens.strs) else b[1]), y))
                done = True
                break
        if done:
            break
    return out


def check_spec(spec, outs=None, pens=None):
    """-> list of (step index, family, message, info); [] when the property holds on
    this sequence.  info = {"what": kind of difference, "row": row or None}.
    `outs` = run_impl(spec) if already available.
    A bare reset() redefines the origin (the cursor row) without moving the cursor.
    It is in contract whenever the cursor is in column 0 (theorem C06_reset_col0:
    after a final render, an erase, a reset, construction, or a render whose cursor
    column is 0); with the cursor elsewhere the next render starts at that column
    and the oracle stops judging until the next final render re-establishes a
    known state."""
    pens = pens or PenTable()
    if outs is None:
        outs = c06_impl.run_impl(spec, pens)
    fails = []
    t = Term(80)
    feed(t, outs[0], pens)
    prev_h = 0
    last_size = None
    fresh = True          # nothing remembered, cursor at the origin
    contract = True       # False after a bare reset() in a non-fresh state
    for i, op in enumerate(spec["ops"]):
        t.maxrow = t.cy
        t.minrow = t.cy
        t.written = set()
        scrolled0 = t.scrolled
        if op[0] == "render":
            _, cfg, done, W, H, scr = op
            t.W = W
            t.rows = H
            above = [[t.cell(y, x) for x in range(W)] for y in (-2, -1)]
            feed(t, outs[i + 1], pens)
            if contract and t.scrolled == scrolled0 and above != [[t.cell(y, x) for x in range(W)] for y in (-2, -1)]:
                fails.append((i, "rows-owned", "a render changed cells above the origin", {"what": "rows-above", "row": None}))
            new_h = min(scr["height"], H)
            # from scratch: a fresh renderer on a fresh terminal
            sspec = {"fs": spec["fs"], "cfgs": spec["cfgs"], "ops": [op]}
            souts = c06_impl.run_impl(sspec, pens)
            t2 = Term(W)
            t2.rows = H
            feed(t2, souts[0], pens)
            feed(t2, souts[1], pens)
            if contract:
                for what, msg, row in compare_terms(t, t2, max(H, prev_h) + 2, pens):
                    fails.append((i, "equiv-done" if done else "equiv", msg, {"what": what, "row": row}))
            owned = max(prev_h, new_h)
            if contract and any(y < 0 or y >= owned for y in t.written):
                fails.append((i, "rows-owned", "cells written in rows %r, owned rows are 0..%d" % (sorted(t.written), owned - 1),
                              {"what": "rows", "row": None}))
            if contract and t.minrow < 0:
                fails.append((i, "rows-owned", "the cursor went above the origin (row %d)" % t.minrow, {"what": "rows-above", "row": None}))
            resized = last_size is not None and last_size != (W, H)
            last_size = (W, H)
            if not done:
                if contract and t.scrolled != scrolled0 and not resized:
                    fails.append((i, "scroll", "the terminal (%d rows) scrolled %d line(s) during a non-final render" % (H, t.scrolled - scrolled0),
                                  {"what": "scroll", "row": None}))
                prev_h = new_h
                fresh = False
            else:
                exp_scroll = 1 if new_h >= H else 0     # the final newline may scroll a full terminal once
                if contract and t.scrolled - scrolled0 != exp_scroll and not resized:
                    fails.append((i, "scroll", "the terminal (%d rows) scrolled %d line(s) during the final render of a %d-row output" % (H, t.scrolled - scrolled0, new_h),
                                  {"what": "scroll", "row": None}))
                if contract and ((t.cx, t.cy) != (0, new_h - exp_scroll) or t.pen != 0 or t.aw != 1):
                    fails.append((i, "done-epilogue", "after the done render: cursor %r (expected (0, %d)), pen %r, autowrap %d" % (
                        (t.cx, t.cy), new_h - exp_scroll, pens.strs[t.pen] if t.pen < len(pens.strs) else t.pen, t.aw),
                        {"what": "epilogue", "row": None}))
                t.shift_origin(t.cy)
                prev_h = 0
                fresh = True
                if not contract and t.cx == 0:
                    # the final "\r\n" brought the cursor back to column 0: a known state again
                    # (a final render of a 0-row output emits no newline: the cursor stays where the
                    # out-of-contract reset() left it, and judgement stays suspended)
                    t.undef = 0       # whatever happened while out of contract is not judged
                    contract = True
        elif op[0] == "erase":
            above = [[t.cell(y, x) for x in range(t.W)] for y in (-2, -1)]
            feed(t, outs[i + 1], pens)
            if contract:
                if (t.cx, t.cy) != (0, 0) or t.pen != 0 or t.aw != 1:
                    fails.append((i, "erase", "after erase: cursor %r pen %r autowrap %d" % ((t.cx, t.cy), t.pen, t.aw),
                                  {"what": "cursor", "row": None}))
                for y in range(prev_h + 1):
                    for x in range(t.W):
                        if not cell_equiv(t.cell(y, x), ([32], 0, 0), pens):
                            fails.append((i, "erase", "after erase cell (%d,%d) still shows %r" % (y, x, t.cell(y, x)),
                                          {"what": "cell", "row": y}))
                            break
                if t.minrow < 0 or above != [[t.cell(y, x) for x in range(t.W)] for y in (-2, -1)]:
                    fails.append((i, "rows-owned", "erase touched rows above the origin (cursor row %d)" % t.minrow,
                                  {"what": "rows-above", "row": None}))
            prev_h = 0
            fresh = True
        else:
            feed(t, outs[i + 1], pens)
            t.shift_origin(t.cy)
            prev_h = 0
            if not fresh and t.cx != 0:
                contract = False      # bare reset() with the cursor away from column 0: out of contract
            fresh = True
    return fails
