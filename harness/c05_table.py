"""C05 - dump of the effective key-binding registry of a PromptSession (the
flattened list KeyProcessor matches against), shared by gen/gen_t_c05.py and
the harness.  Fail-closed on any filter node it does not know."""
import sys


def _tok(k):
    from prompt_toolkit.keys import Keys
    if isinstance(k, Keys):
        return "<%s>" % k.value
    return k


def _tree(f, atoms):
    from prompt_toolkit.filters.base import _AndList, _OrList, _Invert, Condition, Always, Never
    if isinstance(f, _AndList):
        return ["and"] + [_tree(x, atoms) for x in f.filters]
    if isinstance(f, _OrList):
        return ["or"] + [_tree(x, atoms) for x in f.filters]
    if isinstance(f, _Invert):
        return ["not", _tree(f.filter, atoms)]
    if isinstance(f, Condition):
        if id(f) not in atoms["ids"]:
            atoms["ids"][id(f)] = len(atoms["list"])
            atoms["list"].append(f)
        return ["atom", atoms["ids"][id(f)]]
    if isinstance(f, Always):
        return ["true"]
    if isinstance(f, Never):
        return ["false"]
    raise SystemExit("c05_table: unknown filter node %r" % (type(f),))


def handler_name(h):
    mod = getattr(h, "__module__", "?").replace("prompt_toolkit.", "")
    name = mod + "." + getattr(h, "__qualname__", repr(h))
    # handlers made by decorator factories share a qualname: tell them apart by their closure cells
    cl = getattr(h, "__closure__", None)
    if cl and "<locals>" in name and name.count("<locals>") >= 2:
        parts = []
        for c in cl:
            try:
                v = c.cell_contents
            except ValueError:
                continue
            q = getattr(v, "__qualname__", None)
            if q and callable(v):
                parts.append(q.split(".")[-1])
            elif isinstance(v, (str, int, bool)) or v is None:
                parts.append(repr(v))
        if parts:
            name += "[" + ",".join(parts) + "]"
    return name


def registry_of(app):
    from prompt_toolkit.application.current import set_app
    with set_app(app):
        return list(app.key_processor._bindings._key_bindings.bindings)


def atom_name(c):
    return c.func.__module__.replace("prompt_toolkit.", "") + "." + c.func.__qualname__


def table_of(app):
    atoms = {"ids": {}, "list": []}
    out = []
    for i, b in enumerate(registry_of(app)):
        out.append({"idx": i, "keys": [_tok(k) for k in b.keys], "filter": _tree(b.filter, atoms),
                    "eager": _tree(b.eager, atoms), "handler": handler_name(b.handler),
                    "is_global": _tree(b.is_global, atoms), "record": _tree(b.record_in_macro, atoms)})
    return {"bindings": out, "atoms": [atom_name(a) for a in atoms["list"]], "atom_objs": atoms["list"]}


_CACHE = {}


def dump_table(focus="default"):
    """Table of a fresh Vi-mode PromptSession with the default buffer (or the
    search buffer) focused.  The registry itself does not depend on the editing
    mode: mode selection is done by the vi_mode/emacs_mode filter atoms."""
    if focus in _CACHE:
        return _CACHE[focus]
    import asyncio
    import c05_drive

    async def main():
        # a RUNNING prompt: the registry of a running application also holds the
        # global bindings of the other controls of the layout
        from prompt_toolkit.application.current import set_app
        s = c05_drive.Session({"mode": "vi", "multiline": False, "text": "", "history": []})
        await s.start()
        try:
            if focus == "search":
                with set_app(s.app):
                    s.app.layout.focus(s.session.search_buffer)
            return table_of(s.app)
        finally:
            await s.finish()
    t = asyncio.run(main())
    _CACHE[focus] = t
    return t


if __name__ == "__main__":
    t = dump_table(sys.argv[1] if len(sys.argv) > 1 else "default")
    print(len(t["bindings"]), "bindings", len(t["atoms"]), "atoms", len(set(b["handler"] for b in t["bindings"])), "handlers")
    for a in t["atoms"]:
        print("  ", a)


def key_code(tok):
    """Key token -> Z code used in coq/Gen/C05_Bindings.v: a character is its
    code point; a Keys member is 2000000 + its position in the Keys enum."""
    from prompt_toolkit.keys import Keys, KEY_ALIASES
    if len(tok) > 2 and tok[0] == "<" and tok[-1] == ">":
        name = tok[1:-1]
        if name.startswith("paste:"):
            name = Keys.BracketedPaste.value
        if name == "cpr":
            name = Keys.CPRResponse.value
        k = Keys(KEY_ALIASES.get(name, name))
        return 2000000 + list(Keys).index(k)
    assert len(tok) == 1, tok
    return ord(tok)
