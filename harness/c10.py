"""C10 - displayed content cannot inject control sequences.
Model: coq/Model/C10_Screen.v; theorems: coq/Props/C10.v; table + structural
scan: gen/gen_t_c10.py.

Case kinds (first element):
  1  [1, wctab, ch, style]          Char(ch, style) -> [char, style, width]
  2  [2, data]                      Vt100_Output.write(data) -> bytes sent
  3  [3, wctab, stytab, cfg, pfx, steps]
        Window._copy_body of fragment lines into a fresh Screen (+ optional
        Screen.append_style_to_content), then renderer._output_screen_diff on a
        recording Vt100_Output, once or twice (second render diffs against the
        first).  Result per step: the screen rectangle, zero_width_escapes,
        screen height, the (origin, write|write_raw, text) token list, final
        cursor position / last style.
  wctab  = wcwidth of the code points used (absent = 1): wcwidth is outside the model
  stytab = style string -> (attrs identity, SGR sequence, has-style): the style
           machinery is outside the model (C19)
Kinds 4-11: see impl_producer / impl_flush / impl_print_tokens; kinds 12-17: harness/c10_procs.py.
End-to-end cases (oracle only, no model): a real PromptSession rendered on
Vt100_Output(StringIO) with the text under test in the buffer, the prompt
message, completion display/display_meta and the bottom toolbar."""
import asyncio
import io
import re
import sys
import types

from common import *  # noqa

PROP = "C10"
TABLES = ["C10_DisplayMappings"]
MODELS = [("c10", "Extract/ExC10.v", "run_C10q")]
import c10_procs

sys.path.insert(0, os.path.join(VERIF, "gen"))


def is_control(c):
    return 0 <= c <= 0x1F or c == 0x7F or 0x80 <= c <= 0x9F


def control_free(s):
    return not any(is_control(ord(ch)) for ch in s)


# what the renderer itself may send (Vt100_Output's fixed repertoire)
REND_SEQ = r"(?:\x1b\[(?:\?[0-9]+[hl]|[0-9;]*m|[0-9]*[ABCDJK]|[0-9;]*H|[0-9] q|6n)|\x08)"
REND_RAW = re.compile("(?:" + REND_SEQ + ")+\\Z")
REND_WRITE = re.compile(r"(?:\r|(?:\r\n)+)\Z")
STREAM_TOK = re.compile(REND_SEQ + r"|\r\n|\r")
NOTATION = re.compile(r"(?:\^[\x40-\x5f?]|<[0-9a-f]{2}>)\Z")

SAMPLES_ABOVE = [0x300, 0x301, 0x483, 0x5BF, 0x61C, 0x200B, 0x200D, 0x200E, 0x2028, 0x2029, 0x202E, 0x2060,
                 0x3042, 0x754C, 0xAC00, 0xFE0F, 0xFEFF, 0xFF21, 0xFFFD, 0x1F600, 0x1F1E6, 0xE0001, 0x10FFFF]
ESC_SEQS = ["\x1b[2J", "\x1b[31m", "\x1b]0;title\x07", "\x1b]52;c;QQ==\x07", "\x1bP$q\x1b\\", "\x9b2J", "\x9b31m",
            "\x9d0;t\x9c", "\x90q\x9c", "\x1b[6n", "\x1bc", "\x1b[?1049h", "\x1b(0", "\x0e", "\x1b[200~"]
ZWE_POOL = ["\x1b]133;A\x07", "\x1b]8;;http://x\x1b\\", "\x01zw\x02", "", "\x1b]1337;k=v\x07"]
STYLES = ["", "", "bold", "class:bottom-toolbar", "fg:ansired bg:ansiblue", "underline", "class:control-character",
          "[SetCursorPosition]", "[SetMenuPosition]", "class:zerowidthescape", "[transparent]"]
ZWE_STYLES = ["[ZeroWidthEscape]", "class:x [ZeroWidthEscape]"]
PIPE_ALPHA = ["a", "b", "a", " ", " ", "\x00", "\x01", "\t", "\n", "\r", "\x1b", "\x1f", "\x7f", "\x80", "\x9b", "\x9f",
              "\xa0", "\xad", "\u754c", "\u0301", "\u200b", "\U0001F600", "[", "^", "<", "\udc9b", "\udc9d", "\udc90", "\ud800", "\U0001F9D1"]


def wctab_for(text):
    from wcwidth import wcwidth
    return sorted([ord(c), wcwidth(c)] for c in set(text) if wcwidth(c) != 1)


# --------------------------------------------------------------------------
# implementation runners

def impl_char(case):
    from prompt_toolkit.layout.screen import Char
    ch = Char(unS(case[2]), unS(case[3]))
    return [S(ch.char), S(ch.style), ch.width]


def new_output(cls=None, rows=24, cols=80):
    from prompt_toolkit.data_structures import Size
    from prompt_toolkit.output.vt100 import Vt100_Output
    sio = io.StringIO()
    out = (cls or Vt100_Output)(sio, lambda: Size(rows=rows, columns=cols), term="xterm")
    return out, sio


def impl_write(case):
    out, sio = new_output()
    out.write(unS(case[1]))
    out.flush()
    return S(sio.getvalue())


ENCODINGS = ["utf-8", "latin-1", "ascii"]


class BinStdout:
    """A stdout with `encoding` and `buffer`, like a real sys.stdout: flush_stdout
    takes its binary branch and what matters is the BYTES in .buffer."""

    def __init__(self, encoding):
        self.encoding = encoding
        self.buffer = io.BytesIO()

    def write(self, data):
        raise AssertionError("text write on a binary-capable stdout")

    def flush(self):
        pass

    def isatty(self):
        return False

    def fileno(self):
        raise io.UnsupportedOperation("fileno")


def impl_flush(case):
    """kind 8: Vt100_Output over a binary-capable stdout: bytes written for write_raw(data); flush()."""
    from prompt_toolkit.data_structures import Size
    from prompt_toolkit.output.vt100 import Vt100_Output
    so = BinStdout(ENCODINGS[case[1]])
    out = Vt100_Output(so, lambda: Size(rows=24, columns=80), term="xterm")
    out.write_raw(unS(case[2]))
    out.flush()
    return list(so.buffer.getvalue())


def decode_wire(data, encoding):
    """bytes -> (text the terminal decodes, None) or (None, reason)"""
    try:
        if encoding == "utf-8":
            return data.decode("utf-8", "strict"), None
        if encoding == "ascii":
            bad = [b for b in data if b >= 128]
            if bad:
                return None, "byte 0x%02x on an ascii stream" % bad[0]
            return data.decode("ascii"), None
        return data.decode("latin-1"), None
    except UnicodeDecodeError as e:
        return None, "the bytes are not valid %s: byte 0x%02x at offset %d is sent raw (near %r)" % (
            encoding, data[e.start], e.start, data[max(0, e.start - 10):e.start + 6])


_REC = {}


def rec_output_class():
    if "cls" not in _REC:
        from prompt_toolkit.output.vt100 import Vt100_Output

        class RecOutput(Vt100_Output):
            """Logs every write / write_raw call, then lets the real method run."""

            def __init__(self, *a, **k):
                super().__init__(*a, **k)
                self.log = []

            def _caller(self):
                f = sys._getframe(2)
                return os.path.basename(f.f_code.co_filename) + ":" + f.f_code.co_name

            def write_raw(self, data):
                self.log.append((1, data, self._caller()))
                super().write_raw(data)

            def write(self, data):
                self.log.append((0, data, self._caller()))
                super().write(data)
        _REC["cls"] = RecOutput
    return _REC["cls"]


class StyleEnv:
    def __init__(self):
        from prompt_toolkit.output import ColorDepth
        from prompt_toolkit.renderer import _StyleStringHasStyleCache, _StyleStringToAttrsCache
        from prompt_toolkit.styles import DummyStyleTransformation, default_ui_style
        self.depth = ColorDepth.DEPTH_8_BIT
        self.attrs = _StyleStringToAttrsCache(default_ui_style().get_attrs_for_style_str, DummyStyleTransformation())
        self.has = _StyleStringHasStyleCache(self.attrs)
        self.ids = {}

    def table(self, out, styles):
        tab = []
        for s in sorted(set(styles)):
            a = self.attrs[s]
            i = self.ids.setdefault(a, len(self.ids))
            tab.append([S(s), i, S(out._escape_code_caches[self.depth][a]), 1 if self.has[s] else 0])
        return tab


def frags_of(sxfrags):
    return [(unS(a), unS(b)) for a, b in sxfrags]


def impl_pipeline(case, env=None):
    """Runs the steps of a kind-3 case on the real Window._copy_body and
    _output_screen_diff.  -> (result, info); info carries what the oracle needs
    and the style table observed."""
    from prompt_toolkit.data_structures import Point, Size
    from prompt_toolkit.layout.containers import Window, WindowAlign
    from prompt_toolkit.layout.controls import UIContent
    from prompt_toolkit.layout.screen import _CHAR_CACHE, Screen, Transparent, WritePosition
    from prompt_toolkit.renderer import _output_screen_diff
    env = env or StyleEnv()
    _, _wt, _st, cf, pf, steps = case
    width, height, xpos, ypos, wrap, hscroll, align = cf[:7]
    vscroll, vscroll2 = (cf[7], cf[8]) if len(cf) > 7 else (0, 0)      # round 6: vertical_scroll / vertical_scroll_2
    walign = [WindowAlign.LEFT, WindowAlign.CENTER, WindowAlign.RIGHT][align]
    pfx = None
    if pf:
        p0, p1 = frags_of(pf[0]), frags_of(pf[1])
        pfx = lambda lineno, wc: list(p0 if wc == 0 else p1)  # noqa
    out, sio = new_output(rec_output_class())
    win = Window()
    app = types.SimpleNamespace(layout=types.SimpleNamespace(current_window=win))
    default = _CHAR_CACHE[" ", Transparent]
    prev, pos, last = None, Point(x=0, y=0), None
    result, info = [], {"steps": [], "styles": set([Transparent])}
    for lines_sx, app_sx, (is_done, full, cols, rows, cux, cuy, show, useprev, pw) in steps:
        lines = [frags_of(l) for l in lines_sx]
        screen = Screen()
        ui = UIContent(get_line=lambda i: list(lines[i]), line_count=len(lines))
        win._copy_body(ui, screen, WritePosition(xpos, ypos, width, height), 0, width,
                       wrap_lines=bool(wrap), get_line_prefix=pfx, horizontal_scroll=hscroll, align=walign,
                       vertical_scroll=vscroll, vertical_scroll_2=vscroll2)
        if app_sx:
            screen.append_style_to_content(unS(app_sx[0]))
        zwe = [[y, x, S(t)] for y, r in screen.zero_width_escapes.items() for x, t in r.items()]
        zwe_texts = set(t for r in screen.zero_width_escapes.values() for t in r.values())
        screen.cursor_positions[win] = Point(x=cux, y=cuy)
        screen.show_cursor = bool(show)
        out.log = []
        pos, last = _output_screen_diff(app, out, screen, pos, env.depth, prev if useprev else None, last,
                                        bool(is_done), bool(full), env.attrs, env.has,
                                        Size(rows=rows, columns=cols), pw)
        out.flush()
        rect = []
        for y in range(ypos + height + 1):
            row = screen.data_buffer.get(y)
            cells = []
            for x in range(xpos + width + 4):
                c = row.get(x, default) if row is not None else default
                cells.append([S(c.char), S(c.style), c.width])
            rect.append(cells)
        allcells = [c for r in screen.data_buffer.values() for c in r.values()]
        for c in allcells:
            info["styles"].add(c.style)
        toks = []
        for kind, text, caller in out.log:
            # origin by CALLER, not by what the text looks like: cursor moves write CR/LF, Vt100_Output's own
            # primitives write_raw their sequences, _output_screen_diff itself passes zero-width escapes raw
            if kind == 0:
                origin = 1 if caller == "renderer.py:move_cursor" else 0
            else:
                origin = 1 if caller.startswith("vt100.py:") else 2
            toks.append([origin, kind, S(text)])
        result.append([rect, zwe, screen.height, toks, [pos.x, pos.y, [S(last)] if last is not None else [], 0]])
        info["steps"].append({"cells": [(c.char, c.style) for c in allcells], "zwe_texts": zwe_texts,
                              "log": list(out.log), "bytes": sio.getvalue()})
        sio.seek(0)
        sio.truncate()
        prev = screen
    info["out"] = out
    return result, info


def lines_sx(lines):
    return [[[S(st), S(tx)] for st, tx, *_ in l] for l in lines]


def impl_producer(case):
    """kinds 4-7: the real fragment producers."""
    k = case[0]
    if k == 4:
        from prompt_toolkit.layout.controls import FormattedTextControl
        ctl = FormattedTextControl(text=frags_of(case[2]), style=unS(case[1]))
        content = ctl.create_content(80, None)
        return lines_sx([content.get_line(i) for i in range(content.line_count)])
    if k == 5:
        from prompt_toolkit.buffer import Buffer
        from prompt_toolkit.document import Document
        from prompt_toolkit.layout.controls import BufferControl
        from prompt_toolkit.layout.processors import BeforeInput, PasswordProcessor, Processor, Transformation
        from prompt_toolkit.lexers import SimpleLexer

        class Ident(Processor):
            def apply_transformation(self, ti):
                return Transformation(ti.fragments)
        from prompt_toolkit.auto_suggest import Suggestion
        from prompt_toolkit.layout.processors import AppendAutoSuggestion, HighlightSelectionProcessor
        procs = []
        suggestion = None
        for pr in case[2]:
            if pr[0] == 0:
                procs.append(Ident())
            elif pr[0] == 1:
                procs.append(PasswordProcessor(char=unS(pr[1])))
            elif pr[0] == 2:
                procs.append(BeforeInput(frags_of(pr[2]), style=unS(pr[1])))
            elif pr[0] == 3:
                procs.append(AppendAutoSuggestion(style=unS(pr[1])))
                suggestion = Suggestion(unS(pr[2]))
            else:
                procs.append(HighlightSelectionProcessor())
        doc = make_document(unS(case[3]), case[4] if len(case) > 4 else None)
        buf = Buffer(document=doc)
        buf.selection_state = doc.selection      # Buffer.reset() drops the selection of the document it is given
        buf.suggestion = suggestion
        buf._load_history_task = True      # no event loop here: skip the asynchronous history load
        ctl = BufferControl(buffer=buf, lexer=SimpleLexer(style=unS(case[1])), input_processors=procs,
                            include_default_input_processors=False)
        content = ctl.create_content(80, 10)
        return lines_sx([content.get_line(i) for i in range(content.line_count)])
    if k == 6:
        from prompt_toolkit.completion import Completion
        from prompt_toolkit.layout.menus import _get_menu_item_fragments
        comp = Completion("x", display=frags_of(case[4]), style=unS(case[2]), selected_style=unS(case[3]))
        return lines_sx([_get_menu_item_fragments(comp, bool(case[5]), case[6], bool(case[7]))])[0]
    if k == 7:
        from prompt_toolkit.layout.utils import explode_text_fragments
        return lines_sx([explode_text_fragments(frags_of(case[1]))])[0]
    if k == 9:
        from prompt_toolkit.shortcuts.prompt import _split_multiline_prompt
        fr = frags_of(case[1])
        has_before, before, first = _split_multiline_prompt(lambda: list(fr))
        return [1 if has_before() else 0] + lines_sx([before(), first()])
    if k == 10:
        from prompt_toolkit.completion import Completion
        from prompt_toolkit.layout.menus import CompletionsMenuControl
        comp = Completion("x", display_meta=frags_of(case[2]))
        return lines_sx([CompletionsMenuControl()._get_menu_item_meta_fragments(comp, bool(case[3]), case[4])])[0]
    raise ValueError(k)


def make_document(text, sel):
    """sel = None | [cursor, original_cursor, type]"""
    from prompt_toolkit.document import Document
    from prompt_toolkit.selection import SelectionState, SelectionType
    if not sel:
        return Document(text, len(text))
    types = [SelectionType.CHARACTERS, SelectionType.LINES, SelectionType.BLOCK]
    return Document(text, sel[0], selection=SelectionState(original_cursor_position=sel[1], type=types[sel[2]]))


def oracle_producer(case, res):
    """A producer never marks text [ZeroWidthEscape] by itself: with no mark in
    the styles/fragments the application supplied there is none in the result."""
    k = case[0]
    MARK = "[ZeroWidthEscape]"
    if k == 4:
        given = [unS(case[1])] + [unS(f[0]) for f in case[2]]
        out = [f for l in res for f in l]
    elif k == 5:
        given = [unS(case[1])] + [unS(pr[1]) for pr in case[2] if pr[0] in (2, 3)] + [unS(f[0]) for pr in case[2] if pr[0] == 2 for f in pr[2]]
        out = [f for l in res for f in l]
    elif k == 6:
        given = [unS(case[2]), unS(case[3])] + [unS(f[0]) for f in case[4]]
        out = res
    elif k == 9:
        given = [unS(f[0]) for f in case[1]]
        out = res[1] + res[2]
    elif k == 10:
        given = [unS(f[0]) for f in case[2]]
        out = res
    else:
        given = [unS(f[0]) for f in case[1]]
        out = res
    if any(MARK in g for g in given):
        return None
    for st, tx in out:
        if MARK in unS(st):
            return ("producer kind %d marked text %r as [ZeroWidthEscape] (style %r) although no supplied style carries the mark"
                    % (k, unS(tx), unS(st)), "producer-marks")
    return None


def impl_print_formatted(frags):
    """print_formatted_text on a recording output -> (log, bytes)."""
    from prompt_toolkit.renderer import print_formatted_text
    from prompt_toolkit.styles import default_ui_style
    out, sio = new_output(rec_output_class())
    print_formatted_text(out, list(frags), default_ui_style())
    return out.log, sio.getvalue()


def impl_print_tokens(case, env):
    """kind 11: print_formatted_text on a recording output -> (tokens, info)."""
    from prompt_toolkit.renderer import print_formatted_text
    from prompt_toolkit.styles import default_ui_style
    frags = frags_of(case[2])
    out, sio = new_output(rec_output_class())
    print_formatted_text(out, list(frags), default_ui_style())
    toks = [[0 if kind == 0 else (1 if caller.startswith("vt100.py:") else 2), kind, S(text)] for kind, text, caller in out.log]
    return toks, {"out": out, "styles": set(st for st, _t in frags), "bytes": sio.getvalue(), "log": list(out.log)}


def impl_readline_like(displays, metas=None):
    """A real PromptSession(complete_style=READLINE_LIKE) on a pipe input: type 'x', TAB -> the completions are
    listed ABOVE the prompt by _display_completions_like_readline (a background task that prints with
    app.print_text), then Enter.  Runs the event loop; the caller adds the watchdog.  -> (result, bytes, log)"""
    async def go():
        from prompt_toolkit import PromptSession
        from prompt_toolkit.application.current import create_app_session
        from prompt_toolkit.completion import Completer, Completion
        from prompt_toolkit.data_structures import Size
        from prompt_toolkit.input import create_pipe_input
        from prompt_toolkit.shortcuts import CompleteStyle

        class C(Completer):
            def get_completions(self, doc, ev):
                for i, d in enumerate(displays):
                    yield Completion("x%d" % i, start_position=-1, display=d)
        with create_pipe_input() as inp:
            sio = io.StringIO()
            out = rec_output_class()(sio, lambda: Size(rows=12, columns=70), term="xterm")
            with create_app_session(input=inp, output=out):
                s = PromptSession(message="> ", completer=C(), complete_style=CompleteStyle.READLINE_LIKE)
                task = asyncio.ensure_future(s.prompt_async())
                inp.send_text("x\t")
                for _ in range(150):
                    await asyncio.sleep(0.02)
                    if any(c == "renderer.py:print_formatted_text" for _k, _t, c in out.log) and not s.app._running_in_terminal:
                        break
                await asyncio.sleep(0.05)
                inp.send_text("\r")
                r = await asyncio.wait_for(task, 5)
                return r, sio.getvalue(), list(out.log)
    return asyncio.run(go())


def notation_of(text):
    """every control character in its caret (C0, DEL) / hex (C1) notation - the property's wording"""
    return "".join(("^" + chr(ord(c) ^ 0x40) if ord(c) < 0x20 or ord(c) == 0x7F else "<%02x>" % ord(c)) if is_control(ord(c)) else c
                   for c in text)


def readline_notation_oracle(displays):
    """-> None | (message, family)"""
    runs = []
    for ds in (displays, [notation_of(d) for d in displays]):
        try:
            r, data, log = with_watchdog(lambda: impl_readline_like(ds), 20)
        except Hang:
            return ("readline-like completion listing hung for %r" % (ds,), "hang")
        except Exception as e:  # noqa
            return ("readline-like completion listing raised %r for %r" % (e, ds), "raise:" + type(e).__name__)
        runs.append([t for k, t, c in log if c == "renderer.py:print_formatted_text"])
    if not runs[0] or not runs[1]:
        return ("the readline-like listing was not printed for %r" % (displays,), "not-reached")
    if runs[0] != runs[1]:
        k = next((i for i, (a, b) in enumerate(zip(runs[0], runs[1])) if a != b), min(len(runs[0]), len(runs[1])))
        return ("READLINE_LIKE completion listing: display texts %r are not printed in caret/hex notation: write #%d is %r, "
                "expected %r (what the notation %r prints); whole listing %r"
                % (displays, k, runs[0][k] if k < len(runs[0]) else None, runs[1][k] if k < len(runs[1]) else None,
                   [notation_of(d) for d in displays], "".join(runs[0])), "stream-control")
    return None


class E2E:
    """A real PromptSession, rendered without running the event loop."""

    def run_app(self, spec):
        """family "app": a full-screen Application whose BufferControl carries the processors that a default
        PromptSession does not use (search / bracket / multiple-cursor / white-space / tabs / AfterInput /
        conditional / dynamic), with NumberedMargin + PromptMargin on the left and ScrollbarMargin on the right;
        the text under test is in the buffer, BeforeInput / PromptMargin (message), AfterInput (display) and a
        FormattedTextControl (toolbar)."""
        async def go():
            from prompt_toolkit.application import Application
            from prompt_toolkit.application.current import create_app_session, set_app
            from prompt_toolkit.buffer import Buffer
            from prompt_toolkit.data_structures import Size
            from prompt_toolkit.document import Document
            from prompt_toolkit.enums import EditingMode
            from prompt_toolkit.formatted_text import to_formatted_text
            from prompt_toolkit.input import create_pipe_input
            from prompt_toolkit.key_binding.vi_state import InputMode
            from prompt_toolkit.layout import HSplit, Layout, Window
            from prompt_toolkit.layout import processors as P
            from prompt_toolkit.layout.controls import BufferControl, FormattedTextControl, SearchBufferControl
            from prompt_toolkit.layout.margins import NumberedMargin, PromptMargin, ScrollbarMargin
            from prompt_toolkit.selection import SelectionState
            res = {"bytes": "", "log": [], "cells": [], "zwe": []}
            variant = spec.get("variant", 0)
            text = spec["buffer"]
            with create_pipe_input() as inp:
                out = rec_output_class()(io.StringIO(), lambda: Size(rows=spec["rows"], columns=spec["cols"]), term="xterm")
                with create_app_session(input=inp, output=out):
                    buf = Buffer(multiline=True, document=Document(text, min(len(text), 1)))    # cursor on the "(": matching bracket
                    buf._load_history_task = True
                    sbuf = Buffer(document=Document(text[1:3]))
                    sbuf._load_history_task = True
                    sbc = SearchBufferControl(buffer=sbuf, ignore_case=True)
                    sbc.searcher_search_state.text = text[-3:-1] or "b"
                    msg = lambda: to_formatted_text(spec["message"], style="class:pm")  # noqa
                    procs = [P.HighlightSearchProcessor(), P.HighlightIncrementalSearchProcessor(), P.HighlightSelectionProcessor(),
                             P.HighlightMatchingBracketProcessor(), P.DisplayMultipleCursors(), P.ShowLeadingWhiteSpaceProcessor(get_char=lambda: "\xb7"),
                             P.ShowTrailingWhiteSpaceProcessor(get_char=lambda: "\xb7"), P.TabsProcessor(), P.BeforeInput(spec["message"], style="class:bi"),
                             P.AfterInput(spec["display"], style="class:ai"), P.ConditionalProcessor(P.PasswordProcessor(), False),
                             P.DynamicProcessor(lambda: None)]
                    ctl = BufferControl(buffer=buf, input_processors=procs, include_default_input_processors=False, search_buffer_control=sbc)
                    win = Window(ctl, wrap_lines=bool(variant & 2),
                                 left_margins=[NumberedMargin(relative=bool(variant & 1), display_tildes=True),
                                               PromptMargin(msg, lambda w, l, soft: to_formatted_text(spec["message"][:3]))],
                                 right_margins=[ScrollbarMargin(display_arrows=True)])
                    app = Application(layout=Layout(HSplit([win, Window(FormattedTextControl(spec["toolbar"]), height=1)])),
                                      full_screen=True, editing_mode=EditingMode.VI if variant & 1 else EditingMode.EMACS)
                    if variant & 1:
                        app.vi_state.input_mode = InputMode.INSERT_MULTIPLE
                        buf.multiple_cursor_positions = [0, max(0, len(text) - 1), len(text)]
                    else:
                        buf.selection_state = SelectionState(original_cursor_position=len(text))
                    with set_app(app):
                        for phase in (0, 1, 2):
                            if phase == 1:
                                buf.insert_text(spec["meta"] or "z")
                            app.renderer.render(app, app.layout, is_done=(phase == 2))
                            scr = app.renderer._last_screen if phase < 2 else None
                            if scr is not None:
                                res["cells"] += [(c.char, c.style) for r in scr.data_buffer.values() for c in r.values()]
                                res["zwe"] += [t for r in scr.zero_width_escapes.values() for t in r.values()]
                        for t in list(app._background_tasks):
                            t.cancel()
                res["bytes"] = out.stdout.getvalue()
                res["log"] = out.log
            return res
        return asyncio.run(go())

    def run(self, spec):
        """spec: dict(buffer, message, display, meta, toolbar, cols, rows, multiline) -> dict(bytes, log, cells, zwe)"""
        if spec.get("family") == "app":
            return self.run_app(spec)

        async def go():
            from prompt_toolkit import PromptSession
            from prompt_toolkit.application.current import create_app_session, set_app
            from prompt_toolkit.buffer import CompletionState
            from prompt_toolkit.completion import Completer, Completion
            from prompt_toolkit.data_structures import Size
            from prompt_toolkit.document import Document
            from prompt_toolkit.input import create_pipe_input

            class C(Completer):
                def get_completions(self, doc, ev):
                    yield Completion("xx", start_position=0, display=spec["display"], display_meta=spec["meta"])
                    yield Completion("yy", start_position=0, display="e", display_meta="n")
            res = {"bytes": "", "log": [], "cells": [], "zwe": []}
            with create_pipe_input() as inp:
                sio = BinStdout(spec["enc"]) if spec.get("enc") else io.StringIO()
                out = rec_output_class()(sio, lambda: Size(rows=spec["rows"], columns=spec["cols"]), term="xterm")
                with create_app_session(input=inp, output=out):
                    from prompt_toolkit.shortcuts import CompleteStyle
                    mode = spec.get("mode", "")
                    message, toolbar = spec["message"], spec["toolbar"]
                    if spec.get("html"):        # prompt message / toolbar built by HTML(template).format(untrusted values)
                        from prompt_toolkit.formatted_text import HTML
                        message = HTML(spec["html"][0]).format(*spec["html"][1])
                        toolbar = HTML(spec["html"][0]).format(*spec["html"][1])
                    s = PromptSession(message=message, bottom_toolbar=toolbar, completer=C(),
                                      complete_while_typing=False, multiline=spec.get("multiline", False),
                                      complete_style=CompleteStyle.MULTI_COLUMN if mode == "multi_column" else CompleteStyle.COLUMN,
                                      vi_mode=(mode == "multicursor"), rprompt=spec["toolbar"] if mode == "rprompt" else None)
                    app = s.app
                    b = s.default_buffer
                    b.reset(Document(spec["buffer"]))
                    with set_app(app):
                        app.renderer.report_absolute_cursor_row(1)     # height known: the toolbar is drawn
                        if mode == "arg":                # ShowArg / "(arg: n)" prompt
                            app.key_processor.arg = "5"
                        elif mode == "multicursor":      # DisplayMultipleCursors
                            from prompt_toolkit.key_binding.vi_state import InputMode
                            app.vi_state.input_mode = InputMode.INSERT_MULTIPLE
                            b.multiple_cursor_positions = [0, max(0, len(b.text) - 1)]
                        elif mode == "search":           # search toolbar + HighlightIncrementalSearchProcessor
                            from prompt_toolkit.search import SearchDirection, start_search
                            start_search(direction=SearchDirection.BACKWARD)
                            s.search_buffer.reset(Document(spec["buffer"][:3]))
                        for phase in (0, 1, 2):
                            if phase == 1:
                                b.complete_state = CompletionState(b.document, list(C().get_completions(b.document, None)))
                            app.renderer.render(app, app.layout, is_done=(phase == 2))
                            scr = app.renderer._last_screen if phase < 2 else None
                            if scr is not None:
                                res.setdefault("controls", set()).update(type(w.content).__name__ for w in scr.visible_windows)
                                res["cells"] += [(c.char, c.style) for r in scr.data_buffer.values() for c in r.values()]
                                res["zwe"] += [t for r in scr.zero_width_escapes.values() for t in r.values()]
                        for t in list(app._background_tasks):
                            t.cancel()
                if spec.get("enc"):
                    res["wire"] = sio.buffer.getvalue()
                    text, why = decode_wire(res["wire"], spec["enc"])
                    res["bytes"], res["wire_error"] = (text or ""), why
                else:
                    res["bytes"] = sio.getvalue()
                res["log"] = out.log
            return res
        return asyncio.run(go())


def impl_dumb_prompt(message, typed):
    """PromptSession.prompt() on a dumb terminal (TERM=dumb, no explicit output
    given to the session): the message and each typed character are sent with
    Vt100_Output.write.  Keys come from the type-ahead store; `typed` characters
    that are control characters are entered with quoted insert (C-q)."""
    from prompt_toolkit import PromptSession
    from prompt_toolkit.application.current import create_app_session
    from prompt_toolkit.data_structures import Size
    from prompt_toolkit.input import create_pipe_input
    from prompt_toolkit.input.typeahead import store_typeahead
    from prompt_toolkit.key_binding.key_processor import KeyPress
    from prompt_toolkit.keys import Keys
    from prompt_toolkit.output.vt100 import Vt100_Output
    old = os.environ.get("TERM")
    os.environ["TERM"] = "dumb"
    try:
        with create_pipe_input() as inp:
            sio = io.StringIO()
            out = Vt100_Output(sio, lambda: Size(rows=12, columns=40), term="dumb")
            with create_app_session(input=inp, output=out):
                s = PromptSession(message=message)
                s._output = None        # as when the application did not pass output=
                keys = []
                for ch in typed:
                    if is_control(ord(ch)):
                        keys.append(KeyPress(Keys.ControlQ, "\x11"))
                    keys.append(KeyPress(ch, ch))
                keys.append(KeyPress(Keys.ControlM, "\r"))
                store_typeahead(inp, keys)
                inp.close()
                try:
                    r = s.prompt()
                except EOFError:
                    r = None
                return r, sio.getvalue()
    finally:
        if old is None:
            os.environ.pop("TERM", None)
        else:
            os.environ["TERM"] = old


# --------------------------------------------------------------------------
# oracles (on the implementation's own results; never call the model)

def oracle_char(ch, st, res):
    """Char(ch, st) for a ONE-character ch."""
    disp, style, width = unS(res[0]), unS(res[1]), res[2]
    c = ord(ch)
    if not control_free(disp):
        return ("cell text for U+%04X contains a control character: %r" % (c, disp), "cell-control")
    if is_control(c):
        want = "^" + chr(c ^ 0x40) if c < 0x80 else "<%02x>" % c
        if not NOTATION.match(disp) or disp != want:
            return ("control character U+%04X is not shown in its caret or hex notation %r: %r" % (c, want, disp), "notation")
        if width <= 0:
            return ("display %r of control character U+%04X has width %d (not visible)" % (disp, c, width), "notation")
    return None


WRITE_RENDERER_CALLERS = {"renderer.py:move_cursor"}
WRITE_LITERAL_CALLERS = {"application.py:in_terminal": re.compile(r"WARNING: [ -~]*\r\n\Z"),
                         "prompt.py:_dumb_prompt": None, "prompt.py:on_text_changed": None}


def oracle_log(log, zwe_texts, what, marked=()):
    """Judged by the CALLER of write / write_raw (a payload that merely looks
    like a renderer sequence does not pass): cursor moves may write CR / CRLF;
    any other write is displayed text and must be control-free; Vt100_Output's
    own primitives write_raw sequences of the repertoire; any other write_raw
    must be exactly a stored zero-width escape (screen path) or the text of a
    marked fragment (print path)."""
    for kind, text, caller in log:
        if kind == 0:
            if caller in WRITE_RENDERER_CALLERS:
                if not REND_WRITE.match(text):
                    return ("%s: %s wrote %r, expected CR or CRLFs" % (what, caller, text), "write-control")
            elif caller == "renderer.py:print_formatted_text":
                if "\x1b" in text:
                    pass        # write() replaces it; checked on the bytes by the print oracle
            elif not control_free(text):
                rx = WRITE_LITERAL_CALLERS.get(caller)
                if caller in WRITE_LITERAL_CALLERS and (rx is None or rx.match(text)) and all(ch in "\r\n" or not is_control(ord(ch)) for ch in text):
                    continue
                return ("%s: write(%r) from %s carries a control character" % (what, text, caller), "write-control")
        else:
            if caller.startswith("vt100.py:"):
                if not REND_RAW.match(text) and text != "\x07":
                    return ("%s: Vt100_Output.%s sent %r, not a sequence of its repertoire" % (what, caller.split(":")[1], text), "raw")
            elif caller == "renderer.py:print_formatted_text":
                if text not in marked:
                    return ("%s: print_formatted_text passed %r through write_raw, which was not marked [ZeroWidthEscape]" % (what, text), "raw")
            elif text not in zwe_texts:
                return ("%s: write_raw(%r) from %s is not a stored zero-width escape" % (what, text, caller), "raw")
    return None


def segmentable(z, wholes, allow_suffix):
    """z is an in-order concatenation of whole texts from `wholes` (with
    horizontal scrolling: also suffixes of them, the front may be scrolled off)."""
    pieces = set(w for w in wholes if w)
    if allow_suffix:
        pieces |= set(w[i:] for w in wholes for i in range(1, len(w)))
    ok = [False] * (len(z) + 1)
    ok[0] = True
    for i in range(len(z)):
        if ok[i]:
            for pc in pieces:
                if z.startswith(pc, i):
                    ok[i + len(pc)] = True
    return ok[len(z)]


def oracle_stream(data, zwe_texts, what):
    """Tokenise the bytes sent: recognised renderer sequences and printable
    runs; nothing else may contain a control character."""
    for z in sorted(zwe_texts, key=len, reverse=True):
        if z:
            data = data.replace(z, "")
    rest = STREAM_TOK.sub("", data)
    bad = [ch for ch in rest if is_control(ord(ch))]
    if bad:
        i = data.find(bad[0])
        return ("%s: control character %r in the output stream outside renderer sequences (near %r)" % (
            what, bad[0], data[max(0, i - 12):i + 12]), "stream-control")
    return None


def oracle_cells(cells, what):
    for ch, st in cells:
        if not control_free(ch):
            return ("%s: screen cell %r (style %r) contains a control character" % (what, ch, st), "cell-control")
    return None


def oracle_pipeline(case, info):
    pmarked = [unS(tx) for pf in case[4] for st, tx in pf if "[ZeroWidthEscape]" in unS(st)]
    hscroll = case[3][5] != 0
    for k, stp in enumerate(info["steps"]):
        w = "render %d" % k
        marked = pmarked + [unS(tx) for l in case[5][k][0] for st, tx in l if "[ZeroWidthEscape]" in unS(st)]
        bad = oracle_cells(stp["cells"], w)
        if bad:
            return bad
        for z in stp["zwe_texts"]:
            # only explicitly marked text, whole and in order, may be stored as a zero-width escape
            if not segmentable(z, marked, hscroll):
                return ("%s: zero_width_escapes holds %r, which is not a concatenation of texts marked [ZeroWidthEscape] (%r)"
                        % (w, z, marked), "zwe-unmarked")
        bad = oracle_log(stp["log"], stp["zwe_texts"], w) or oracle_stream(stp["bytes"], stp["zwe_texts"], w)
        if bad:
            return bad
    return None


def oracle_e2e(res, what):
    if res.get("wire_error"):
        return ("%s: %s" % (what, res["wire_error"]), "wire-raw-byte")
    # the end-to-end specs never mark anything [ZeroWidthEscape]
    for z in res["zwe"]:
        if z:
            return ("%s: unmarked displayed content was stored as a zero-width escape (raw pass-through): %r" % (what, z), "zwe-unmarked")
    return (oracle_cells(res["cells"], what) or oracle_log(res["log"], set(res["zwe"]), what)
            or oracle_stream(res["bytes"], set(res["zwe"]), what))


# --------------------------------------------------------------------------
# generators

def gen_char_cases(chk):
    thorough = chk.tier == "thorough"
    cps = list(range(0, 0x300)) + SAMPLES_ABOVE
    if thorough:
        cps += list(range(0x300, 0x10000)) + [chk.rng.randrange(0x10000, 0x110000) for _ in range(8000)]
    else:
        cps += [chk.rng.randrange(0x300, 0x110000) for _ in range(300)]
    cases = []
    for c in cps:
        if 0xD800 <= c <= 0xDFFF:
            continue
        ch = chr(c)
        for st in ("", "class:x"):
            cases.append([1, wctab_for(ch), S(ch), S(st)])
    for ch in ["", "ab", "^A", "\x01\x02", "e\u0301", " ", "\xa0\xa0", "\x9bx", "\u754c\u0301", "a\x1b"]:
        cases.append([1, wctab_for(ch), S(ch), S("s")])
    return cases


def gen_write_cases(chk):
    import itertools
    cases = []
    alpha = ["\x1b", "?", "a", "\x9b", "\r"]
    for n in range(0, 4):
        for t in itertools.product(alpha, repeat=n):
            cases.append([2, S("".join(t))])
    for _ in range(2000 if chk.tier == "thorough" else 300):
        n = chk.rng.choice([1, 2, 5, 9, 30])
        cases.append([2, S("".join(chk.rng.choice(PIPE_ALPHA + ESC_SEQS + ["\x1b"] * 3) for _ in range(n)))])
    return cases


def rand_text(rng, maxn):
    n = rng.choice([0, 1, 1, 2, 3, 4, maxn])
    parts = []
    for _ in range(n):
        r = rng.random()
        if r < 0.08:
            parts.append(rng.choice(ESC_SEQS))
        elif r < 0.12:
            parts.append(chr(rng.randrange(0, 0x300)))
        else:
            parts.append(rng.choice(PIPE_ALPHA))
    return "".join(parts)


def rand_frags(rng, maxfr, maxn):
    fr = []
    for _ in range(rng.randint(0, maxfr)):
        if rng.random() < 0.15:
            fr.append([S(rng.choice(ZWE_STYLES)), S(rng.choice(ZWE_POOL))])
        else:
            fr.append([S(rng.choice(STYLES)), S(rand_text(rng, maxn))])
    return fr


def mk_pipeline_case(cf, pf, steps):
    text = "".join(unS(t) for ls, _a, _p in steps for l in ls for _s, t in l) + "".join(unS(t) for p in pf for _s, t in p)
    return [3, wctab_for(text + " ^<>"), [], cf, pf, steps]


def gen_pipeline_cases(chk):
    rng = chk.rng
    thorough = chk.tier == "thorough"
    cases = []
    # every code point 0..0x2FF (+ samples) in the middle of a line, first paint
    for c in list(range(0x300)) + SAMPLES_ABOVE:
        for wrap in ((0, 1) if (thorough or c < 0xA1) else (c % 2,)):
            cf = [7, 2, 0, 0, wrap, 0, 0]
            steps = [[[[[S(""), S("a" + chr(c) + "b" + chr(c))]]], [], [0, 0, 9, 3, 1, 0, 1, 0, 0]]]
            cases.append(mk_pipeline_case(cf, [], steps))
    for _ in range(30000 if thorough else 1200):
        width = rng.randint(1, 12)
        height = rng.randint(1, 4)
        xpos, ypos = rng.choice([0, 0, 1, 2, -1, -2]), rng.choice([0, 0, 1])     # negative xpos: a float with a negative `left`
        wrapf = rng.randint(0, 1)
        cf = [width, height, xpos, ypos, wrapf,
              0 if (wrapf or rng.random() < 0.6) else rng.choice([1, 1, 2, 3, 5, 20]), rng.choice([0, 0, 0, 1, 2])]
        if rng.random() < 0.25:       # vertical_scroll (lines skipped) / vertical_scroll_2 (rows of the first line above the window)
            cf += [rng.choice([0, 1, 1, 2, 5]), rng.choice([0, 1, 2]) if wrapf else rng.choice([0, 0, 1])]
        pf = [] if rng.random() < 0.6 else [rand_frags(rng, 2, 2), rand_frags(rng, 2, 2)]
        cols = max(1, xpos + width + rng.choice([0, 0, 1, 3]))
        rows = ypos + height + rng.choice([0, 0, 1, -1]) if height > 1 else ypos + height
        steps = []
        for k in range(rng.choice([1, 2, 2, 3])):
            lines = [rand_frags(rng, 4, 6) for _ in range(rng.randint(0, 3 if len(cf) == 7 else 5))]
            if k > 0 and rng.random() < 0.3:      # small edit of the previous content: exercises the diff
                lines = [list(l) for l in steps[-1][0]]
                if lines:
                    i = rng.randrange(len(lines))
                    lines[i] = lines[i] + rand_frags(rng, 1, 3) if rng.random() < 0.5 else lines[i][:-1]
            app = [] if rng.random() < 0.85 else [S(rng.choice(["class:exiting", "bold", ""]))]
            par = [1 if rng.random() < 0.12 else 0, rng.randint(0, 1), cols, max(1, rows),
                   rng.randint(0, max(0, cols - 1)), rng.randint(0, max(0, ypos + height - 1)), rng.randint(0, 1),
                   1 if rng.random() < 0.85 else 0, cols if rng.random() < 0.9 else cols + 1]
            steps.append([lines, app, par])
        cases.append(mk_pipeline_case(cf, pf, steps))
    return cases


def gen_producer_cases(chk):
    rng = chk.rng
    n = 3000 if chk.tier == "thorough" else 350
    pstyles = STYLES + ["[ZeroWidth", "Escape]", "x[ZeroWidthEscape", "[ZeroWidthEscape]"]
    cases = []

    def frs(maxfr=3, maxn=5):
        fr = []
        for _ in range(rng.randint(0, maxfr)):
            t = rand_text(rng, maxn)
            if rng.random() < 0.4:
                t = t + "\n" * rng.randint(1, 2) + rand_text(rng, 2)
            fr.append([S(rng.choice(pstyles)), S(t)])
        return fr
    for _ in range(n):
        cases.append([4, S(rng.choice(pstyles)), frs()])
        procs = []
        for _k in range(rng.choice([0, 1, 1, 2])):
            r = rng.random()
            procs.append([0] if r < 0.2 else [1, S(rng.choice(["*", "", "ab", "\x1b"]))] if r < 0.5 else [2, S(rng.choice(pstyles)), frs(2, 3)])
        text = "\n".join(rand_text(rng, 6) for _k in range(rng.randint(1, 3)))
        nlines = text.count("\n") + 1
        sel = None
        if rng.random() < 0.5:
            sel = [rng.randint(0, len(text)), rng.randint(0, len(text)), rng.randint(0, 2)]
            doc = make_document(text, sel)
            tab = []
            for ln in range(nlines):
                r = doc.selection_range_at_line(ln)
                if r:
                    tab.append([ln, r[0], r[1]])
            procs.insert(0, [4, tab])        # first in the chain: source_to_display is still the identity
        if rng.random() < 0.4:
            # the suggestion is only shown with the cursor at the end of the text
            procs.append([3, S(rng.choice(pstyles)), S(rand_text(rng, 4) if (not sel or sel[0] == len(text)) else ""), nlines - 1])
        cases.append([5, S(rng.choice(pstyles)), procs, S(text)] + ([sel] if sel else []))
        cases.append([9, frs(3, 4)])
        meta = frs(2, 8) or [[S(""), S("")]]     # Completion turns an empty display_meta into [('', '')]
        cases.append([10, wctab_for("".join(unS(f[1]) for f in meta) + " ."), meta, rng.randint(0, 1), rng.choice([2, 3, 4, 6, 9, 14, 30])])
        disp = frs(2, 8)
        cases.append([6, wctab_for("".join(unS(f[1]) for f in disp) + " ."), S(rng.choice(pstyles)), S(rng.choice(pstyles)), disp,
                      rng.randint(0, 1), rng.choice([1, 2, 3, 4, 6, 9, 14, 30]), rng.randint(0, 1)])
        cases.append([7, frs()])
    return cases


def gen_print_cases(chk):
    rng = chk.rng
    cases = []
    for _ in range(2000 if chk.tier == "thorough" else 250):
        frags = [[S(rng.choice(STYLES)), S(rand_text(rng, 6))] for _k in range(rng.randint(0, 4))]
        if rng.random() < 0.3:
            frags.insert(rng.randint(0, len(frags)), [S(rng.choice(ZWE_STYLES)), S(rng.choice(ZWE_POOL))])
        cases.append([11, [], frags])
    return cases


def gen_flush_cases(chk):
    rng = chk.rng
    cases = []
    special = [0x9b, 0xdc9b, 0xdc80, 0xdcff, 0xd800, 0xdfff, 0xe9, 0xff, 0x100, 0x7ff, 0x800, 0xffff, 0x10000, 0x10ffff, 0x1b, 0x7f, 0x80]
    for enc in range(3):
        for c in special + list(range(0xdc80, 0xdd00, 7)):
            cases.append([8, enc, [97, c, 98]])
        for _ in range(800 if chk.tier == "thorough" else 60):
            n = rng.randint(0, 8)
            cases.append([8, enc, [rng.choice(special + [rng.randrange(0, 0x110000), rng.randrange(0, 0x300), 0x41, 0x754c]) for _k in range(n)]])
    return cases


def gen_html_specs(chk):
    """(template, values): every attribute that can carry a colour (fg, bg, color - alone, combined, in both orders, on
    <style> and on other elements) x colour values around the mark x texts with 8-bit controls (ESC / BEL cannot occur in XML)"""
    colours = ["ansired", "#ff0000", "[ZeroWidthEscape]", "x[ZeroWidthEscape]", "[ZeroWidthEscape]y", "[zerowidthescape]", "a b", ""]
    texts = ["\x9b2J\x9d52;c;ZXZpbA==\x9c", "plain", "a\x85b"]
    templates = ['<style fg="{}">{}</style>', '<style bg="{}">{}</style>', '<style color="{}">{}</style>', '<b color="{}">{}</b>',
                 '<style color="{}" bg="ansiblue">{}</style>', '<style bg="ansiblue" color="{}">{}</style>',
                 '<style fg="ansired" color="{}">{}</style>', '<style color="{}" fg="">{}</style>', '<u fg="{}"><i>{}</i></u>',
                 '<x bg="{}">{}</x>', '<style fg="{0}" bg="{0}">{1}</style>']
    specs = [(t, [c, x]) for t in templates for c in colours for x in (texts if "ZeroWidth" in c else texts[:1])]
    rng = chk.rng
    for _ in range(200 if chk.tier == "thorough" else 30):
        specs.append((rng.choice(templates), [rng.choice(colours) + rng.choice(["", "[", "]", "[ZeroWidthEscape]"]), rand_text(rng, 4).replace("\x1b", "").replace("\x07", "")]))
    return specs


def gen_e2e_specs(chk):
    rng = chk.rng
    thorough = chk.tier == "thorough"
    specs = []
    for c in list(range(0x300)) + SAMPLES_ABOVE:
        t = "a" + chr(c) + "b"
        specs.append({"buffer": t, "message": "p" + chr(c) + "> ", "display": "d" + chr(c), "meta": "m" + chr(c),
                      "toolbar": "t" + chr(c) + "z", "cols": 40, "rows": 10, "family": "single", "cp": c})
    # a control character immediately followed by a zero-width / combining character in one fragment
    followers = [0x301, 0x200D, 0xFE0F, 0x483, 0x200B]
    for i, c in enumerate([x for x in range(0xA1) if is_control(x)]):
        t = "ab" + chr(c) + chr(followers[i % len(followers)]) + "z"
        specs.append({"buffer": t, "message": t + "> ", "display": t, "meta": t, "toolbar": t, "cols": 40, "rows": 10,
                      "family": "pair", "cp": c})
    # states of the session that activate other fragment producers: multi-column menu, numeric argument (ShowArg),
    # multiple cursors, incremental search (search toolbar + HighlightIncrementalSearchProcessor), rprompt
    probe = ["\x00", "\x07", "\x1b[2J", "\x9b31m", "\x9d0;t\x9c", "\x7f", "\x85", "\xa0", "\u0301", "\udc9b", "\t", "\n"]
    for mode in ("multi_column", "arg", "multicursor", "search", "rprompt"):
        for i, pr_ in enumerate(probe):
            t = "(a" + pr_ + "b)" + pr_
            specs.append({"buffer": t, "message": "p" + pr_ + "> ", "display": "d" + pr_ + "e", "meta": "m" + pr_, "toolbar": "t" + pr_ + "z",
                          "cols": 40, "rows": 10, "family": "mode", "mode": mode, "multiline": mode == "multicursor"})
    # the processors / margins that a default PromptSession does not use, in a full-screen Application
    for i, pr_ in enumerate(probe + ["\x1b]0;t\x07", "\x8e", "\u754c"]):
        for variant in range(4):
            t = " (a" + pr_ + "\tb) " + pr_ + "\n  x" + pr_ + "(ab  "
            specs.append({"buffer": t, "message": "p" + pr_ + "> ", "display": "d" + pr_ + "e", "meta": "m" + pr_, "toolbar": "t" + pr_ + "z",
                          "cols": 40, "rows": 8, "family": "app", "mode": "app", "variant": variant})
    # byte level: a stdout with .buffer/.encoding; lone surrogates (undecodable file-name bytes), astral characters
    sur = [chr(c) for c in range(0xDC80, 0xDD00)]
    for enc in ENCODINGS:
        for i in range(0, 128, 16):
            t = "".join("a" + x + "2J" for x in sur[i:i + 16])
            specs.append({"buffer": t[:30], "message": t[30:45] + "> ", "display": t[:12], "meta": t[12:24], "toolbar": t[24:],
                          "cols": 80, "rows": 10, "family": "wire", "enc": enc})
        t = "x\U0001F600\u754c\xe9\x9b\x1b[2J\ud800z"
        specs.append({"buffer": t, "message": t + "> ", "display": t, "meta": t, "toolbar": t, "cols": 80, "rows": 10,
                      "family": "wire", "enc": enc})
    for k in range(6000 if thorough else 250):
        def mix():
            return "".join(rng.choice(ESC_SEQS) if rng.random() < 0.4 else rand_text(rng, 5) for _ in range(rng.randint(1, 4)))
        specs.append({"buffer": mix(), "message": mix() + "> ", "display": mix() or "d", "meta": mix(), "toolbar": mix(),
                      "cols": rng.choice([20, 40, 80]), "rows": rng.choice([6, 10, 24]), "multiline": rng.random() < 0.3,
                      "family": "mixed"})
        if k % 4 == 0:
            specs[-1]["enc"] = ENCODINGS[(k // 4) % 3]
    return specs


# --------------------------------------------------------------------------

def describe(c, a, m):
    if c[0] == 1:
        return "Char(%r, %r): impl=%r model=%r" % (unS(c[2]), unS(c[3]), a, m)
    if c[0] == 2:
        return "Vt100_Output.write(%r): impl=%r model=%r" % (unS(c[1]), a, m)
    if c[0] == 11:
        return "print_formatted_text(%r): impl tokens=%s model tokens=%s" % (frags_of(c[2]), str(a)[:300], str(m)[:300])
    if c[0] == 8:
        return "flush_stdout encoding=%s data=%r: impl bytes=%r model bytes=%r" % (ENCODINGS[c[1]], unS(c[2]), a, m)
    if c[0] in (4, 5, 6, 7, 9, 10) + c10_procs.KINDS2:
        return "producer kind %d case=%s impl=%s model=%s" % (c[0], str(c)[:400], str(a)[:300], str(m)[:300])
    where = "?"
    if isinstance(m, list) and isinstance(a, list):
        for k, (x, y) in enumerate(zip(a, m)):
            if x != y and isinstance(y, list) and len(y) == 5:
                part = [n for n, (p, q) in zip(["screen cells", "zero_width_escapes", "height", "tokens", "final state"], zip(x, y)) if p != q]
                where = "render %d: %s" % (k, ", ".join(part))
                break
    lines = [[(unS(s), unS(t)) for s, t in l] for l in c[5][0][0]]
    return "copy_body+render cfg=%r prefix=%r first lines=%r: differs at %s" % (c[3], bool(c[4]), lines[:2], where)


def tagger(c, a, m):
    if c[0] == 1:
        return {"op": "Char", "family": "char-model"}
    if c[0] == 2:
        return {"op": "Vt100_Output.write", "family": "write-model"}
    if c[0] == 11:
        return {"op": "print_formatted_text", "family": "print-model"}
    if c[0] == 8:
        return {"op": "flush_stdout", "family": "wire-model"}
    if c[0] in (4, 5, 6, 7, 9, 10) + c10_procs.KINDS2:
        return {"op": "producer-%d" % c[0], "family": "producer-model"}
    part = "?"
    if isinstance(m, list) and isinstance(a, list):
        for x, y in zip(a, m):
            if x != y and isinstance(y, list) and len(y) == 5:
                part = [n for n, (p, q) in zip(["cells", "zwe", "height", "tokens", "state"], zip(x, y)) if p != q][0]
                break
    return {"op": "copy_body+render", "family": part}


def run_case_impl(c, env):
    if c[0] == 1:
        return impl_char(c), None
    if c[0] == 2:
        return impl_write(c), None
    if c[0] in (4, 5, 6, 7, 9, 10):
        return impl_producer(c), None
    if c[0] in c10_procs.KINDS2:
        return c10_procs.impl_producer2(c), None
    if c[0] == 8:
        return impl_flush(c), None
    if c[0] == 11:
        return impl_print_tokens(c, env)
    return impl_pipeline(c, env)


def main(tier):
    chk = Check(PROP, tier)
    # structural side condition (also enforced by the generator: the proofs do not build without it)
    import gen_t_c10
    problems, sites = gen_t_c10.scan(REPO)
    vt_problems, vt_rows = gen_t_c10.scan_vt100(REPO)
    problems = problems + vt_problems
    chk.coverage["structural_sites"] = len(sites)
    chk.coverage["vt100_raw_sites"] = len(vt_rows)
    for p in problems[:5]:
        chk.violation("structure", "screen store / raw write outside the reviewed shapes: " + p,
                      {"kind": "structure", "site": p.split(":")[0] + ":" + p.split(" line ")[0].split(":")[-1]},
                      {"problem": p, "how": "gen/gen_t_c10.py scan(<repo>)"}, no_input=True)
    pr = chk.proofs("Props/C10.v", tables=TABLES)
    okm, logm = build_model("c10", "Extract/ExC10.v", "run_C10q", tables=TABLES)
    if not okm:
        chk.violation("tie", "model does not build: " + logm[-400:], {"kind": "model-build"}, {"log": logm[-3000:]}, no_input=True)
        proof_gate(chk, pr)
        return chk.finish()

    env = StyleEnv()
    cases = load_corpus(PROP) + gen_char_cases(chk) + gen_write_cases(chk) + gen_pipeline_cases(chk) + gen_producer_cases(chk) + c10_procs.gen_cases(chk, rand_text, STYLES + ["[ZeroWidth", "Escape]", "x[ZeroWidthEscape", "[ZeroWidthEscape]"], wctab_for) + gen_flush_cases(chk) + gen_print_cases(chk)
    dist = {"char": 0, "write": 0, "copy_body+render": 0, "e2e_single": 0, "e2e_mixed": 0, "e2e_pair": 0, "e2e_mode": 0, "e2e_readline": 0, "print_tokens": 0, "e2e_wire": 0, "flush": 0, "print_formatted_text": 0, "e2e_dumb": 0, "producers": 0}
    impl_results, oracle_bad = [], set()
    for i, c in enumerate(cases):
        try:
            res, info = with_watchdog(lambda: run_case_impl(c, env), 10)
        except Hang:
            res, info = ["HANG"], None
        except Exception as e:  # noqa
            res, info = ["EXC", S(type(e).__name__)], None
        if c[0] == 3 and info is not None:
            # tables the model needs from the parts that are outside it
            styles = set(info["styles"])
            for stp in res:
                for row in stp[0]:
                    for cell in row:
                        styles.add(unS(cell[1]))
                if stp[4][2]:
                    styles.add(unS(stp[4][2][0]))
            c[2] = env.table(info["out"], styles)
        if c[0] == 11 and info is not None:
            c[1] = env.table(info["out"], info["styles"])
        impl_results.append(res)
        bad = None
        if c[0] == 11:
            dist["print_tokens"] += 1
            if info is None:
                bad = ("print_formatted_text raised or hung: %r" % (res,), "raise")
            else:
                marked = set(unS(t) for st, t in c[2] if "[ZeroWidthEscape]" in unS(st))
                bad = oracle_log(info["log"], set(), "print_formatted_text", marked)
                stripped = info["bytes"]
                for kind, t, caller in info["log"]:
                    if kind == 1:
                        stripped = stripped.replace(t, "", 1)
                if not bad and "\x1b" in stripped:
                    bad = ("print_formatted_text(%r) sent ESC for printed text: %r" % (frags_of(c[2]), info["bytes"]), "write-esc")
            nontrivial = any(27 in t for _s, t in c[2])
            tags = {"op": "print_formatted_text", "family": bad[1] if bad else ""}
            rep = {"case": c, "how": "harness/c10.py impl_print_tokens: renderer.print_formatted_text on a recording Vt100_Output"}
        elif c[0] == 1:
            dist["char"] += 1
            if len(c[2]) == 1 and res and res[0] != "EXC":
                bad = oracle_char(unS(c[2]), unS(c[3]), res)
            nontrivial = len(c[2]) == 1 and unS(res[0]) != unS(c[2]) if res and res[0] != "EXC" else False
            tags = {"op": "Char", "family": bad[1] if bad else ""}
            rep = {"char": unS(c[2]), "style": unS(c[3]), "observed": [unS(res[0]), unS(res[1]), res[2]] if bad else None,
                   "how": "prompt_toolkit.layout.screen.Char(char, style).char"}
        elif c[0] == 2:
            dist["write"] += 1
            if 27 in res:
                bad = ("Vt100_Output.write(%r) emitted ESC: %r" % (unS(c[1]), unS(res)), "write-esc")
            nontrivial = 27 in c[1]
            tags = {"op": "Vt100_Output.write", "family": "write-esc"}
            rep = {"data": unS(c[1]), "how": "Vt100_Output(StringIO).write(data); flush()"}
        elif c[0] == 8:
            dist["flush"] += 1
            bad = None
            if res and res[0] in ("EXC", "HANG"):
                bad = ("flush raised: %r" % (res,), "raise")
            else:
                text, why = decode_wire(bytes(res), ENCODINGS[c[1]])
                sent = unS(c[2])
                if why:
                    bad = ("flush of %r on a %s stdout: %s" % (sent, ENCODINGS[c[1]], why), "wire-raw-byte")
                elif any(is_control(ord(ch)) for ch in text if ch not in sent):
                    bad = ("flush of %r on a %s stdout put a control character on the wire that was not sent: %r" % (sent, ENCODINGS[c[1]], text), "wire-raw-byte")
            nontrivial = any(0xD800 <= x <= 0xDFFF or x > 0x7F for x in c[2])
            tags = {"op": "flush_stdout", "family": bad[1] if bad else ""}
            rep = {"case": c, "how": "harness/c10.py impl_flush: Vt100_Output(BinStdout(encoding)).write_raw(data); flush()"}
        elif c[0] in (4, 5, 6, 7, 9, 10):
            dist["producers"] += 1
            bad = ("producer raised: %r" % (res,), "raise") if (res and res[0] in ("EXC", "HANG")) else oracle_producer(c, res)
            nontrivial = True
            tags = {"op": "producer-%d" % c[0], "family": bad[1] if bad else ""}
            rep = {"case": c, "how": "harness/c10.py impl_producer (4 FormattedTextControl, 5 BufferControl, 6 _get_menu_item_fragments, 7 explode_text_fragments)"}
        elif c[0] in c10_procs.KINDS2:
            dist["producers2_k%d" % c[0]] = dist.get("producers2_k%d" % c[0], 0) + 1
            if res == c10_procs.EXC:
                dist["producers2_raise"] = dist.get("producers2_raise", 0) + 1
            bad = ("producer raised: %r" % (res,), "raise") if (res and res[0] in ("EXC", "HANG")) else c10_procs.oracle_producer2(c, res)
            nontrivial = res != c10_procs.EXC
            tags = {"op": "producer-%d" % c[0], "family": bad[1] if bad else ""}
            rep = {"case": c, "how": "harness/c10_procs.py impl_producer2 (12 BufferControl through the full processor chain, 13-15 margins, 16 multi-column menu row, 17 re.finditer literal)"}
        else:
            dist["copy_body+render"] += 1
            if info is None:
                bad = ("copy_body/render raised or hung: %r" % (res,), "raise")
            else:
                bad = oracle_pipeline(c, info)
            nontrivial = info is not None and any(len(stp["log"]) > 8 for stp in info["steps"])
            tags = {"op": "copy_body+render", "family": bad[1] if bad else ""}
            rep = {"case": c, "how": "harness/c10.py impl_pipeline: Window._copy_body + renderer._output_screen_diff"}
        chk.count_case(c, nontrivial)
        if bad:
            oracle_bad.add(i)
            rep["clause"] = bad[0]
            chk.violation("oracle", bad[0], tags, rep)
        if i % 499 == 0:
            chk.sample({"case": str(c)[:300], "impl_result": str(res)[:300]})

    model_results, nbad = correspondence(chk, "c10", cases, impl_results, tagger, describe=describe,
                                         oracle_failed=lambda i: i in oracle_bad)

    # safe print path: print_formatted_text never emits ESC for unmarked text
    rng = chk.rng
    for k in range(3000 if chk.tier == "thorough" else 400):
        frags = [(rng.choice(STYLES), rand_text(rng, 6)) for _ in range(rng.randint(1, 3))]
        if rng.random() < 0.2:
            frags.insert(rng.randint(0, len(frags)), ("[ZeroWidthEscape]", rng.choice(ZWE_POOL)))
        try:
            log, data = with_watchdog(lambda: impl_print_formatted(frags), 10)
        except Exception as e:  # noqa
            chk.violation("oracle", "print_formatted_text(%r) raised %r" % (frags, e), {"op": "print_formatted_text", "family": "raise"},
                          {"fragments": frags, "how": "print_formatted_text(Vt100_Output(StringIO), fragments, default_ui_style())"})
            continue
        dist["print_formatted_text"] += 1
        chk.count_case([4, [[S(a), S(b)] for a, b in frags]], any("\x1b" in t for _s, t in frags))
        marked = set(t for s, t in frags if "[ZeroWidthEscape]" in s)
        raws = [t for kind, t, _c in log if kind == 1]
        stripped = data
        for r in raws:
            stripped = stripped.replace(r, "", 1)
        if "\x1b" in stripped or any(not (REND_RAW.match(r) or r in marked) for r in raws):
            chk.violation("oracle", "print_formatted_text(%r) sent ESC outside its own SGR sequences / marked escapes: %r" % (frags, data),
                          {"op": "print_formatted_text", "family": "write-esc"},
                          {"fragments": frags, "observed": data, "how": "print_formatted_text(Vt100_Output(StringIO), fragments, default_ui_style())"})

    # end to end: a real PromptSession
    e2e = E2E()
    mode_reached = {}
    app_classes = set()
    dist["e2e_app"] = 0
    for spec in gen_e2e_specs(chk):
        try:
            res = with_watchdog(lambda: e2e.run(spec), 15)
        except Hang:
            chk.violation("oracle", "PromptSession render hung for %r" % (spec,), {"op": "e2e", "family": "hang"}, {"spec": spec})
            continue
        except Exception as e:  # noqa
            chk.violation("oracle", "PromptSession render raised %r for %r" % (e, spec), {"op": "e2e", "family": "raise:" + type(e).__name__},
                          {"spec": spec, "how": "harness/c10.py E2E.run(spec)"})
            continue
        dist["e2e_" + spec["family"]] += 1
        if spec.get("mode"):
            # the state must really be active, otherwise the spec exercises nothing
            classes = set(w for _ch, st in res["cells"] for w in st.split())
            want = {"multi_column": "MultiColumnCompletionMenuControl", "arg": "class:prompt.arg", "multicursor": "class:multiple-cursors",
                    "search": "class:prompt.search", "rprompt": "class:rprompt", "app": "class:line-number"}[spec["mode"]]
            if spec["mode"] == "app":
                app_classes.update(w for w in classes if w.startswith("class:"))
            reached = mode_reached.setdefault(spec["mode"], [0, 0])
            reached[1] += 1
            if want in classes or want in res.get("controls", ()):
                reached[0] += 1
        chk.count_case([5, S(spec["buffer"]), S(spec["message"]), S(spec["display"]), S(spec["meta"]), S(spec["toolbar"])],
                       not control_free(spec["buffer"] + spec["message"] + spec["display"] + spec["meta"] + spec["toolbar"]))
        bad = oracle_e2e(res, "PromptSession(buffer/message/completion/toolbar)")
        if bad:
            chk.violation("oracle", bad[0] + " spec=%r" % (spec,), {"op": "e2e", "family": bad[1]},
                          {"spec": spec, "clause": bad[0], "observed_bytes": res["bytes"][:2000],
                           "how": "harness/c10.py E2E.run(spec): PromptSession on Vt100_Output(StringIO), renderer.render x3"})
    for m_, (hit, tot) in sorted(mode_reached.items()):
        # (a float such as the rprompt is hidden when it would cover content: not every spec shows it)
        if hit * 2 < tot:
            chk.violation("tie", "e2e mode %r was active in only %d of %d specs" % (m_, hit, tot),
                          {"kind": "mode-not-reached", "mode": m_}, {"mode": m_}, no_input=True)
    chk.coverage["e2e_modes_active"] = {m_: "%d/%d" % tuple(v) for m_, v in mode_reached.items()}
    chk.coverage["e2e_app_classes_seen"] = sorted(app_classes)
    need = {"class:line-number", "class:line-number.current", "class:tilde", "class:scrollbar.arrow", "class:scrollbar.button", "class:pm",
            "class:bi", "class:ai", "class:tab", "class:search", "class:incsearch", "class:selected", "class:multiple-cursors",
            "class:matching-bracket.cursor", "class:leading-whitespace", "class:training-whitespace"}
    if dist["e2e_app"] and not need <= app_classes:
        chk.violation("tie", "e2e app family: producers never seen on the screen: %r" % sorted(need - app_classes),
                      {"kind": "mode-not-reached", "mode": "app-classes"}, {"missing": sorted(need - app_classes)}, no_input=True)
    chk.coverage["traces_validated_against_impl"] += dist["e2e_single"] + dist["e2e_mixed"]

    # formatted text built from a template and untrusted values (HTML(template).format(colour, text)): HTML has no way to
    # mark text [ZeroWidthEscape], so whatever the values are, either the template is refused (ValueError) or no fragment
    # carries the mark - and on a real PromptSession (message + toolbar) nothing of the text is stored as an escape
    dist["html_producer"] = 0
    dist["e2e_html"] = 0
    for template, values in gen_html_specs(chk):
        from prompt_toolkit.formatted_text import HTML, to_formatted_text
        try:
            frags = [(st, tx) for st, tx, *_ in to_formatted_text(HTML(template).format(*values))]
        except ValueError:
            dist["html_producer"] += 1
            continue            # refused
        except Exception as e:  # noqa
            chk.violation("oracle", "HTML(%r).format(*%r) raised %r" % (template, values, e), {"op": "producer-html", "family": "raise"},
                          {"html": [template, values]})
            continue
        dist["html_producer"] += 1
        chk.count_case([19, S(template), [S(v) for v in values]], True)
        marked = [(st, tx) for st, tx in frags if "[ZeroWidthEscape]" in st]
        if marked:
            chk.violation("oracle", "HTML(%r).format(*%r) marks text %r as [ZeroWidthEscape] (style %r): interpolated values are not an "
                          "explicit zero-width-escape marking" % (template, values, marked[0][1], marked[0][0]),
                          {"op": "producer-html", "family": "producer-marks"},
                          {"html": [template, values], "observed": frags[:6], "how": "to_formatted_text(HTML(template).format(*values))"})
        spec = {"buffer": "x", "message": "", "display": "d", "meta": "m", "toolbar": "", "cols": 60, "rows": 8, "family": "html",
                "html": [template, values]}
        try:
            res = with_watchdog(lambda: e2e.run(spec), 15)
        except ValueError:
            continue            # refused while rendering: nothing was sent
        except Hang:
            chk.violation("oracle", "PromptSession render hung for %r" % (spec,), {"op": "e2e", "family": "hang"}, {"spec": spec})
            continue
        except Exception as e:  # noqa
            chk.violation("oracle", "PromptSession render raised %r for %r" % (e, spec), {"op": "e2e", "family": "raise:" + type(e).__name__},
                          {"spec": spec, "how": "harness/c10.py E2E.run(spec)"})
            continue
        dist["e2e_html"] += 1
        bad = oracle_e2e(res, "PromptSession(message=toolbar=HTML(%r).format(*%r))" % (template, values))
        if bad:
            chk.violation("oracle", bad[0], {"op": "e2e", "family": bad[1]},
                          {"spec": spec, "clause": bad[0], "observed_bytes": res["bytes"][:2000],
                           "how": "harness/c10.py E2E.run(spec): PromptSession with message = bottom_toolbar = HTML(template).format(*values)"})

    # READLINE_LIKE completion listing: printed above the prompt with app.print_text, never a screen cell
    rl_specs = [["d" + x + "e", "plain"] for x in ("\x07", "\x9b2J", "\x9d0;t\x9c", "\x00", "\x7f", "\x85", "\x1b[31m", "\x0e", "\x8e", "ok")] + \
               [["a\x07\x9b2J\x1b[31m\x8e", "e\x9d0;t\x9c"], ["\u754c\u0301", "\xa0x"]]
    for displays in rl_specs:
        try:
            r, data, log = with_watchdog(lambda: impl_readline_like(displays), 20)
        except Hang:
            chk.violation("oracle", "readline-like completion listing hung for %r" % (displays,), {"op": "e2e-readline", "family": "hang"},
                          {"readline": displays})
            continue
        except Exception as e:  # noqa
            chk.violation("oracle", "readline-like completion listing raised %r for %r" % (e, displays),
                          {"op": "e2e-readline", "family": "raise:" + type(e).__name__}, {"readline": displays})
            continue
        dist["e2e_readline"] += 1
        chk.count_case([12, [S(d) for d in displays]], True)
        printed = [t for k, t, c in log if c == "renderer.py:print_formatted_text"]
        if not printed:
            chk.violation("tie", "the readline-like listing was not printed for %r (harness no longer reaches _display_completions_like_readline)" % (displays,),
                          {"kind": "readline-not-reached"}, {"readline": displays}, no_input=True)
            continue
        bad = None
        for t in printed:
            if any(is_control(ord(ch)) and ch not in "\r\n" for ch in t):
                bad = ("READLINE_LIKE completion listing: display texts %r are printed as %r - control characters of completion text reach the terminal "
                       "(print_formatted_text -> Vt100_Output.write only replaces ESC); whole output %r" % (displays, t, data[-200:]), "stream-control")
                break
        bad = bad or oracle_stream(data, set(), "READLINE_LIKE completion listing %r" % (displays,))
        if bad:
            chk.violation("oracle", bad[0], {"op": "e2e-readline", "family": bad[1]},
                          {"readline": displays, "observed": data, "clause": bad[0],
                           "how": "harness/c10.py impl_readline_like(displays): PromptSession(complete_style=READLINE_LIKE), keys 'x' TAB Enter on a pipe input"})

    # ... for EVERY control character (LF and CR included: the listing's own row ends are LF too): printing a display text
    # must give byte for byte what printing its caret / hex notation gives (same rows, same columns, nothing raw)
    ctrl = [chr(c) for c in range(0xA0) if is_control(c)]
    for gi in range(0, len(ctrl), 8):
        grp = ctrl[gi:gi + 8]
        displays = ["d%se%d" % (c, i) for i, c in enumerate(grp)] + ["plain"]
        bad = readline_notation_oracle(displays)
        dist["e2e_readline"] += 1
        chk.count_case([12, [S(d) for d in displays]], True)
        if bad:
            chk.violation("oracle", bad[0], {"op": "e2e-readline", "family": bad[1]},
                          {"readline": displays, "readline_notation": True, "clause": bad[0],
                           "how": "harness/c10.py readline_notation_oracle(displays): the READLINE_LIKE listing of the display texts "
                                  "vs the listing of their caret/hex notation (impl_readline_like twice)"})

    # dumb terminal prompt (TERM=dumb): message and typed characters go through Vt100_Output.write only
    dumb = [("p" + chr(c) + "> ", "x") for c in (0x00, 0x07, 0x08, 0x0d, 0x1b, 0x7f, 0x85, 0x9b, 0xa0)] + \
           [("> ", "a" + chr(c)) for c in (0x01, 0x07, 0x1b, 0x9b)] + [("\x1b]0;t\x07\x9b2J> ", "y")]
    dist["e2e_dumb"] = 0
    for message, typed in dumb:
        try:
            r, data = with_watchdog(lambda: impl_dumb_prompt(message, typed), 10)
        except Hang:
            chk.violation("oracle", "dumb prompt hung for message %r typed %r" % (message, typed), {"op": "e2e-dumb", "family": "hang"},
                          {"dumb": [message, typed]})
            continue
        except Exception as e:  # noqa
            chk.violation("oracle", "dumb prompt raised %r for message %r typed %r" % (e, message, typed),
                          {"op": "e2e-dumb", "family": "raise:" + type(e).__name__}, {"dumb": [message, typed]})
            continue
        dist["e2e_dumb"] += 1
        chk.count_case([6, S(message), S(typed)], True)
        bad = None
        if "\x1b" in STREAM_TOK.sub("", data):
            bad = ("dumb prompt: ESC sent for message %r / typed %r: %r" % (message, typed, data), "write-esc")
        else:
            bad = oracle_stream(data, set(), "dumb prompt (message %r, typed %r -> %r)" % (message, typed, data))
        if bad:
            chk.violation("oracle", bad[0], {"op": "e2e-dumb", "family": bad[1]},
                          {"dumb": [message, typed], "observed": data, "clause": bad[0],
                           "how": "harness/c10.py impl_dumb_prompt(message, typed): TERM=dumb, PromptSession(message).prompt() with type-ahead keys"})

    # extraction/driver cross-check inside Coq on a sample
    k = 600 if chk.tier == "thorough" else 150
    idx = sorted(chk.rng.sample(range(len(cases)), min(k, len(cases))))
    pairs = [(cases[i], impl_results[i]) for i in idx]
    bad, logs = vm_crosscheck(PROP, "run_C10q", "Model.C10_Screen Model.C10_Producers Model.C10_Wire Model.C10_Print Model.C10_Procs", pairs, per_file=75)
    chk.coverage["vm_compute_crosschecked"] = len(pairs)
    model_bad = set(i for i, (a, m) in enumerate(zip(impl_results, model_results)) if sx_norm(a) != m)
    vm_bad = set(idx[b] for b in bad if isinstance(b, int))
    if any(not isinstance(b, int) for b in bad):
        chk.violation("tie", "vm_compute cross-check failed to run: " + (logs[0] if logs else ""), {"kind": "vm"}, {"log": logs}, no_input=True)
    if vm_bad != (model_bad & set(idx)):
        chk.violation("tie", "extracted model and in-Coq evaluation disagree on cases %r" % sorted(vm_bad ^ (model_bad & set(idx)))[:5],
                      {"kind": "extraction"}, {"cases": [cases[i] for i in sorted(vm_bad ^ (model_bad & set(idx)))[:5]]}, no_input=True)

    proof_gate(chk, pr)
    chk.coverage["input_distribution"] = dist
    chk.coverage["rule"] = (
        "model cases: Char(c, style) for every code point 0..0x2FF + samples/random above (x2 styles) and multi-character strings; "
        "Vt100_Output.write on all strings of length <= 3 over {ESC,?,a,0x9b,CR} + random; Window._copy_body + "
        "_output_screen_diff (1-3 renders, diffing) for every code point 0..0x2FF in a line and random fragment lines "
        "(controls, ESC/CSI/OSC/DCS, 8-bit C1, NBSP, wide, combining, zero-width, [ZeroWidthEscape] fragments, prefixes, wrapping), "
        "compared cell by cell and token by token with the extracted model; oracle-only cases: print_formatted_text and a real "
        "PromptSession with the text in buffer, prompt message, completion display/meta and bottom toolbar (3 renders each). "
        "round 6: kinds 12-17 (harness/c10_procs.py) - BufferControl lines through the real merged processor chain "
        "(search / incremental search / matching bracket / multiple cursors / tabs / leading+trailing white space / "
        "AfterInput / ShowArg / Conditional / Dynamic + the earlier processors at any place, 1-4 processors, incl. the "
        "exceptions the chain raises), NumberedMargin / ScrollbarMargin / PromptMargin through FormattedTextControl, "
        "one row of the multi-column menu, re.finditer of a literal - compared fragment by fragment with the model; "
        "e2e family app: a full-screen Application with all those processors and margins, rendered 3x; "
        "non-trivial = the case contains a control character / ESC (char, write, e2e) or sends more than 8 tokens (pipeline); "
        "distinct by hash of the whole case")
    chk.assumptions += [
        "wcwidth is outside the model: theorems hold for every width function that gives printable ASCII width 1 "
        "(checked on the installed wcwidth by every Char case); cases carry the widths of the code points they use",
        "style -> Attrs -> SGR text is outside the model (C19): the SGR sequence is renderer generated by definition; "
        "style strings come from the application, not from displayed text",
        "screen cells are created only through Char/_CHAR_CACHE at the store sites classified by gen/gen_t_c10.py "
        "(AST scan, fail closed, on every run); Window.char, key-buffer data and scrollbar arrow symbols are application/"
        "key data, not displayed content",
        "cursor/menu bookkeeping of _copy_body and set_title are outside the model (horizontal scroll, alignment and - round 6 - vertical_scroll/vertical_scroll_2 are modelled); the dumb-terminal "
        "prompt (PromptSession._dumb_prompt -> _dumb_terminal_text -> Vt100_Output.write) is outside the model: its write sites are "
        "checked by the AST scan and its output by the oracle",
        "'control character' = C0 (0x00-0x1F), DEL, C1 (0x80-0x9F)",
        "kinds 12-16: what other objects compute is part of the case (Document.selection_range_at_line, "
        "_get_positions_to_highlight, cursor row/col, re.finditer under IGNORECASE, the float arithmetic of the scrollbar, "
        "column width / scroll of the multi-column menu); TabsProcessor with a negative tabstop and get_char() results "
        "of any length are modelled as coded (_ExplodedList.__setitem__)"]
    return chk.finish()


def replay(data):
    rep = data["replay"]
    rc = 0
    if "spec" in rep:
        res = E2E().run(rep["spec"])
        bad = oracle_e2e(res, "PromptSession")
        print("spec=%r\nbytes=%r" % (rep["spec"], res["bytes"][:1500]))
        print("ORACLE FAILS: " + bad[0] if bad else "oracle ok")
        return 1 if bad else 0
    if "readline" in rep and rep.get("readline_notation"):
        bad = readline_notation_oracle(rep["readline"])
        print("PromptSession(complete_style=READLINE_LIKE), displays %r, keys x TAB Enter" % (rep["readline"],))
        print("ORACLE FAILS: " + bad[0] if bad else "oracle ok")
        return 1 if bad else 0
    if "readline" in rep:
        r, out, log = impl_readline_like(rep["readline"])
        printed = [t for k, t, c in log if c == "renderer.py:print_formatted_text"]
        bad = any(is_control(ord(ch)) and ch not in "\r\n" for t in printed for ch in t)
        print("PromptSession(complete_style=READLINE_LIKE), displays %r, keys x TAB Enter -> result %r; printed listing %r" % (rep["readline"], r, printed))
        print("ORACLE FAILS: control characters of completion text are printed raw" if bad else "oracle ok")
        return 1 if bad else 0
    if "dumb" in rep:
        r, out = impl_dumb_prompt(*rep["dumb"])
        bad = oracle_stream(out, set(), "dumb prompt")
        print("TERM=dumb PromptSession(message=%r).prompt() typed %r -> result %r, sent %r" % (rep["dumb"][0], rep["dumb"][1], r, out))
        print("ORACLE FAILS: " + bad[0] if bad else "oracle ok")
        return 1 if bad else 0
    if "char" in rep:
        c = [1, wctab_for(rep["char"]), S(rep["char"]), S(rep.get("style", ""))]
        res = impl_char(c)
        bad = oracle_char(rep["char"], rep.get("style", ""), res) if len(rep["char"]) == 1 else None
        print("Char(%r, %r) -> char=%r style=%r width=%d  %s" % (rep["char"], rep.get("style", ""), unS(res[0]), unS(res[1]), res[2],
                                                               "ORACLE FAILS: " + bad[0] if bad else "oracle ok"))
        m = run_model("c10", [c])[0]
        print("model agrees" if m == sx_norm(res) else "model differs: %r" % (m,))
        return 1 if bad else 0
    if "data" in rep:
        res = impl_write([2, S(rep["data"])])
        print("Vt100_Output.write(%r) -> %r  %s" % (rep["data"], unS(res), "ORACLE FAILS: ESC emitted" if 27 in res else "oracle ok"))
        return 1 if 27 in res else 0
    if "fragments" in rep:
        log, out = impl_print_formatted([tuple(f) for f in rep["fragments"]])
        print("print_formatted_text(%r) -> %r" % (rep["fragments"], out))
        return 0
    if "case" in rep:
        c = rep["case"]
        if c and c[0] == 3:
            res, info = impl_pipeline(c)
            bad = oracle_pipeline(c, info)
            for k, stp in enumerate(info["steps"]):
                print("render %d: bytes=%r" % (k, stp["bytes"][:600]))
            print("ORACLE FAILS: " + bad[0] if bad else "oracle ok")
            rc = 1 if bad else 0
        else:
            res, _ = run_case_impl(c, None)
            print("impl -> %r" % (res,))
            if c and c[0] in (4, 5, 6, 7, 9, 10):
                bad = oracle_producer(c, res)
                print("ORACLE FAILS: " + bad[0] if bad else "oracle ok")
                rc = 1 if bad else 0
            elif c and c[0] in c10_procs.KINDS2:
                bad = c10_procs.oracle_producer2(c, res)
                print("ORACLE FAILS: " + bad[0] if bad else "oracle ok")
                rc = 1 if bad else 0
        m = run_model("c10", [c])[0]
        print("model agrees" if m == sx_norm(res) else "model differs")
        return rc
    print(json.dumps(rep, indent=1)[:3000])
    return rc
