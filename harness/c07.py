"""C07 - undo/redo.  Models: coq/Model/C07_Undo.v (Buffer.save_to_undo_stack /
undo / redo), coq/Model/C07_Keys.v (KeyProcessor._call_handler's snapshot
decision over the binding table), coq/Model/C07_Table.v (table regenerated from
/repo).  Theorems: coq/Props/C07.v.

Two correspondence streams, both compared after EVERY step (text, cursor,
_undo_stack, _redo_stack):
  kind 0  operation lists (Cmd save text cursor | Undo | Redo) on a bare Buffer
  kind 1  key sessions on a real PromptSession (emacs and vi), dispatched by the
          real KeyProcessor; every dispatch is logged (binding number, number of
          Buffer.undo() calls inside it, text/cursor it leaves, whether
          save_to_undo_stack was called) and replayed by the model, which decides
          by itself - from the regenerated table and its own is_repeat - whether
          a snapshot is taken.
The oracle (oracle_atoms, oracle_groups) only looks at what the implementation
did; it never calls the model.
"""
import asyncio
import itertools
import os
import re
import sys

from common import *  # noqa

sys.path.insert(0, os.path.join(VERIF, "gen"))
import gen_t_c07  # noqa: E402

PROP = "C07"
TABLES = ["C07_Bindings", "Whitespace"]
MODELS = [("c07", "Extract/ExC07.v", "run_C07")]

GROUP_ROLES = {1: "self-insert", 2: "backward-delete-char", 3: "delete-char", 6: "vi-multicursor-insert"}


# --------------------------------------------------------------------------
# oracle: the property text over the implementation's own behaviour
#
# atom = dict(kind="cmd"|"undo"|"redo", pre=(text, cursor), post=(text, cursor),
#             redo_len_after=int, edit=bool)
#   edit: a command dispatched to a handler that is not an undo/redo handler

def oracle_atoms(atoms):
    """Return None or (clause, family, index)."""
    past = []                 # states at command boundaries, oldest first
    last_landing = None       # index into `past` of the previous undo landing in the current undo chain
    prev_effective_undo = None
    pending = []              # pre-states of the effective undos not yet redone and not yet discarded by a snapshot
    for i, a in enumerate(atoms):
        pre, post, kind = a["pre"], a["post"], a["kind"]
        if kind == "reset":
            # Buffer.reset / a new prompt: a new session; its history starts here
            past, last_landing, prev_effective_undo, pending = [], None, None, []
            continue
        if a.get("boundary", True):
            # only the state at the START of a command (dispatch / direct call) is a
            # command boundary; states between the undo() calls of one dispatch and
            # before the Vi cursor fix-up are not
            past.append(pre)
        if kind == "undo":
            if post != pre:
                bound = len(past) - 1 if last_landing is None else last_landing
                idx = None
                for j in range(bound - 1, -1, -1):
                    if past[j] == post:
                        idx = j
                        break
                if idx is None:
                    if post not in past[:-1]:
                        if post[0] not in [p[0] for p in past[:-1]]:
                            return ("undo produced a text the buffer never held at an earlier command boundary", "undo-invents-text", i)
                        return ("undo restored a (text, cursor) pair the buffer never had at an earlier command boundary", "undo-invents-cursor", i)
                    return ("undo landed on a boundary that is not older than the previous undo landing", "undo-order", i)
                last_landing = idx
                prev_effective_undo = i
                pending.append(pre)
                continue
        elif kind == "redo":
            if prev_effective_undo == i - 1:
                if post != atoms[i - 1]["pre"]:
                    return ("redo immediately after undo did not restore text and cursor exactly", "redo-not-inverse", i)
            elif pending and post != pending[-1]:
                # redo exactly reverses undo: the k-th redo in a row answers the k-th last undo
                return ("redo did not restore the state its matching undo had left (expected %r)" % (pending[-1],), "redo-not-inverse-nested", i)
            elif post != pre and post not in past:
                return ("redo produced a state the buffer never had", "redo-invents", i)
            if pending:
                pending.pop()
            last_landing = None
        else:
            if a.get("saved"):
                pending = []      # a snapshot discards the redo history
            if a.get("edit") and post[0] != pre[0] and a["redo_len_after"] != 0:
                return ("an edit left the redo history in place", "edit-keeps-redo", i)
            if post[0] != pre[0]:
                last_landing = None
        prev_effective_undo = None if kind != "undo" else prev_effective_undo
    return None


def oracle_groups(events):
    """events: key-level dispatch records.  A maximal run of one grouping
    binding followed (possibly after dispatches that leave the text alone) by
    an undo: that ONE undo must restore the pre-run text and cursor."""
    out = []
    checked = 0
    # A direct Buffer.redo() is not a dispatch: it does not end a run of one
    # binding (is_repeat only looks at the previous DISPATCH).  Runs are
    # therefore delimited on the key events alone, and a run with a redo()
    # call inside it is not judged.
    # A cursor position report is an answer from the terminal, not a command: it
    # neither ends a run nor excuses it ("a run of consecutive character
    # insertions" stays one run whatever the terminal says in between).
    # A change from outside a dispatch (the asynchronous completer inserting the common
    # prefix) is not a command either: it neither ends nor excuses a run.
    def is_report(e):
        return e["kind"] in ("cpr", "async") or (e["kind"] == "key" and e["role"] == 7)
    keyed = [(p, e) for p, e in enumerate(events) if e["kind"] == "key" and not is_report(e)]
    n = len(keyed)
    i = 0
    while i < n:
        pos_i, e = keyed[i]
        if e["role"] not in GROUP_ROLES:
            i += 1
            continue
        j = i
        while (j + 1 < n and keyed[j + 1][1]["binding_id"] == e["binding_id"]
               and not any(events[q]["kind"] == "reset" for q in range(keyed[j][0], keyed[j + 1][0]))):
            j += 1      # (a new prompt ends the run: KeyProcessor.reset forgets the previous handler)
        pos_j = keyed[j][0]
        pre, post = e["pre"], keyed[j][1]["post"]
        k = pos_j + 1
        def outside_edit(e):    # a change from outside AFTER the run that altered the text: the next undo answers IT
            return e["kind"] == "async" and e["post"][0] != e["pre"][0]
        while (k < len(events) and ((is_report(events[k]) and not outside_edit(events[k])) or (events[k]["kind"] == "key" and not events[k]["undos"]
               and events[k]["post"][0] == events[k]["pre"][0] and events[k]["role"] not in GROUP_ROLES))):
            k += 1
        clean = all(events[q]["kind"] == "key" or is_report(events[q]) for q in range(pos_i, pos_j + 1))
        if clean and k < len(events) and events[k]["kind"] == "key" and events[k]["undos"] and post[0] != pre[0]:
            landed = events[k]["undos"][0][1]
            checked += 1
            if landed != pre:
                out.append((pos_i, pos_j, k, pre, post, landed))
        i = j + 1
    return checked, out


# --------------------------------------------------------------------------
# kind 0: operation lists on a bare Buffer

def stack_sx(st):
    return [[S(t), c] for (t, c) in st]


def impl_buffer_case(case):
    from prompt_toolkit.buffer import Buffer
    from prompt_toolkit.document import Document
    _, text, cur, ops = case
    b = Buffer(document=Document(unS(text), cur))
    out, atoms = [], []
    start = unS(text)    # the text the current session (since the last reset) started with
    safe = True          # the side condition of C07_reaches_start, observed on the implementation
    for op in ops:
        pre = (b.text, b.cursor_position)
        bad = 0
        try:
            if op[0] == 1:
                if op[1]:
                    b.save_to_undo_stack()
                elif unS(op[2]) != b.text and not b._undo_stack:
                    safe = False
                b.set_document(Document(unS(op[2]), op[3]), bypass_readonly=True)
                kind = "cmd"
            elif op[0] == 2:
                b.undo()
                kind = "undo"
            elif op[0] == 4:
                b.reset(Document(unS(op[1]), op[2]))
                kind = "reset"
                start, safe = unS(op[1]), True
            else:
                b.redo()
                kind = "redo"
        except AssertionError:
            bad = 1
            kind = "cmd"
        post = (b.text, b.cursor_position)
        out.append([bad, S(b.text), b.cursor_position, stack_sx(b._undo_stack), stack_sx(b._redo_stack)])
        atoms.append({"kind": kind, "pre": pre, "post": post, "redo_len_after": len(b._redo_stack),
                      "edit": op[0] == 1 and bool(op[1]), "saved": op[0] == 1 and bool(op[1])})
    # repeated undo (not part of the compared trace)
    final = None
    for _ in range(len(b._undo_stack) + 1):
        b.undo()
    final = b.text
    return out, atoms, safe, final, start


def buffer_cases(chk):
    rng = chk.rng
    thorough = chk.tier == "thorough"
    states = [("", 0), ("a", 0), ("a", 1), ("b", 1)]
    ops = [[1, sv, S(t), c] for sv in (0, 1) for (t, c) in states] + [[2], [3], [4, S(""), 0], [4, S("b"), 1]]
    cases = []
    dist = {"buffer_exhaustive": 0, "buffer_random": 0}
    maxlen = 4
    for n in range(1, maxlen + 1):
        for seq in itertools.product(ops, repeat=n):
            if n == maxlen and not thorough and rng.random() > 0.10:
                continue
            for (t, c) in ([("", 0), ("a", 1)] if n == maxlen else states):
                cases.append([0, S(t), c, [list(o) for o in seq]])
                dist["buffer_exhaustive"] += 1
    pool = ["", "a", "ab", "ab", "abc", "x\ny", "x\ny", "界", "hello world"]
    for _ in range(30000 if thorough else 1500):
        t = rng.choice(pool)
        seq = []
        for _ in range(rng.randint(3, 40)):
            r = rng.random()
            if r < 0.45:
                u = rng.choice(pool)
                seq.append([1, 1 if rng.random() < 0.7 else 0, S(u), rng.randint(0, len(u))])
            elif r < 0.76:
                seq.append([2])
            elif r < 0.93:
                seq.append([3])
            else:
                u = rng.choice(pool)
                seq.append([4, S(u), rng.randint(0, len(u))])
        cases.append([0, S(t), rng.randint(0, len(t)), seq])
        dist["buffer_random"] += 1
    return cases, dist


# --------------------------------------------------------------------------
# kind 1: key sessions on a real PromptSession

def K(key, data=None):
    from prompt_toolkit.key_binding.key_processor import KeyPress
    from prompt_toolkit.keys import Keys
    if isinstance(key, str) and key.startswith("Keys."):
        key = getattr(Keys, key[5:])
    return KeyPress(key, data if data is not None else (key if isinstance(key, str) and len(key) == 1 else ""))


# tokens: name -> list of (key, data); keys are either a literal character or "Keys.X"
def _tok(*ks):
    return [k if isinstance(k, tuple) else (k, None) for k in ks]


EMACS_TOKENS = {
    "a": _tok("a"), "b": _tok("b"), "sp": _tok(" "), "dot": _tok("."), "X": _tok("X"), "wide": _tok("界"),
    "bs": _tok(("Keys.ControlH", "\x7f")), "del": _tok("Keys.Delete"), "c-del": _tok("Keys.ControlDelete"),
    "enter": _tok(("Keys.ControlM", "\r")),
    "left": _tok("Keys.Left"), "right": _tok("Keys.Right"), "home": _tok("Keys.ControlA"), "end": _tok("Keys.ControlE"),
    "up": _tok("Keys.Up"), "down": _tok("Keys.Down"), "M-b": _tok("Keys.Escape", "b"), "M-f": _tok("Keys.Escape", "f"),
    "c-k": _tok("Keys.ControlK"), "c-u": _tok("Keys.ControlU"), "c-w": _tok("Keys.ControlW"), "c-y": _tok("Keys.ControlY"),
    "M-d": _tok("Keys.Escape", "d"), "M-bs": _tok("Keys.Escape", ("Keys.ControlH", "\x7f")), "M-y": _tok("Keys.Escape", "y"),
    "c-t": _tok("Keys.ControlT"), "M-u": _tok("Keys.Escape", "u"), "M-l": _tok("Keys.Escape", "l"), "M-c": _tok("Keys.Escape", "c"),
    "M-\\": _tok("Keys.Escape", "\\"), "M-3": _tok("Keys.Escape", "3"), "M--": _tok("Keys.Escape", "-"),
    "c-space": _tok("Keys.ControlAt"), "c-g": _tok("Keys.ControlG"), "c-q": _tok("Keys.ControlQ"), "c-z": _tok(("Keys.ControlZ", "\x1a")),
    "paste": _tok(("Keys.BracketedPaste", "p1\r\np2")), "M-<": _tok("Keys.Escape", "<"), "M->": _tok("Keys.Escape", ">"),
    "undo": _tok(("Keys.ControlUnderscore", "\x1f")), "undo2": _tok("Keys.ControlX", "Keys.ControlU"),
    "c-d": _tok("Keys.ControlD"), "c-b": _tok("Keys.ControlB"), "c-f": _tok("Keys.ControlF"),
    # a cursor position report from the terminal; alone, and in the middle of a two-key sequence
    "cpr": _tok(("Keys.CPRResponse", "\x1b[5;1R")),
    "M-b/cpr": _tok("Keys.Escape", ("Keys.CPRResponse", "\x1b[7;3R"), "b"),
    "M-d/cpr": _tok("Keys.Escape", ("Keys.CPRResponse", "\x1b[7;3R"), "d"),
}
EMACS_WEIGHTS = {"cpr": 5, "a": 8, "b": 6, "sp": 4, "bs": 6, "del": 3, "undo": 7, "undo2": 2, "left": 3, "right": 2, "c-w": 2, "enter": 2}

VI_TOKENS = {
    "a": _tok("a"), "b": _tok("b"), "sp": _tok(" "), "X": _tok("X"), "wide": _tok("界"), "x": _tok("x"),
    "bs": _tok(("Keys.ControlH", "\x7f")), "del": _tok("Keys.Delete"), "c-w": _tok("Keys.ControlW"),
    "c-del": _tok("Keys.ControlDelete"), "home": _tok("Keys.Home"),
    "esc": _tok("Keys.Escape"), "i": _tok("i"), "A": _tok("A"), "I": _tok("I"), "o": _tok("o"), "O": _tok("O"),
    "h": _tok("h"), "l": _tok("l"), "j": _tok("j"), "k": _tok("k"), "0": _tok("0"), "$": _tok("$"), "w": _tok("w"), "e": _tok("e"),
    "dd": _tok("d", "d"), "dw": _tok("d", "w"), "D": _tok("D"), "cw": _tok("c", "w"), "cc": _tok("c", "c"), "C": _tok("C"),
    "s": _tok("s"), "S": _tok("S"), "r": _tok("r", "z"), "R": _tok("R"), "p": _tok("p"), "P": _tok("P"), "yy": _tok("y", "y"),
    "yw": _tok("y", "w"), "u": _tok("u"), "2": _tok("2"), "3": _tok("3"), "~": _tok("~"), "J": _tok("J"), ">>": _tok(">", ">"),
    "<<": _tok("<", "<"), "v": _tok("v"), "V": _tok("V"), "c-v": _tok("Keys.ControlV"), "d": _tok("d"), "y": _tok("y"), "c": _tok("c"),
    "left": _tok("Keys.Left"), "right": _tok("Keys.Right"), "up": _tok("Keys.Up"), "down": _tok("Keys.Down"),
    "paste": _tok(("Keys.BracketedPaste", "p1\np2")), "gg": _tok("g", "g"), "G": _tok("G"),
    # block selection downwards, insert at multiple cursors, type (the one real if_no_repeat binding)
    "multi": _tok("Keys.Escape", "g", "g", "0", "Keys.ControlV", "j", "I"),
    "cpr": _tok(("Keys.CPRResponse", "\x1b[5;1R")),
    "d/cpr/w": _tok("d", ("Keys.CPRResponse", "\x1b[2;9R"), "w"),
}
VI_WEIGHTS = {"cpr": 5, "a": 8, "b": 6, "x": 5, "esc": 8, "u": 10, "i": 4, "bs": 4, "o": 3, "multi": 2, "A": 3, "sp": 3, "3": 1, "2": 1}


class Sess:
    """A PromptSession with a pipe input, driven key by key; Buffer.undo/redo/
    save_to_undo_stack and KeyProcessor._call_handler are wrapped (on the
    instances) to log what the real code does."""

    def __init__(self, mode, text, cursor, history):
        from prompt_toolkit import PromptSession
        from prompt_toolkit.application import create_app_session
        from prompt_toolkit.application.current import set_app
        from prompt_toolkit.document import Document
        from prompt_toolkit.enums import EditingMode
        from prompt_toolkit.history import InMemoryHistory
        from prompt_toolkit.input import create_pipe_input
        from prompt_toolkit.output import DummyOutput
        self._cms = []
        inp = self._enter(create_pipe_input())
        self._enter(create_app_session(input=inp, output=DummyOutput()))
        s = PromptSession(editing_mode=EditingMode.VI if mode == "vi" else EditingMode.EMACS,
                          validate_while_typing=False, multiline=True, history=InMemoryHistory(list(history)))
        self.app = s.app
        self.app.timeoutlen = None
        self.app.ttimeoutlen = None
        self.buf = s.default_buffer
        self.buf.reset(Document(text, cursor))
        self._enter(set_app(self.app))
        # what run_async gives the application for one prompt: a future that exit() resolves
        self.app.future = asyncio.get_event_loop().create_future()
        self.kp = self.app.key_processor
        self.bindings = gen_t_c07.live_bindings(self.app)
        self.index = {id(b): i for i, b in enumerate(self.bindings)}
        self.events = []
        self._rows = {}
        self.cur = None
        self.problems = []
        self._wrap()

    def _enter(self, cm):
        v = cm.__enter__()
        self._cms.append(cm)
        return v

    def close(self):
        for cm in reversed(self._cms):
            try:
                cm.__exit__(None, None, None)
            except Exception:
                pass

    def state(self):
        return (self.buf.text, self.buf.cursor_position)

    def _wrap(self):
        buf, kp = self.buf, self.kp
        o_save, o_undo, o_redo, o_call = buf.save_to_undo_stack, buf.undo, buf.redo, kp._call_handler

        def save(clear_redo_stack=True):
            if clear_redo_stack:
                if self.cur is None:
                    self.problems.append("save_to_undo_stack called outside a dispatch")
                else:
                    self.cur["saves"] += 1
                    if self.cur["undos"] or self.state() != self.cur["pre"]:
                        self.problems.append("save_to_undo_stack called after the handler started")
            return o_save(clear_redo_stack)

        def undo():
            pre = self.state()
            r = o_undo()
            if self.cur is None:
                self.problems.append("Buffer.undo called outside a dispatch")
            else:
                self.cur["undos"].append((pre, self.state()))
            return r

        def redo():
            if self.cur is not None:
                self.problems.append("Buffer.redo called inside a dispatch (no default binding does)")
            return o_redo()

        def call(handler, key_sequence):
            if self.app.current_buffer is not buf:
                return o_call(handler, key_sequence)
            idx = self.index.get(id(handler), -1)
            if id(handler) not in self._rows:
                self._rows[id(handler)] = gen_t_c07.row_of(handler)
            row, keys, name = self._rows[id(handler)]
            raw = kp.arg
            arg = -1 if raw == "-" else int(raw or 1)
            if arg >= 1000000:
                arg = 1
            rec = {"kind": "key", "h": idx, "row": row, "name": name, "keys": keys, "binding_id": id(handler), "arg": arg,
                   "role": row[2], "saves": 0, "undos": [], "pre": self.state(), "binding": handler, "nav": False,
                   "data": key_sequence[-1].data if key_sequence else ""}
            self.cur = rec
            try:
                o_call(handler, key_sequence)
            finally:
                self.cur = None
            rec["post"] = self.state()
            rec["ustack"] = list(buf._undo_stack)
            rec["rstack"] = list(buf._redo_stack)
            self.events.append(rec)

        o_cpr, o_fix = kp._handle_cpr_response, kp._fix_vi_cursor_position

        def handle_cpr(key_press):
            # process_keys delivers a report here, outside _call_handler
            pre = self.state()
            was = self.cur
            self.cur = {"saves": 0, "undos": [], "pre": pre, "in_cpr": True}
            try:
                o_cpr(key_press)
            finally:
                inner, self.cur = self.cur, was
            self.events.append({"kind": "cpr", "pre": pre, "post": self.state(), "saves": inner["saves"], "undos": inner["undos"],
                                "ustack": list(buf._undo_stack), "rstack": list(buf._redo_stack)})

        def fix(event):
            from prompt_toolkit.filters import vi_navigation_mode
            if self.cur is not None:
                self.cur["nav"] = bool(vi_navigation_mode())
            return o_fix(event)

        buf.save_to_undo_stack, buf.undo, buf.redo, kp._call_handler = save, undo, redo, call
        kp._handle_cpr_response, kp._fix_vi_cursor_position = handle_cpr, fix
        self._o_redo = o_redo

    def feed(self, token):
        """token: list of (key, data).  Returns False when the session left the
        scope (exception in a handler, focus moved, application exit)."""
        from prompt_toolkit.key_binding.key_processor import _Flush
        for key, data in token:
            self.kp.feed(K(key, data))
        self.kp.feed(_Flush)
        try:
            self.kp.process_keys()
        except Exception as e:  # noqa  (C05's business; the session is over for us)
            self.ended = "%s: %s" % (type(e).__name__, str(e)[:60])
            return False
        if self.app.current_buffer is not self.buf:
            self.ended = "focus left the default buffer"
            return False
        return True

    def new_prompt(self, how, text, cursor):
        """End the current prompt and start the next one on the same session,
        with the calls PromptSession.prompt()/Application.run_async make.
        how = 'accept': the accept-line key (its handler calls app.exit);
        how = 'task': app.exit() without any key (a background task, a timeout)."""
        from prompt_toolkit.document import Document
        ok = True
        if how == "accept":
            ok = self.feed(_tok("Keys.Escape", ("Keys.ControlM", "\r")))
            if not self.app.is_done:
                how = "task"
        if how == "task" and not self.app.is_done:
            self.app.exit(result=None)
        self.ended = None
        pre = self.state()
        self.buf.reset(Document(text, cursor))     # PromptSession.prompt(): self.default_buffer.reset(...)
        self.app.reset()                           # Application.run_async -> _pre_run -> self.reset()
        self.app.future = asyncio.get_event_loop().create_future()
        self.events.append({"kind": "reset", "how": how, "pre": pre, "post": self.state(),
                            "ustack": list(self.buf._undo_stack), "rstack": list(self.buf._redo_stack)})
        return self.app.current_buffer is self.buf

    def direct_redo(self):
        pre = self.state()
        self._o_redo()
        self.events.append({"kind": "redo", "pre": pre, "post": self.state(),
                            "ustack": list(self.buf._undo_stack), "rstack": list(self.buf._redo_stack)})


def named_command_of(binding):
    from prompt_toolkit.key_binding.bindings import named_commands
    for name, nb in named_commands._readline_commands.items():
        if nb.handler is binding.handler:
            return name, nb
    return None, None


_ADD_DROPS = []


def add_drops_save_before():
    """Does KeyBindings.add(..., save_before=X)(<Binding>) lose X?  Asked of the
    real class, on a scratch registry."""
    if not _ADD_DROPS:
        from prompt_toolkit.key_binding.key_bindings import KeyBindings, key_binding

        def marker(event):
            return False
        kb = KeyBindings()
        kb.add("a", save_before=marker)(key_binding()(lambda event: None))
        _ADD_DROPS.append(kb.bindings[0].save_before is not marker)
    return _ADD_DROPS[0]


def group_cause(binding, row):
    """Why a grouping binding is not if_no_repeat."""
    if row[0] == 2:
        return "other"
    name, nb = named_command_of(binding)
    if nb is not None and binding.save_before is nb.save_before and add_drops_save_before():
        return "add-kept-named-command-save_before"
    return "save_before-not-if_no_repeat"


async def run_key_case(spec):
    """spec = dict(mode, text, cursor, history, tokens=[token-name | '!redo'], tail=bool)"""
    toks = VI_TOKENS if spec["mode"] == "vi" else EMACS_TOKENS
    s = Sess(spec["mode"], spec["text"], spec["cursor"], spec["history"])
    s.ended = None
    try:
        s.buf.load_history_if_not_yet_loaded()
        for _ in range(6):
            await asyncio.sleep(0)
        init = s.state()
        first = init
        ok = True
        for t in spec["tokens"]:
            if t == "!redo":
                s.direct_redo()
                continue
            if isinstance(t, list) and t[0] == "!new":
                ok = s.new_prompt(t[1], t[2], t[3])
                if not ok:
                    break
                init = s.state()
                continue
            ok = s.feed(toks[t])
            if not ok:
                break
        exhausted = False
        if ok and spec.get("tail", True):
            # repeated undo through the real undo key
            pre_tokens = [] if spec.get("edit") else ["esc", "esc"] if spec["mode"] == "vi" else ["c-g"]
            for t in pre_tokens:
                ok = ok and s.feed(toks[t])
            # every undo key: Vi u; emacs C-_ and C-x C-u alternately
            undo_toks = [toks["u"]] if spec["mode"] == "vi" else [toks["undo"], toks["undo2"]]
            for q in range(len(s.buf._undo_stack) + 2):
                if not ok:
                    break
                ok = s.feed(undo_toks[q % len(undo_toks)])
            exhausted = ok and not s.buf._undo_stack
        res = {"init": init, "first": first, "events": s.events, "problems": s.problems, "ended": s.ended,
               "tail_ran": bool(ok and spec.get("tail", True)), "stack_left": list(s.buf._undo_stack),
               "exhausted": exhausted, "final": s.state(), "nbindings": len(s.bindings)}
        try:
            await s.app.cancel_and_wait_for_background_tasks()
        except Exception:
            pass
        return res
    finally:
        s.close()


_LOOP = [None]


def run_key_case_sync(spec):
    if _LOOP[0] is None or _LOOP[0].is_closed():
        _LOOP[0] = asyncio.new_event_loop()
    loop = _LOOP[0]
    try:
        return with_watchdog(lambda: loop.run_until_complete(run_key_case(spec)), 20)
    except Hang:
        _LOOP[0] = None
        return {"hang": True}


def key_case_to_model(res):
    """-> (case sx, impl result sx, atoms)"""
    init = res["first"]
    evs, out, atoms = [], [], []
    for e in res["events"]:
        if e["kind"] == "redo":
            evs.append([2])
            out.append([0, [0, S(e["post"][0]), e["post"][1], stack_sx(e["ustack"]), stack_sx(e["rstack"])]])
            atoms.append({"kind": "redo", "pre": e["pre"], "post": e["post"], "redo_len_after": len(e["rstack"])})
            continue
        if e["kind"] == "reset":
            evs.append([5, S(e["post"][0]), e["post"][1]])
            out.append([0, [0, S(e["post"][0]), e["post"][1], stack_sx(e["ustack"]), stack_sx(e["rstack"])]])
            atoms.append({"kind": "reset", "pre": e["pre"], "post": e["post"], "redo_len_after": len(e["rstack"])})
            continue
        if e["kind"] == "cpr" or e["role"] == 7:
            # a terminal report, however the key processor chose to deliver it: the model's Cpr event
            evs.append([4])
            out.append([1 if e["saves"] else 0, [0, S(e["post"][0]), e["post"][1], stack_sx(e["ustack"]), stack_sx(e["rstack"])]])
            atoms.append({"kind": "cmd", "pre": e["pre"], "post": e["post"], "redo_len_after": len(e["rstack"]),
                          "edit": False, "saved": bool(e["saves"])})
            continue
        if e["row"][1] == 1:
            # an undo key: the model computes the whole effect (n undo() calls + Vi cursor fix-up)
            # (the count typed before the key goes in; how often undo() runs is the handler model's business)
            evs.append([3, e["h"], e["arg"], 1 if e.get("nav") else 0])
        else:
            evs.append([1, e["h"], len(e["undos"]), S(e["post"][0]), e["post"][1]])
        out.append([1 if e["saves"] else 0, [0, S(e["post"][0]), e["post"][1], stack_sx(e["ustack"]), stack_sx(e["rstack"])]])
        if e["undos"]:
            first_atom = len(atoms)
            if e["saves"]:
                atoms.append({"kind": "cmd", "pre": e["pre"], "post": e["pre"], "redo_len_after": 0, "edit": False, "saved": True})
            for (p, q) in e["undos"]:
                atoms.append({"kind": "undo", "pre": p, "post": q, "redo_len_after": -1})
            last = e["undos"][-1][1]
            if last != e["post"]:
                atoms.append({"kind": "cmd", "pre": last, "post": e["post"], "redo_len_after": len(e["rstack"]), "edit": False, "saved": False})
            for q_, a_ in enumerate(atoms[first_atom:]):
                a_["boundary"] = (q_ == 0)     # one command boundary per dispatch
        else:
            atoms.append({"kind": "cmd", "pre": e["pre"], "post": e["post"], "redo_len_after": len(e["rstack"]),
                          "edit": e["row"][1] == 0 and e["row"][0] != 0, "saved": bool(e["saves"])})
    return [1, S(init[0]), init[1], evs], out, atoms


def rand_tokens(rng, mode, n):
    toks = VI_TOKENS if mode == "vi" else EMACS_TOKENS
    w = VI_WEIGHTS if mode == "vi" else EMACS_WEIGHTS
    names = [k for k in toks if k != "c-d"]
    weights = [w.get(k, 1) for k in names]
    out = []
    for _ in range(n):
        r = rng.random()
        if r < 0.06:
            out.append("!redo")
        elif r < 0.085:
            t = rng.choice(["", "abc", "two\nlines", "x y"])
            out.append(["!new", rng.choice(["task", "task", "accept"]), t, rng.randint(0, len(t))])
        elif r < 0.10 and mode == "vi":
            out += ["multi", "a", "b", "a", "esc"]
        elif r < 0.13:
            out += rng.choice([["del", "c-del"], ["c-del", "del", "del"], ["home", "del", "c-del"]])
        else:
            out.append(rng.choices(names, weights)[0])
    return out


def key_specs(chk):
    rng = chk.rng
    thorough = chk.tier == "thorough"
    specs = []
    texts = ["", "abc", "hello world", "one two\nthree four\nfive", "  x", "界a b"]
    hist = ["h1 one", "h2 two"]
    # structured scenarios first: the property's own sentences
    fixed = [
        ("emacs", "abc", 3, ["a", "b", "undo"]),
        ("emacs", "abc", 3, ["a", "b", "bs", "bs", "undo", "undo", "!redo", "!redo"]),
        ("emacs", "", 0, ["a", "sp", "b", "c-w", "undo", "!redo", "a", "!redo"]),
        ("emacs", "abc", 0, ["del", "del", "undo", "!redo", "undo"]),
        ("emacs", "x", 1, ["M-3", "a", "undo2", "undo2"]),
        # several prompts on one session: ended by a task or by the accept key; undo/redo as last and first operations
        ("emacs", "abc", 3, ["a", "b", ["!new", "task", "xyz", 3], "a", "b", "undo"]),
        ("emacs", "abc", 3, ["a", "b", ["!new", "accept", "xyz", 3], "a", "b", "undo", "!redo"]),
        ("emacs", "hello", 5, ["bs", "bs", ["!new", "task", "world", 5], "bs", "bs", "undo", "undo"]),
        ("emacs", "", 0, ["a", "b", "sp", "c-w", "undo", "undo", ["!new", "task", "q", 1], "!redo", "a", "!redo", "undo"]),
        ("emacs", "", 0, ["a", "c-w", "undo", ["!new", "accept", "q", 1], "!redo", "undo", ["!new", "task", "", 0], "undo", "!redo"]),
        ("vi", "", 0, ["a", "b", ["!new", "task", "xyz", 0], "a", "b", "esc", "u"]),
        ("vi", "one two", 0, ["esc", "x", "x", "u", ["!new", "task", "three", 2], "!redo", "esc", "x", "u", "!redo", "!redo"]),
        ("vi", "ab\ncd", 0, ["multi", "a", "b", ["!new", "task", "ef\ngh", 0], "multi", "a", "b", "esc", "u"]),
        # terminal reports arriving between the keys of a run / inside a key sequence
        ("emacs", "", 0, ["a", "b", "cpr", "a", "b", "undo"]),
        ("emacs", "hello!", 5, ["bs", "cpr", "bs", "cpr", "cpr", "bs", "undo", "undo"]),
        ("emacs", "one two", 0, ["del", "cpr", "del", "M-d/cpr", "cpr", "undo", "undo", "!redo"]),
        ("vi", "", 0, ["a", "b", "cpr", "a", "b", "esc", "cpr", "u"]),
        ("vi", "ab\ncd\nef", 0, ["multi", "a", "cpr", "b", "cpr", "a", "esc", "u", "cpr", "u"]),
        ("vi", "one two three", 0, ["esc", "d/cpr/w", "x", "cpr", "u", "cpr", "u", "!redo"]),
        ("emacs", "", 0, ["a", "sp", "b", "sp", "c-w", "undo", "undo", "undo", "!redo", "!redo", "!redo", "undo", "!redo"]),
        ("vi", "one two three", 0, ["esc", "x", "w", "x", "w", "x", "u", "u", "u", "!redo", "!redo", "!redo", "u", "u"]),
        # two bindings sharing one handler function (delete-char): is_repeat is per binding
        ("emacs", "abcdefgh", 0, ["del", "c-del", "del", "c-del", "c-del", "undo", "undo"]),
        ("vi", "abcdefgh", 0, ["del", "c-del", "c-del", "del", "esc", "u", "u"]),
        ("emacs", "abc", 3, ["up", "a", "c-w", "undo", "undo", "undo", "undo"]),
        ("vi", "abc", 3, ["a", "b", "esc", "u", "!redo", "u"]),
        ("vi", "abc", 3, ["a", "b", "c-w", "esc", "u", "3", "u"]),
        ("vi", "ab\ncd\nef", 0, ["multi", "a", "b", "a", "esc", "u"]),
        ("vi", "ab\ncd\nef", 0, ["multi", "a", "b", "esc", "x", "u", "u", "!redo", "!redo"]),
        ("vi", "one two", 0, ["esc", "dw", "x", "p", "u", "u", "u", "!redo", "u"]),
        ("vi", "abc", 1, ["esc", "R", "X", "X", "esc", "u", "u"]),
    ]
    for mode, t, c, toks in fixed:
        specs.append({"mode": mode, "text": t, "cursor": c, "history": hist, "tokens": toks, "tail": True, "src": "scenario"})
    n = 6000 if thorough else 400
    for i in range(n):
        mode = "vi" if i % 2 else "emacs"
        t = rng.choice(texts)
        body = rand_tokens(rng, mode, rng.randint(4, 45 if thorough else 28))
        specs.append({"mode": mode, "text": t, "cursor": rng.randint(0, len(t)), "history": hist if rng.random() < 0.7 else [],
                      "tokens": body, "tail": rng.random() < 0.85, "src": "random"})
    return specs


# --------------------------------------------------------------------------

def gen_sha():
    try:
        src = open(os.path.join(COQ, "Gen", "C07_Bindings.v")).read()
    except OSError:
        return None
    m = re.search(r"\(\* sha1 ([0-9a-f]{40}) \*\)", src)
    return m.group(1) if m else None


def describe_atom(a):
    return "%s %r -> %r" % (a["kind"], a["pre"], a["post"])


def live_rows_sx(rows0):
    return [list(r[0]) for r in rows0]


def table_consistent(rows0):
    """Is the binding table the two model evaluators use the one of the tree under test?
    coq/Gen/C07_Bindings.v, the compiled .vo files and build/c07_model are shared by every
    ./check C07 on this machine; a concurrent run with another VERIF_REPO (a seeded tree
    next to /repo HEAD) regenerates them with ITS table.  The extracted model answers the
    table query (5) with its rows; the Gen file carries the digest of the rows."""
    try:
        t = run_model("c07", [[5]])[0]
    except Exception:  # noqa
        return False
    return t == live_rows_sx(rows0) and gen_sha() == gen_t_c07.rows_digest(rows0)


def rebuild_for_this_tree():
    return build_model("c07", "Extract/ExC07.v", "run_C07", tables=TABLES)


def guarded_correspondence(chk, cases, impl_results, rows0, tagger, describe, oracle_failed):
    """common.correspondence, with the extracted model re-run (after a rebuild from the tree
    under test) when the shared binding table was swapped under it by a concurrent run."""
    stable = False
    model_results = []
    for attempt in range(3):
        before = table_consistent(rows0)
        model_results = run_model("c07", cases)
        if before and table_consistent(rows0):
            stable = True
            break
        chk.note("the shared binding table changed while the extracted model ran (concurrent ./check C07 on another tree?); rebuilding, attempt %d" % (attempt + 1))
        rebuild_for_this_tree()
    if not stable:
        chk.violation("tie", "coq/Gen/C07_Bindings.v / build/c07_model kept changing under this run (another ./check C07 with a different VERIF_REPO is running): "
                      "the model could not be evaluated over the table of the tree under test", {"kind": "table-race", "evaluator": "extracted"}, {}, no_input=True)
    nbad = 0
    for i, (c, a, m) in enumerate(zip(cases, impl_results, model_results)):
        a = sx_norm(a)
        if a != m:
            nbad += 1
            if nbad > 50:
                continue
            tags = dict(tagger(c, a, m))
            tags.setdefault("kind", "correspondence")
            has_input = bool(oracle_failed(i))
            chk.violation("correspondence", "model c07 and implementation differ: " + describe(c, a, m), tags,
                          {"case": sx_norm(c), "impl": a, "model": m, "model_fn": "c07"}, no_input=not has_input)
    chk.coverage["traces_validated_against_impl"] += len(cases) - nbad
    return model_results, nbad


def guarded_vm_crosscheck(chk, pairs, rows0):
    """vm_crosscheck with a sentinel (table query, live rows) at the head of every generated
    file: when the sentinel itself mismatches, Model/C07_Table.vo was compiled over another
    tree's table (concurrent run) - rebuild and evaluate again instead of blaming extraction.
    -> (indices into `pairs` that differ, logs, ok)"""
    sentinel = ([5], live_rows_sx(rows0))
    bad, logs = [], []
    for attempt in range(3):
        aug, orig = [], []
        for k, pr_ in enumerate(pairs):
            if len(aug) % 400 == 0:
                aug.append(sentinel)
                orig.append(None)
            aug.append(pr_)
            orig.append(k)
        bad, logs = vm_crosscheck(PROP, "run_C07", "Model.C07_Table", aug)
        raced = [b for b in bad if isinstance(b, int) and orig[b] is None]
        if not raced and table_consistent(rows0):
            return [orig[b] if isinstance(b, int) else b for b in bad], logs, True
        chk.note("the in-Coq evaluation saw another binding table than the tree under test (concurrent ./check C07 on another tree?); rebuilding, attempt %d" % (attempt + 1))
        rebuild_for_this_tree()
    return [orig[b] if isinstance(b, int) else b for b in bad if not (isinstance(b, int) and orig[b] is None)], logs, False


def main(tier):
    chk = Check(PROP, tier)
    rows0 = gen_t_c07.default_rows()     # the table of the tree under test, computed in this process
    pr, okm, logm = None, False, ""
    for attempt in range(3):
        pr = chk.proofs("Props/C07.v", tables=TABLES)
        okm, logm = build_model("c07", "Extract/ExC07.v", "run_C07", tables=TABLES)
        if not okm or table_consistent(rows0):
            break
        # proofs / model were (re)built while another run swapped the shared table: do it again
        chk.note("binding table under coq/Gen is not the one of the tree under test after the build (concurrent ./check C07 on another tree?); rebuilding, attempt %d" % (attempt + 1))
    if not okm:
        chk.violation("tie", "model does not build: " + logm[-400:], {"kind": "model-build"}, {"log": logm[-3000:]}, no_input=True)
        proof_gate(chk, pr)
        return chk.finish()

    # ---- the table: what this process sees must be what the proofs were checked over
    if gen_t_c07.rows_digest(rows0) != gen_sha():
        chk.violation("tie", "binding table seen by the harness differs from coq/Gen/C07_Bindings.v",
                      {"kind": "table-digest"}, {"harness": gen_t_c07.rows_digest(rows0), "gen": gen_sha()}, no_input=True)
    tq = run_model("c07", [[2]])[0]
    table_info = {"rows": tq[0], "shape_ok": tq[1], "typed_group_ok": tq[2], "undo_never_snapshots": tq[3],
                  "group_rows_not_if_no_repeat": tq[4], "undo_rows_that_snapshot": tq[5], "redo_rows": tq[6]}
    chk.coverage["binding_table"] = table_info
    if tq[0] != len(rows0):
        chk.violation("tie", "model table has %r rows, harness sees %d" % (tq[0], len(rows0)), {"kind": "table-size"}, {}, no_input=True)
    if tq[5]:
        chk.note("undo bindings that snapshot before undoing (each such undo empties the redo stack first): "
                 + ", ".join("%d %s -> %s" % (i, rows0[i][1], rows0[i][2]) for i in tq[5]))
    if not tq[6]:
        chk.note("no default binding calls Buffer.redo (Vi c-r is reverse search); redo is exercised by direct Buffer.redo() calls")

    # ---- kind 0: bare Buffer
    bcases, dist = buffer_cases(chk)
    corpus = [c for c in load_corpus(PROP) if isinstance(c, list) and c and c[0] == 0]
    bcases = corpus + bcases
    dist["corpus"] = len(corpus)
    cases, impl_results = [], []
    oracle_bad = set()

    def report(i, case, atoms, bad, how, extra_tags=None, spec=None):
        clause, fam, at = bad
        tags = {"clause": fam}
        tags.update(extra_tags or {})
        oracle_bad.add(i)
        rep = {"case": sx_norm(case), "clause": clause, "at_atom": at, "atoms": [describe_atom(a) for a in atoms[:60]], "how": how}
        if spec is not None:
            rep["spec"] = spec
        chk.violation("oracle", "%s: %s [%s]" % (clause, describe_atom(atoms[at]) if at is not None else "", how[:160]), tags, rep)

    for c in bcases:
        out, atoms, safe, final, start = with_watchdog(lambda: impl_buffer_case(c), 10)
        i = len(cases)
        cases.append(c)
        impl_results.append(out)
        chk.count_case(c, any(a["kind"] == "undo" and a["pre"] != a["post"] for a in atoms))
        bad = oracle_atoms(atoms)
        if bad is None and any(o[0] for o in out):
            bad = ("Document assertion fired inside undo/redo", "assert", None)
        if bad is None and safe and final != start:
            bad = ("repeated undo ended on %r, the session (since the last reset) started with %r" % (final, start), "reaches-start", None)
        if bad:
            report(i, c, atoms, bad, "Buffer(Document(text,cursor)); ops (1 save text cursor)=save_to_undo_stack?+set_document, (2)=undo(), (3)=redo(), (4 text cursor)=reset(Document)")
        if i % 1499 == 0:
            chk.sample({"kind": "buffer", "text": unS(c[1]), "cursor": c[2], "ops": c[3][:5], "impl_result": out[:2]})

    # ---- kind 1: key sessions
    specs = key_specs(chk)
    kstats = {"sessions": 0, "dispatches": 0, "undo_calls": 0, "effective_undos": 0, "direct_redos": 0, "ended_early": {},
              "reach_start_checked": 0, "group_runs_checked": 0, "handlers": {}, "modes": {"emacs": 0, "vi": 0},
              "snapshot_decisions": {"saved": 0, "not_saved": 0, "if_no_repeat_repeats": 0}}
    spec_of = {}
    for spec in specs:
        res = run_key_case_sync(spec)
        if res.get("hang"):
            chk.violation("oracle", "key session did not finish within 20 s: %r" % (spec["tokens"][:30],), {"clause": "hang"},
                          {"spec": spec, "how": "see harness/c07.py replay"})
            continue
        case, out, atoms = key_case_to_model(res)
        i = len(cases)
        cases.append(case)
        impl_results.append(out)
        spec_of[i] = spec
        kstats["sessions"] += 1
        kstats["modes"][spec["mode"]] += 1
        if res["ended"]:
            kstats["ended_early"][res["ended"]] = kstats["ended_early"].get(res["ended"], 0) + 1
        for p in res["problems"]:
            chk.violation("tie", "unmodelled use of the undo machinery: " + p, {"kind": "unmodelled", "what": p}, {"spec": spec}, no_input=True)
        if res["nbindings"] != len(rows0):
            chk.violation("tie", "session has %d bindings, table %d" % (res["nbindings"], len(rows0)), {"kind": "table-size"}, {"spec": spec}, no_input=True)
        for e in res["events"]:
            if e["kind"] == "redo":
                kstats["direct_redos"] += 1
                continue
            if e["kind"] == "cpr":
                kstats["reports_delivered"] = kstats.get("reports_delivered", 0) + 1
                continue
            if e["kind"] == "reset":
                kstats["new_prompts_" + e["how"]] = kstats.get("new_prompts_" + e["how"], 0) + 1
                continue
            if e["row"][1] == 1 and bool(e.get("nav")) != (e["role"] == 4):
                chk.violation("tie", "Vi navigation mode at cursor fix-up time was %r for undo binding %s (the model derives it from the binding: Vi u <-> True)" % (e.get("nav"), e["keys"]),
                              {"kind": "nav-flag"}, {"spec": spec}, no_input=True)
            if e["role"] == 7:
                chk.violation("tie", "a cursor position report was dispatched through _call_handler (process_keys must hand it to _handle_cpr_response)",
                              {"kind": "cpr-through-call-handler"}, {"spec": spec}, no_input=True)
            kstats["dispatches"] += 1
            kstats["handlers"][e["name"]] = kstats["handlers"].get(e["name"], 0) + 1
            kstats["undo_calls"] += len(e["undos"])
            kstats["effective_undos"] += sum(1 for p, q in e["undos"] if p != q)
            kstats["snapshot_decisions"]["saved" if e["saves"] else "not_saved"] += 1
            if e["row"][0] == 2 and not e["saves"]:
                kstats["snapshot_decisions"]["if_no_repeat_repeats"] += 1
            if e["h"] < 0 or e["h"] >= len(rows0) or rows0[e["h"]][0] != e["row"]:
                chk.violation("tie", "dispatched binding %r (%s -> %s) is not row %d of the regenerated table" % (e["row"], e["keys"], e["name"], e["h"]),
                              {"kind": "table-row", "handler": e["name"]}, {"spec": spec}, no_input=True)
        chk.count_case(case, any(a["kind"] == "undo" and a["pre"] != a["post"] for a in atoms))
        how = "PromptSession(editing_mode=%s, multiline=True) on a pipe input, default buffer reset to Document(%r, %d), keys %r" % (
            spec["mode"], spec["text"], spec["cursor"], spec["tokens"])
        bad = oracle_atoms(atoms)
        if bad:
            report(i, case, atoms, bad, how, {"mode": spec["mode"]}, spec)
        nchecked, gfails = oracle_groups(res["events"])
        kstats["group_runs_checked"] += nchecked
        for (a, b, k, pre, post, landed) in gfails:
            e = res["events"][a]
            oracle_bad.add(i)
            cause = group_cause(e["binding"], e["row"])
            nkeys = sum(1 for q in range(a, b + 1) if res["events"][q]["kind"] == "key" and res["events"][q]["role"] != 7)
            nrep = (b - a + 1) - nkeys
            chk.violation("oracle", "a run of %d %s dispatches%s (%r -> %r) was not undone as one group: one undo gave %r [%s]" % (
                nkeys, GROUP_ROLES[e["role"]], (" with %d terminal report(s) in between" % nrep) if nrep else "", pre, post, landed, how[:200]),
                {"clause": "group", "cause": cause},
                {"case": sx_norm(case), "spec": spec, "run": [a, b], "undo_event": k, "pre": pre, "post": post, "landed": landed,
                 "binding": "%s -> %s" % (e["keys"], e["name"]), "how": how})
        if res["tail_ran"] and not res["exhausted"]:
            # len(stack)+2 presses of the undo key must empty the undo stack (each
            # press pops at least one entry); otherwise "repeated undo" never gets
            # to the bottom and the clause below could not even be judged
            oracle_bad.add(i)
            chk.violation("oracle", "repeated presses of the undo key did not empty the undo stack (left: %r) [%s]" % (res["stack_left"][:3], how[:200]),
                          {"clause": "undo-does-not-terminate", "mode": spec["mode"]}, {"case": sx_norm(case), "spec": spec, "how": how})
        if spec.get("tail", True) and not res["tail_ran"]:
            kstats["tail_not_run_session_ended"] = kstats.get("tail_not_run_session_ended", 0) + 1
        if res["exhausted"] and spec.get("tail", True):
            kstats["reach_start_checked"] += 1
            if res["final"][0] != res["init"][0]:
                oracle_bad.add(i)
                chk.violation("oracle", "repeated undo ended on %r, the prompt started with %r [%s]" % (res["final"][0], res["init"][0], how[:200]),
                              {"clause": "reaches-start", "mode": spec["mode"]}, {"case": sx_norm(case), "spec": spec, "how": how})
        if spec["src"] == "scenario" or i % 211 == 0:
            chk.sample({"kind": "keys", "mode": spec["mode"], "text": spec["text"], "tokens": spec["tokens"][:12],
                        "dispatched": [e.get("name", "redo()") for e in res["events"][:8]], "final": list(res["final"])}, limit=8)

    # ---- kind 3: several buffers; kind 4: editing sessions over computed texts (harness/c07_r6.py)
    import c07_r6
    mstats = c07_r6.run_multi(chk, cases, impl_results, oracle_bad, rows0, spec_of)
    estats = c07_r6.run_edit(chk, cases, impl_results, oracle_bad, rows0, spec_of, report)
    e2stats = c07_r6.run_edit(chk, cases, impl_results, oracle_bad, rows0, spec_of, report, second=True)

    # the table's own verdict on the grouping bindings, with the cause seen on the live objects
    if not tq[2]:
        from prompt_toolkit import PromptSession  # noqa
        live = _live_bindings_once()
        for idx in tq[4]:
            b = live[idx]
            row = rows0[idx]
            chk.violation("table", "binding %d (%s -> %s) is one of the typed-character/backspace/delete bindings but its save_before is not if_no_repeat (class %d)" % (
                idx, row[1], row[2], row[0][0]), {"clause": "group", "cause": group_cause(b, row[0])},
                {"row": idx, "keys": row[1], "handler": row[2], "class": row[0][0],
                 "how": "gen/gen_t_c07.py probes binding.save_before with is_repeat False/True"}, no_input=False)

    dist.update({"key_sessions": kstats["sessions"], "key": kstats, "multi_buffer_sessions": mstats["sessions"], "multi": mstats,
                 "edit_sessions": estats["sessions"], "edit": estats, "edit2_sessions": e2stats["sessions"], "edit_kill_yank_vi": e2stats})
    chk.coverage["input_distribution"] = dist

    def tagger(c, a, m):
        kind = {0: "buffer", 1: "keys", 3: "multi", 4: "edit", 6: "edit"}.get(c[0], "?")
        evl = c[4] if c[0] == 3 else c[3]
        step = None
        for j, (x, y) in enumerate(zip(a, m if isinstance(m, list) else [])):
            if x != y:
                step = j
                break
        tags = {"level": kind}
        if step is not None:
            op = evl[step]
            if kind == "buffer":
                tags["op"] = {1: "Cmd", 2: "Undo", 3: "Redo"}.get(op[0], "?")
            elif kind == "multi":
                tags["op"] = {1: "Key", 2: "Redo", 3: "UndoKey", 4: "Cpr", 6: "Focus", 7: "Async"}.get(op[0], "?")
            elif kind == "edit":
                tags["op"] = {1: "Edit", 2: "Redo", 3: "UndoKey", 4: "Cpr", 8: "Kill", 9: "ViEscape"}.get(op[0], "?")
            else:
                tags["op"] = "Key" if op[0] == 1 else "Redo"
                if op[0] == 1 and 0 <= op[1] < len(rows0) and a[step][0] != (m[step][0] if isinstance(m[step], list) else None):
                    tags["what"] = "snapshot-decision"
                    tags["handler"] = rows0[op[1]][2]
        return tags

    def describe(c, a, m):
        for j, (x, y) in enumerate(zip(a, m if isinstance(m, list) else [])):
            if x != y:
                return "%s level, step %d op %r: impl %r model %r" % (
                    {0: "buffer", 1: "key", 3: "multi-buffer", 4: "edit", 6: "edit (kills/yanks/Vi)"}.get(c[0], "?"), j, (c[4] if c[0] == 3 else c[3])[j], x, y)
        return "impl %r model %r" % (a[:1], m[:1] if isinstance(m, list) else m)

    model_results, nbad = guarded_correspondence(chk, cases, impl_results, rows0, tagger, describe, lambda i: i in oracle_bad)

    # malformed stream: the model must answer bad_case, never something an implementation run could equal
    malformed = [[0, S("a"), 5, []], [0, S("a"), 0, [[1, 1, S("a"), 2]]], [1, S("a"), 0, [[1, 9999, 0, S("a"), 0]]],
                 [1, S("a"), 0, [[1, -1, 0, S("a"), 0]]], [1, S("a"), 0, [[1, 0, -1, S("a"), 0]]], [3], [0, 1, 2, 3], [1, S("a"), 0, [[7]]],
                 [3, [[S("a"), 2]], 0, [], []], [3, [[S("a"), 0]], 1, [], []], [3, [[S("a"), 0]], 0, [], [[6, 1]]],
                 [3, [[S("a"), 0]], 0, [[3, 0, 0]], []], [3, [[S("a"), 0]], 0, [], [[1, 0, 0, [[0, 1, S("b"), 0]], 0]]],
                 [6, S("a"), 0, [[8, -1, [1, []], 1]]], [6, S("a"), 0, [[8, 97, [15, [], 97], 1]]], [6, S("a"), 0, [[9, 9999]]],
                 [3, [[S("a"), 0]], 0, [], [[5, 1, S("b"), 0, 0]]],
                 [4, S("a"), 0, [[1, 0, [19, S("x"), 1]]]], [4, S("a"), 0, [[1, 99, [2, 1]]]], [4, S("a"), 3, []]]
    mres = run_model("c07", malformed)
    for c, r in zip(malformed, mres):
        if r != [-999]:
            chk.violation("tie", "malformed case %r not rejected by the model: %r" % (c, r), {"kind": "malformed"}, {"case": c}, no_input=True)
    dist["malformed"] = len(malformed)

    k = 900 if chk.tier == "thorough" else 250
    idx = sorted(chk.rng.sample(range(len(cases)), min(k, len(cases))))
    pairs = [(cases[i], impl_results[i]) for i in idx]
    bad, logs, vm_stable = guarded_vm_crosscheck(chk, pairs, rows0)
    chk.coverage["vm_compute_crosschecked"] = len(pairs)
    if not vm_stable:
        chk.violation("tie", "Model/C07_Table.vo kept being rebuilt over another binding table under this run (another ./check C07 with a different VERIF_REPO is running): "
                      "the in-Coq evaluation could not be done over the table of the tree under test", {"kind": "table-race", "evaluator": "vm_compute"}, {}, no_input=True)
    model_bad = set(i for i, (a, m) in enumerate(zip(impl_results, model_results)) if sx_norm(a) != m)
    vm_bad = set(idx[b] for b in bad if isinstance(b, int))
    if any(not isinstance(b, int) for b in bad):
        chk.violation("tie", "vm_compute cross-check failed to run: " + (logs[0] if logs else ""), {"kind": "vm"}, {"log": logs}, no_input=True)
    if vm_stable and vm_bad != (model_bad & set(idx)):
        d = sorted(vm_bad ^ (model_bad & set(idx)))[:5]
        chk.violation("tie", "extracted model and in-Coq evaluation disagree on cases %r" % d, {"kind": "extraction"},
                      {"cases": [cases[i] for i in d]}, no_input=True)

    proof_gate(chk, pr)
    chk.coverage["rule"] = ("kind 0: (text, cursor, [Cmd save text cursor | Undo | Redo]) on a real Buffer (save_to_undo_stack / set_document / undo / redo) "
                            "and on the Coq model, state and both stacks compared after every op; exhaustive for all op lists of length <= 3 over "
                            "12 ops ({save,no save} x 4 states, Undo, Redo, 2 Buffer.reset documents) from 4 initial states, length 4 from 2 initial states %s, "
                            "plus random lists up to 40 ops over 9 texts (7%% resets). "
                            "kind 1: random emacs/vi key sessions on a real PromptSession dispatched by the real KeyProcessor, each dispatch logged "
                            "(binding number in the regenerated table, undo() calls, resulting text/cursor, whether save_to_undo_stack ran) and replayed by the "
                            "model, which takes the snapshot decision itself (undo keys: whole effect computed from the typed count; reports and new prompts as their own events); "
                            "followed by repeated presses of the real undo key, which must empty the stack and end on the prompt's start text. "
                            "kind 3 (harness/c07_r6.py, Model/C07_Multi.v): sessions over SEVERAL buffers with one KeyProcessor - a PromptSession with history, completer and its "
                            "search buffer (c-r/c-s, Vi / ?: focus moved by dispatches, the target buffer edited while the search buffer is focused, the search buffer reset), "
                            "and an Application with three Buffers and a user binding that moves the focus - plus Layout.focus / Buffer.redo / edits by application code between "
                            "dispatches and the asynchronous completer's insertions (every state change seen between two dispatches is replayed as a change from outside); "
                            "focus, snapshot decision and every buffer's text, cursor and both stacks compared after every event; the property text is judged per buffer. "
                            "kind 4 (Model/C07_Edit.v): editing sessions (typed characters, backspace, delete, cursor keys, undo keys, redo, reports) where the model is told "
                            "only which binding was dispatched with which data and count and COMPUTES every text with C01's edit model. "
                            "kind 6 (Model/C07_Edit2.v): the same with kills, yanks and single-dispatch Vi operators computed by C09's model (kill ring carried along). "
                            "Multi-buffer sessions of the PromptSession flavour also start new prompts (Buffer.reset + Application.reset). "
                            "non-trivial = the case contains an undo that changed the buffer; distinct by hash of the whole case"
                            % ("(all)" if chk.tier == "thorough" else "(10% sample)"))
    chk.assumptions += [
        "a command's effect on the buffer is abstracted to the (text, cursor) it leaves: everything a handler does besides calling undo()/redo() is an arbitrary payload in the theorems",
        "several buffers: Model/C07_Multi.v tracks the buffers the harness names (default + search buffer of a PromptSession; the three Buffers of the test application); a session ends when the focus goes to any other buffer, a handler raises or the application exits",
        "text changes outside a key dispatch are replayed as the model's MAsync event from the state difference the harness sees between two dispatches (what changed, not who changed it)",
        "observation O4 (is_repeat is per key processor): application code that focuses another buffer between two keystrokes of one if_no_repeat binding leaves the second keystroke un-snapshotted; the model reproduces it (C07_programmatic_focus_refuted), the per-buffer oracle does not judge grouping / reaches-start for such a buffer (counted in undisciplined_buffers)",
        "kind 4 trusts C01's edit model (Model/BufferEdit.v, tied to the real Buffer by C01's own check) for what self-insert / backward-delete-char / delete-char / backward-char / forward-char do; here it is tied again through real key dispatches",
        "which handlers call Buffer.undo/redo is read from their code objects' co_names (gen/gen_t_c07.py) and confirmed per dispatch by the wrapped Buffer.undo",
        "Vi navigation mode when _fix_vi_cursor_position runs after an undo key is derived by the model from the binding (Vi u is registered under vi_navigation_mode and leaves the mode alone; emacs undo keys only exist in emacs mode) and compared per dispatch with the observed vi_navigation_mode(); the filter itself (vi_state.input_mode, temporary navigation mode) is not modelled",
        "the count passed to an undo key (KeyPressEvent.arg) is read from KeyProcessor.arg just before the dispatch; how the key processor accumulates it is C04/C05's model, not this one",
        "Binding identity (is_repeat) is modelled as equality of the binding's position in the merged registry, which is stable while no registry changes version",
    ]
    return chk.finish()


_LIVE = []


def _live_bindings_once():
    """Binding objects of a default session (kept alive for identity checks)."""
    if not _LIVE:
        from prompt_toolkit import PromptSession
        from prompt_toolkit.application import create_app_session
        from prompt_toolkit.application.current import set_app
        from prompt_toolkit.input import create_pipe_input
        from prompt_toolkit.output import DummyOutput
        with create_pipe_input() as inp:
            with create_app_session(input=inp, output=DummyOutput()):
                s = PromptSession()
                with set_app(s.app):
                    _LIVE.append(gen_t_c07.live_bindings(s.app))
    return _LIVE[0]


def replay(data):
    rep = data["replay"]
    rc = 0
    if "spec" in rep and "flavour" in rep["spec"]:
        import c07_r6
        return c07_r6.replay_multi(rep["spec"])
    if "spec" in rep:
        spec = rep["spec"]
        res = run_key_case_sync(spec)
        if res.get("hang"):
            print("session hangs")
            return 1
        print("mode=%s text=%r cursor=%d keys=%r" % (spec["mode"], spec["text"], spec["cursor"], spec["tokens"]))
        for e in res["events"]:
            if e["kind"] == "redo":
                print("  Buffer.redo(): %r -> %r" % (e["pre"], e["post"]))
            elif e["kind"] == "reset":
                print("  -- prompt ended (%s); next prompt: Buffer.reset + Application.reset: %r -> %r  undo_stack=%r redo_stack=%r" % (
                    e["how"], e["pre"], e["post"], e["ustack"], e["rstack"]))
            elif e["kind"] == "cpr":
                print("  <cursor position report> via _handle_cpr_response: %r -> %r" % (e["pre"], e["post"]))
            else:
                print("  %-14s %-50s save=%d undo_calls=%d: %r -> %r  undo_stack=%r redo_stack=%r" % (
                    e["keys"], e["name"][-50:], e["saves"], len(e["undos"]), e["pre"], e["post"], e["ustack"], e["rstack"]))
        case, out, atoms = key_case_to_model(res)
        bad = oracle_atoms(atoms)
        if bad:
            print("ORACLE FAILS: %s at %s" % (bad[0], describe_atom(atoms[bad[2]])))
            rc = 1
        for (a, b, k, pre, post, landed) in oracle_groups(res["events"])[1]:
            print("ORACLE FAILS: run of events %d..%d (%r -> %r) not undone as one group: one undo gave %r" % (a, b, pre, post, landed))
            rc = 1
        if res["tail_ran"] and not res["exhausted"]:
            print("ORACLE FAILS: repeated presses of the undo key did not empty the undo stack: %r" % (res["stack_left"],))
            rc = 1
        if res["exhausted"] and res["final"][0] != res["init"][0]:
            print("ORACLE FAILS: repeated undo ended on %r, started with %r" % (res["final"][0], res["init"][0]))
            rc = 1
        m = run_model("c07", [case])[0]
        print("model agrees" if m == sx_norm(out) else "model differs")
    elif "case" in rep and rep["case"] and rep["case"][0] == 0:
        case = rep["case"]
        out, atoms, safe, final, start = impl_buffer_case(case)
        for op, o, a in zip(case[3], out, atoms):
            print("  op %r: %s  undo_stack=%r redo_stack=%r" % (op, describe_atom(a), o[3], o[4]))
        bad = oracle_atoms(atoms)
        if bad:
            print("ORACLE FAILS: %s" % bad[0])
            rc = 1
        if safe and final != start:
            print("ORACLE FAILS: repeated undo ended on %r, session started with %r" % (final, start))
            rc = 1
        m = run_model("c07", [case])[0]
        print("model agrees" if m == sx_norm(out) else "model differs: %r" % (m,))
    elif "row" in rep:
        rows = gen_t_c07.default_rows()
        r = rows[rep["row"]]
        print("row %d: %s -> %s class %d (was %d)" % (rep["row"], r[1], r[2], r[0][0], rep["class"]))
        rc = 0 if r[0][0] == 2 else 1
    else:
        print(json.dumps(rep, indent=1, default=str)[:3000])
    if rc == 0:
        print("oracle ok")
    return rc
