"""C07, round 6: two more correspondence streams (used by harness/c07.py).

  kind 3  sessions over SEVERAL buffers with one KeyProcessor (Model/C07_Multi.v):
          flavour 'prompt' - a real PromptSession with history, a completer and
          its search buffer (c-r / c-s / Vi / ? start a search, Enter accepts,
          c-g aborts: focus changes made by dispatches; handlers that edit the
          non-focused buffer and reset the search buffer; Tab starts the
          asynchronous completer, which inserts the common prefix OUTSIDE any
          dispatch); flavour 'app' - an Application with three Buffers, the
          default key bindings and a user binding that moves the focus.  Plus
          what application code can do between dispatches: Layout.focus,
          Buffer.redo, text changes.  Every dispatch is logged (binding object
          identity, focus before/after, every buffer's state and stacks, which
          buffer was snapshotted / reset) and replayed by the model, which takes
          the snapshot decision itself; every state change seen between two
          dispatches is replayed as a change from outside.
  kind 4  editing sessions whose texts the model COMPUTES (Model/C07_Edit.v):
          typed characters, backspace, delete, cursor keys, undo keys, redo,
          reports; the model is told which binding was dispatched with which
          data/count and must produce the text itself (C01's edit model).
The oracles only look at what the implementation did.
"""
import asyncio

from common import *  # noqa
import gen_t_c07


def _c07():
    import c07
    return c07


# --------------------------------------------------------------------------
# kind 3

class MSess:
    def __init__(self, flavour, mode, docs, history):
        from prompt_toolkit.application import create_app_session
        from prompt_toolkit.application.current import set_app
        from prompt_toolkit.completion import WordCompleter
        from prompt_toolkit.document import Document
        from prompt_toolkit.enums import EditingMode
        from prompt_toolkit.input import create_pipe_input
        from prompt_toolkit.output import DummyOutput
        self._cms = []
        self.flavour = flavour
        inp = self._enter(create_pipe_input())
        self._enter(create_app_session(input=inp, output=DummyOutput()))
        em = EditingMode.VI if mode == "vi" else EditingMode.EMACS
        comp = WordCompleter(["alphabet", "alphabets", "beta"])
        if flavour == "prompt":
            from prompt_toolkit import PromptSession
            from prompt_toolkit.history import InMemoryHistory
            s = PromptSession(editing_mode=em, validate_while_typing=False, multiline=True, completer=comp,
                              complete_while_typing=False, history=InMemoryHistory(list(history)))
            self.app = s.app
            self.bufs = [s.default_buffer, s.search_buffer]
            self.bufs[0].reset(Document(docs[0][0], docs[0][1]))
            self.docs = [tuple(docs[0]), ("", 0)]
        else:
            from prompt_toolkit.application import Application
            from prompt_toolkit.buffer import Buffer
            from prompt_toolkit.key_binding import KeyBindings
            from prompt_toolkit.layout import HSplit, Layout, Window
            from prompt_toolkit.layout.controls import BufferControl
            self.bufs = [Buffer(multiline=True, completer=comp if i == 0 else None, complete_while_typing=False,
                                document=Document(t, c)) for i, (t, c) in enumerate(docs)]
            self.docs = [tuple(d) for d in docs]
            kb = KeyBindings()
            bufs = self.bufs

            @kb.add("f6")
            def _next(event):
                i = bufs.index(event.app.current_buffer) if event.app.current_buffer in bufs else -1
                event.app.layout.focus(bufs[(i + 1) % len(bufs)])

            @kb.add("f7")
            def _prev(event):
                i = bufs.index(event.app.current_buffer) if event.app.current_buffer in bufs else 0
                event.app.layout.focus(bufs[(i - 1) % len(bufs)])

            self.app = Application(layout=Layout(HSplit([Window(BufferControl(buffer=b)) for b in self.bufs])),
                                   key_bindings=kb, editing_mode=em)
        self.app.timeoutlen = None
        self.app.ttimeoutlen = None
        self._enter(set_app(self.app))
        self.app.future = asyncio.get_event_loop().create_future()
        self.kp = self.app.key_processor
        base = gen_t_c07.live_bindings(self.app) if flavour == "prompt" else []
        self.nbase = len(base)
        self.index = {id(b): i for i, b in enumerate(base)}
        self.keep = list(base)          # keep the Binding objects alive: identity = id()
        self.extra = []                 # rows of the Binding objects met that are not in the base list
        self._rows = {}
        self.events = []
        self.problems = []
        self.cur = None
        self.lost = None
        self.last = self.states()
        self._wrap()

    def _enter(self, cm):
        v = cm.__enter__()
        self._cms.append(cm)
        return v

    def close(self):
        for cm in reversed(self._cms):
            try:
                cm.__exit__(None, None, None)
            except Exception:
                pass

    def states(self):
        return [(b.text, b.cursor_position) for b in self.bufs]

    def stacks(self):
        return [(list(b._undo_stack), list(b._redo_stack)) for b in self.bufs]

    def focus_index(self):
        cb = self.app.current_buffer
        for i, b in enumerate(self.bufs):
            if b is cb:
                return i
        return -1

    def _wrap(self):
        kp = self.kp
        self.o_undo, self.o_redo = [], []
        for i, b in enumerate(self.bufs):
            self._wrap_buf(i, b)
        o_call, o_cpr, o_fix = kp._call_handler, kp._handle_cpr_response, kp._fix_vi_cursor_position

        def call(handler, key_sequence):
            f = self.focus_index()
            if f < 0:
                self.lost = "focus on a buffer that is not tracked"
                return o_call(handler, key_sequence)
            self.flush_async()
            if id(handler) not in self._rows:
                self._rows[id(handler)] = gen_t_c07.row_of(handler)
            row, keys, name = self._rows[id(handler)]
            raw = kp.arg
            arg = -1 if raw == "-" else int(raw or 1)
            if arg >= 1000000:
                arg = 1
            rec = {"kind": "key", "handler": handler, "row": row, "name": name, "keys": keys, "binding_id": id(handler),
                   "arg": arg, "role": row[2], "f_before": f, "pre": self.states(), "stacks_pre": self.stacks(),
                   "saves": [0] * len(self.bufs), "undos": [], "resets": [], "nav": False}
            self.cur = rec
            try:
                o_call(handler, key_sequence)
            finally:
                self.cur = None
            rec["post"] = self.states()
            rec["stacks"] = self.stacks()
            rec["f_after"] = self.focus_index()
            self.last = rec["post"]
            self.events.append(rec)

        def handle_cpr(key_press):
            self.flush_async()
            was = self.cur
            self.cur = {"saves": [0] * len(self.bufs), "undos": [], "resets": [], "pre": self.states(), "in_cpr": True}
            try:
                o_cpr(key_press)
            finally:
                inner, self.cur = self.cur, was
            if sum(inner["saves"]) or inner["undos"] or inner["resets"]:
                self.problems.append("the cursor position report handler used the undo machinery")
            self.events.append({"kind": "cpr", "pre": inner["pre"], "post": self.states(), "stacks": self.stacks(),
                                "f_after": self.focus_index()})
            self.last = self.states()

        def fix(event):
            from prompt_toolkit.filters import vi_navigation_mode
            if self.cur is not None:
                self.cur["nav"] = bool(vi_navigation_mode())
            return o_fix(event)

        kp._call_handler, kp._handle_cpr_response, kp._fix_vi_cursor_position = call, handle_cpr, fix

    def _wrap_buf(self, i, b):
        o_save, o_undo, o_redo, o_reset = b.save_to_undo_stack, b.undo, b.redo, b.reset
        self.o_undo.append(o_undo)
        self.o_redo.append(o_redo)

        def save(clear_redo_stack=True):
            if clear_redo_stack:
                if self.cur is None:
                    self.problems.append("save_to_undo_stack called outside a dispatch")
                else:
                    self.cur["saves"][i] += 1
                    if self.cur.get("f_before", i) != i:
                        self.problems.append("snapshot taken on a buffer that did not have the focus at dispatch time")
                    if self.cur["undos"] or self.states() != self.cur["pre"]:
                        self.problems.append("save_to_undo_stack called after the handler started")
            return o_save(clear_redo_stack)

        def undo():
            pre = (b.text, b.cursor_position)
            r = o_undo()
            if self.cur is None:
                self.problems.append("Buffer.undo called outside a dispatch")
            else:
                self.cur["undos"].append((i, pre, (b.text, b.cursor_position)))
            return r

        def redo():
            if self.cur is not None:
                self.problems.append("Buffer.redo called inside a dispatch (no default binding does)")
            return o_redo()

        def reset(document=None, append_to_history=False):
            r = o_reset(document, append_to_history)
            if getattr(self, "in_new_prompt", False):
                return r
            if self.cur is None:
                self.problems.append("Buffer.reset called outside a dispatch")
            else:
                self.cur["resets"].append((i, (b.text, b.cursor_position)))
            return r

        b.save_to_undo_stack, b.undo, b.redo, b.reset = save, undo, redo, reset

    def flush_async(self):
        """state changes since the last logged event happened outside any dispatch"""
        now = self.states()
        for i, (a, n) in enumerate(zip(self.last, now)):
            if a != n:
                self.events.append({"kind": "async", "i": i, "pre": list(self.last), "post": now, "stacks": self.stacks(),
                                    "f_after": self.focus_index()})
                self.last = list(self.last)
                self.last[i] = n
        self.last = now

    def feed(self, token):
        from prompt_toolkit.key_binding.key_processor import _Flush
        K = _c07().K
        for key, data in token:
            self.kp.feed(K(key, data))
        self.kp.feed(_Flush)
        try:
            self.kp.process_keys()
        except Exception as e:  # noqa
            self.lost = "%s: %s" % (type(e).__name__, str(e)[:60])
            return False
        if self.lost or self.focus_index() < 0:
            self.lost = self.lost or "focus left the tracked buffers"
            return False
        if self.app.is_done:
            self.lost = "application exited"
            return False
        return True

    def direct(self, tok):
        """what application code does between two dispatches"""
        self.flush_async()
        pre = self.states()
        if tok[0] == "!focus":
            try:
                self.app.layout.focus(self.bufs[tok[1]])
            except Exception as e:  # noqa
                self.lost = "Layout.focus: %s" % type(e).__name__
                return False
            self.events.append({"kind": "focus", "i": tok[1], "pre": pre, "post": self.states(), "stacks": self.stacks(),
                                "f_after": self.focus_index()})
            if self.focus_index() != tok[1]:
                self.lost = "Layout.focus did not focus the buffer"
                return False
        elif tok[0] == "!redo":
            self.o_redo[tok[1]]()
            self.events.append({"kind": "redo", "i": tok[1], "pre": pre, "post": self.states(), "stacks": self.stacks(),
                                "f_after": self.focus_index()})
            self.last = self.states()
        elif tok[0] == "!new":
            # the next prompt on the same session, with the calls PromptSession.prompt() / run_async make
            from prompt_toolkit.document import Document
            if not self.app.is_done:
                self.app.exit(result=None)
            self.in_new_prompt = True
            try:
                self.bufs[0].reset(Document(tok[1], tok[2]))
                self.app.reset()
            finally:
                self.in_new_prompt = False
            self.app.future = asyncio.get_event_loop().create_future()
            self.events.append({"kind": "newprompt", "i": 0, "pre": pre, "post": self.states(), "stacks": self.stacks(),
                                "f_after": self.focus_index()})
            self.last = self.states()
            if self.focus_index() < 0:
                self.lost = "focus left the tracked buffers"
                return False
        elif tok[0] == "!async":
            b = self.bufs[tok[1]]
            try:
                if tok[2] == 0:
                    b.insert_text("zz")
                elif tok[2] == 1:
                    b.delete_before_cursor(2)
                elif tok[2] == 2:
                    b.cursor_position = 0
                else:
                    b.text = "fresh text"
            except Exception as e:  # noqa
                self.lost = "application edit: %s" % type(e).__name__
                return False
            self.flush_async()
        return True


MULTI_EXTRA_EMACS = {"c-r": [("Keys.ControlR", None)], "c-s": [("Keys.ControlS", None)], "tab": [("Keys.ControlI", "\t")],
                     "f6": [("Keys.F6", None)], "f7": [("Keys.F7", None)], "h": [("h", None)], "1": [("1", None)],
                     "l": [("l", None)], "p": [("p", None)]}
MULTI_EXTRA_VI = {"/": [("/", None)], "?": [("?", None)], "tab": [("Keys.ControlI", "\t")], "n": [("n", None)],
                  "f6": [("Keys.F6", None)], "f7": [("Keys.F7", None)], "h1": [("h", None), ("1", None)],
                  "enter": [("Keys.ControlM", "\r")], "l": [("l", None)], "p": [("p", None)]}


def multi_tokens(mode):
    c = _c07()
    t = dict(c.VI_TOKENS if mode == "vi" else c.EMACS_TOKENS)
    t.update(MULTI_EXTRA_VI if mode == "vi" else MULTI_EXTRA_EMACS)
    return t


async def run_multi_case(spec):
    toks = multi_tokens(spec["mode"])
    s = MSess(spec["flavour"], spec["mode"], spec["docs"], spec.get("history", []))
    try:
        if spec["flavour"] == "prompt":
            s.bufs[0].load_history_if_not_yet_loaded()
        for _ in range(6):
            await asyncio.sleep(0)
        s.last = s.states()
        init_docs = s.states()
        f0 = s.focus_index()
        ok = True
        for t in spec["tokens"]:
            if isinstance(t, list):
                ok = s.direct(t)
            else:
                ok = s.feed(toks[t])
            if not ok:
                break
            for _ in range(4):
                await asyncio.sleep(0)      # let the asynchronous completer run: it edits outside any dispatch
            s.flush_async()
        # repeated undo in EVERY buffer (direct calls of the real Buffer.undo)
        finals = []
        for i, b in enumerate(s.bufs):
            for _ in range(len(b._undo_stack) + 1):
                s.o_undo[i]()
            finals.append((b.text, list(b._undo_stack)))
        res = {"init": init_docs, "f0": f0, "events": s.events, "problems": s.problems, "lost": s.lost, "finals": finals,
               "base_index": {id(b): i for i, b in enumerate(s.keep[:s.nbase])}, "nbase": s.nbase, "nb": len(s.bufs)}
        try:
            await s.app.cancel_and_wait_for_background_tasks()
        except Exception:
            pass
        return res
    finally:
        s.close()


def run_multi_case_sync(spec):
    c = _c07()
    if c._LOOP[0] is None or c._LOOP[0].is_closed():
        c._LOOP[0] = asyncio.new_event_loop()
    loop = c._LOOP[0]
    try:
        return with_watchdog(lambda: loop.run_until_complete(run_multi_case(spec)), 20)
    except Hang:
        c._LOOP[0] = None
        return {"hang": True}


def _bufs_sx(states, stacks):
    c = _c07()
    return [[0, S(t), cur, c.stack_sx(u), c.stack_sx(r)] for (t, cur), (u, r) in zip(states, stacks)]


def multi_case_to_model(res):
    """-> (case, impl result, problems)"""
    nb = res["nb"]
    evs, out, problems = [], [], []
    for e in res["events"]:
        k = e["kind"]
        sv = 0
        if k == "key":
            h = e["h"]
            f = e["f_before"]
            sv = 1 if sum(e["saves"]) else 0
            if e["row"][1] == 1:
                evs.append([3, h, e["arg"], 1 if e["nav"] else 0])
                if e["f_after"] != f or any(e["post"][j] != e["pre"][j] for j in range(nb) if j != f) or e["resets"]:
                    problems.append("an undo key touched another buffer or moved the focus")
            else:
                effs = []
                for i in range(nb):
                    rs = [st for (j, st) in e["resets"] if j == i]
                    for st in rs:
                        effs.append([1, i, S(st[0]), st[1]])
                    if rs:
                        if e["post"][i] != rs[-1]:
                            effs.append([0, i, S(e["post"][i][0]), e["post"][i][1]])
                    elif i == f or e["post"][i] != e["pre"][i]:
                        effs.append([0, i, S(e["post"][i][0]), e["post"][i][1]])
                evs.append([1, h, 0, effs, e["f_after"]])
        elif k == "cpr":
            evs.append([4])
        elif k == "focus":
            evs.append([6, e["i"]])
        elif k == "redo":
            evs.append([2, e["i"]])
        elif k == "async":
            evs.append([7, e["i"], S(e["post"][e["i"]][0]), e["post"][e["i"]][1]])
        elif k == "newprompt":
            evs.append([5, e["i"], S(e["post"][e["i"]][0]), e["post"][e["i"]][1], e["f_after"]])
            if any(e["post"][j] != e["pre"][j] for j in range(nb) if j != e["i"]):
                problems.append("a new prompt changed a buffer other than the default buffer")
        out.append([sv, e["f_after"], _bufs_sx(e["post"], e["stacks"])])
    docs = [[S(t), c] for (t, c) in res["init"]]
    extra = [list(r[0]) for r in res["extra"]]
    return [3, docs, res["f0"], extra, evs], out, problems


def multi_oracle(res):
    """The property text per buffer, on the implementation's own events.
    -> (failures [(buffer, clause, family, detail)], stats)"""
    c = _c07()
    nb = res["nb"]
    fails, stats = [], {"reach_start_checked": 0, "group_runs_checked": 0, "undisciplined": {}, "atoms_checked": 0}

    def undis(i, why):
        stats["undisciplined"][why] = stats["undisciplined"].get(why, 0) + 1
        bad_buf.add(i)

    bad_buf, o4_buf = set(), set()
    start = [d[0] for d in res["init"]]
    prev_cls = None
    stacks_now = [([], []) for _ in range(nb)]
    for i in range(nb):
        atoms, proj = [], []
        prev_cls = None
        stacks_now = ([], [])
        for e in res["events"]:
            k = e["kind"]
            pre, post = e["pre"][i], e["post"][i]
            rlen = len(e["stacks"][i][1])
            if k == "key":
                f = e["f_before"]
                cls, act = e["row"][0], e["row"][1]
                mine = [(p, q) for (j, p, q) in e["undos"] if j == i]
                rs = [st for (j, st) in e["resets"] if j == i]
                if f == i and mine:
                    first = len(atoms)
                    if e["saves"][i]:
                        atoms.append({"kind": "cmd", "pre": pre, "post": pre, "redo_len_after": 0, "edit": False, "saved": True})
                    for (p, q) in mine:
                        atoms.append({"kind": "undo", "pre": p, "post": q, "redo_len_after": -1})
                    if mine[-1][1] != post:
                        atoms.append({"kind": "cmd", "pre": mine[-1][1], "post": post, "redo_len_after": rlen, "edit": False, "saved": False})
                    for q_, a_ in enumerate(atoms[first:]):
                        a_["boundary"] = (q_ == 0)
                elif rs:
                    atoms.append({"kind": "cmd", "pre": pre, "post": pre, "redo_len_after": 0, "edit": False, "saved": False})
                    atoms.append({"kind": "reset", "pre": pre, "post": rs[-1], "redo_len_after": 0})
                    start[i] = rs[-1][0]
                    if post != rs[-1]:
                        atoms.append({"kind": "cmd", "pre": rs[-1], "post": post, "redo_len_after": rlen, "edit": False, "saved": False})
                        if post[0] != rs[-1][0]:
                            undis(i, "edit after a reset inside one dispatch")
                else:
                    atoms.append({"kind": "cmd", "pre": pre, "post": post, "redo_len_after": rlen,
                                  "edit": f == i and act == 0 and cls != 0, "saved": bool(e["saves"][i])})
                # the discipline of C07_multi_reaches_start, observed
                if not ((act == 0 and cls != 0) or (act == 1 and cls == 0)):
                    undis(i, "binding neither plain+snapshotting nor an undo key")
                if f != i and not rs and post[0] != pre[0] and not e["stacks_pre"][i][0]:
                    undis(i, "handler changed the text of a non-focused buffer that has no snapshot")
                if cls == 2 and (e["f_after"] != f or any(j == f for (j, _) in e["resets"])):
                    undis(i, "if_no_repeat handler moved the focus or reset its buffer")
                # grouping: the projected event list of this buffer
                if f == i:
                    proj.append({"kind": "key", "role": e["role"], "binding_id": e["binding_id"], "pre": pre, "post": post,
                                 "undos": mine, "row": e["row"], "handler": e["handler"], "keys": e["keys"], "name": e["name"]})
                    if rs:
                        proj.append({"kind": "reset"})
                else:
                    proj.append({"kind": "foreign"})
                    if rs:
                        proj.append({"kind": "reset"})
                prev_cls = cls
            elif k == "redo":
                if e["i"] == i:
                    atoms.append({"kind": "redo", "pre": pre, "post": post, "redo_len_after": rlen})
                    proj.append({"kind": "redo"})
            elif k == "async":
                if e["i"] == i:
                    atoms.append({"kind": "cmd", "pre": pre, "post": post, "redo_len_after": rlen, "edit": False, "saved": False})
                    proj.append({"kind": "async", "pre": pre, "post": post})
                    if post[0] != pre[0] and not e["stacks"][i][0]:
                        undis(i, "outside change of a buffer that has no snapshot")
            elif k == "focus":
                proj.append({"kind": "focus"})
                if e["i"] == i and prev_cls == 2:
                    undis(i, "O4: application code focused the buffer right after an if_no_repeat key")
                    o4_buf.add(i)
            elif k == "cpr":
                proj.append({"kind": "cpr", "pre": pre, "post": post})
            elif k == "newprompt":
                prev_cls = None         # KeyProcessor.reset() forgets the previous handler
                proj.append({"kind": "reset"})
                if e["i"] == i:
                    atoms.append({"kind": "reset", "pre": pre, "post": post, "redo_len_after": 0})
                    start[i] = post[0]
        if i in o4_buf:
            # O4: the next keystroke of that binding is a "repeat" for the key processor: no snapshot,
            # so the redo history survives the edit.  Landings and redo exactness are still judged.
            for a_ in atoms:
                a_["edit"] = False
        bad = c.oracle_atoms(atoms)
        stats["atoms_checked"] += len(atoms)
        if bad:
            fails.append((i, bad[0], bad[1], c.describe_atom(atoms[bad[2]]) if bad[2] is not None else ""))
        if i in bad_buf:
            continue
        nchecked, gf = c.oracle_groups(proj)
        stats["group_runs_checked"] += nchecked
        for (a, b, k_, pre, post, landed) in gf:
            fails.append((i, "a run of %s dispatches in buffer %d (%r -> %r) was not undone as one group: one undo gave %r"
                          % (c.GROUP_ROLES[proj[a]["role"]], i, pre, post, landed), "group", ""))
        if res["lost"] is None:
            final, left = res["finals"][i]
            stats["reach_start_checked"] += 1
            if left:
                fails.append((i, "repeated Buffer.undo() did not empty the undo stack of buffer %d (left %r)" % (i, left[:3]),
                              "undo-does-not-terminate", ""))
            elif final != start[i]:
                fails.append((i, "repeated undo in buffer %d ended on %r, the buffer started with %r" % (i, final, start[i]),
                              "reaches-start", ""))
    return fails, stats


def multi_specs(chk):
    rng = chk.rng
    thorough = chk.tier == "thorough"
    hist = ["h1 one", "h2 two", "alpha h1"]
    specs = []
    fixed = [
        # search: focus moved by dispatches, the target buffer edited while the search buffer has the focus
        ("prompt", "emacs", [("", 0)], ["c-r", "h", "1", "enter", "undo", "undo"]),
        ("prompt", "emacs", [("abc", 3)], ["a", "b", "c-r", "h", "c-r", "c-r", "enter", "a", "b", "undo", "undo", "undo", "undo"]),
        ("prompt", "emacs", [("abc", 3)], ["a", "c-r", "h", "h", "bs", "undo", "c-g", "undo", "undo"]),
        ("prompt", "emacs", [("xy", 2)], ["c-s", "a", "b", "undo", ["!redo", 1], "enter", "undo", ["!redo", 0]]),
        ("prompt", "vi", [("one two", 0)], ["esc", "/", "h1", "enter", "x", "u", "u", "u"]),
        ("prompt", "vi", [("one", 3)], ["a", "esc", "?", "a", "b", "esc", "u", "i", "enter", "u", "u"]),
        # a new prompt while the search buffer is focused / right after a typed run / with redo entries pending
        ("prompt", "emacs", [("abc", 3)], ["a", "b", "c-r", "h", ["!new", "xyz", 3], "a", "b", "c-g", "a", "b", "undo", "undo"]),
        ("prompt", "emacs", [("abc", 3)], ["a", "b", ["!new", "xyz", 3], "a", "b", "undo", ["!redo", 0], "undo", "undo"]),
        ("prompt", "emacs", [("", 0)], ["a", "c-w", "undo", ["!new", "q", 1], ["!redo", 0], "c-r", "1", "enter", "undo", "undo"]),
        # the asynchronous completer inserts the common prefix outside any dispatch
        ("prompt", "emacs", [("", 0)], ["a", "l", "p", "tab", "a", "undo", "undo", "undo"]),
        ("prompt", "emacs", [("", 0)], ["a", "l", "tab", "undo", ["!redo", 0], "undo", "undo"]),
        ("app", "emacs", [("", 0), ("B", 1), ("C", 0)], ["a", "l", "tab", "a", "b", "f6", "a", "b", "undo", "f7", "undo", "undo"]),
        # application code edits a buffer between two keys of a run
        ("app", "emacs", [("A", 1), ("B", 1), ("", 0)], ["a", "b", ["!async", 0, 0], "a", "b", "undo", "undo"]),
        ("app", "emacs", [("A", 1), ("B", 1), ("", 0)], ["a", ["!async", 1, 3], "b", "f6", "undo", "a", "undo", "undo"]),
        # focus changes by a user binding: the first key in the newly focused buffer is snapshotted
        ("app", "emacs", [("A", 1), ("B", 1), ("C", 1)], ["a", "b", "f6", "a", "b", "f6", "a", "b", "undo", "f7", "undo", "f7", "undo"]),
        ("app", "vi", [("A", 1), ("B", 1), ("C", 1)], ["a", "b", "f6", "a", "b", "esc", "u", "f7", "u"]),
        ("app", "emacs", [("A", 1), ("B", 1), ("C", 1)], ["a", "f6", "bs", "bs", "f6", "del", "f7", "undo", ["!redo", 1], "f7", "undo"]),
        # observation O4: application code moves the focus between two keystrokes of one if_no_repeat binding
        ("app", "emacs", [("A", 1), ("B", 1), ("C", 1)], ["a", ["!focus", 1], "a", "undo"]),
        ("app", "emacs", [("A", 1), ("B", 1), ("C", 1)], ["a", "left", ["!focus", 1], "a", "undo", ["!focus", 0], "undo"]),
        ("app", "emacs", [("A", 1), ("B", 1), ("C", 1)], ["a", "f6", "b", ["!focus", 0], "b", "undo", "undo"]),
    ]
    for fl, mode, docs, toks in fixed:
        specs.append({"flavour": fl, "mode": mode, "docs": [list(d) for d in docs], "history": hist, "tokens": toks, "src": "scenario"})
    # exhaustive small scope on the three-buffer application: every token list up to length 3
    # (quick: 5 tokens) / 4 (thorough: 7 tokens) - typing, a focus key, the undo key, application
    # code moving the focus / editing another buffer / redoing
    import itertools
    alpha = ["a", "f6", "undo", ["!focus", 1], ["!async", 1, 0]] + ([["!redo", 0], "bs"] if thorough else [])
    for n_ in range(1, (4 if thorough else 3) + 1):
        for seq in itertools.product(alpha, repeat=n_):
            specs.append({"flavour": "app", "mode": "emacs", "docs": [["A", 1], ["B", 1], ["", 0]], "history": [],
                          "tokens": [list(t) if isinstance(t, list) else t for t in seq], "src": "exhaustive"})
    texts = ["", "abc", "hello world", "one two\nthree", "al", "界a b"]
    n = 2500 if thorough else 220
    for i in range(n):
        mode = "vi" if i % 3 == 2 else "emacs"
        fl = "prompt" if i % 2 else "app"
        nb = 2 if fl == "prompt" else 3
        docs = []
        for _ in range(1 if fl == "prompt" else 3):
            t = rng.choice(texts)
            docs.append([t, rng.randint(0, len(t))])
        names_w = {"a": 9, "b": 6, "l": 3, "p": 2, "bs": 5, "del": 3, "left": 2, "undo" if mode == "emacs" else "u": 9, "tab": 3,
                   "cpr": 2, "sp": 2, "c-w": 2}
        if mode == "emacs":
            names_w.update({"undo2": 2, "c-k": 1, "c-y": 1, "home": 1, "end": 1})
            if fl == "prompt":
                names_w.update({"c-r": 4, "c-s": 2, "enter": 4, "c-g": 2, "h": 3, "1": 2, "up": 1})
        else:
            names_w.update({"esc": 8, "i": 4, "x": 4, "A": 2, "dd": 1, "p": 2, "o": 1})
            if fl == "prompt":
                names_w.update({"/": 4, "?": 2, "enter": 4, "h1": 3, "n": 1})
        if fl == "app":
            names_w.update({"f6": 6, "f7": 3})
        names = list(names_w)
        weights = [names_w[k] for k in names]
        toks = []
        for _ in range(rng.randint(4, 40 if thorough else 26)):
            r = rng.random()
            if r < 0.06:
                toks.append(["!redo", rng.randrange(nb)])
            elif r < 0.10:
                toks.append(["!focus", rng.randrange(nb)])
            elif r < 0.15:
                toks.append(["!async", rng.randrange(nb), rng.randrange(4)])
            elif r < 0.18 and fl == "prompt":
                t_ = rng.choice(["", "abc", "two\nlines"])
                toks.append(["!new", t_, rng.randint(0, len(t_))])
            else:
                toks.append(rng.choices(names, weights)[0])
        specs.append({"flavour": fl, "mode": mode, "docs": docs, "history": hist if rng.random() < 0.8 else [], "tokens": toks, "src": "random"})
    return specs


def run_multi(chk, cases, impl_results, oracle_bad, rows0, spec_of):
    stats = {"sessions": 0, "by_source": {}, "flavours": {"prompt": 0, "app": 0}, "dispatches": 0, "dispatch_focus": {}, "focus_changes_by_dispatch": 0,
             "focus_changes_by_application": 0, "outside_changes": 0, "outside_changes_by_completer": 0, "direct_redos": 0,
             "buffer_resets_in_dispatch": 0, "edits_of_non_focused_buffer": 0, "rebuilt_binding_objects": 0, "lost": {},
             "reach_start_checked": 0, "group_runs_checked": 0, "undisciplined_buffers": {}, "snapshot_decisions": {"saved": 0, "not_saved": 0}}
    nrows = len(rows0)
    for spec in multi_specs(chk):
        res = run_multi_case_sync(spec)
        how = "%s with buffers %r, editing_mode=%s, tokens %r" % (
            "PromptSession (default buffer 0, search buffer 1)" if spec["flavour"] == "prompt" else "Application with three Buffers (F6/F7 move the focus)",
            spec["docs"], spec["mode"], spec["tokens"])
        if res.get("hang"):
            chk.violation("oracle", "multi-buffer session did not finish within 20 s: %r" % (spec["tokens"][:30],), {"clause": "hang", "level": "multi"},
                          {"spec": spec, "how": how})
            continue
        # number the Binding OBJECTS in event order: position in the regenerated table for the
        # objects of the list the table was generated from, nrows + k for the k-th other object
        # (rebuilt by a registry / bindings of the three-buffer application), with its row
        extra_rows, index = [], {}
        for e in res["events"]:
            if e["kind"] != "key":
                continue
            k = e["binding_id"]
            if k not in index:
                pos = res["base_index"].get(k)
                if pos is None:
                    pos = nrows + len(extra_rows)
                    extra_rows.append((e["row"], e["keys"], e["name"]))
                index[k] = pos
            e["h"] = index[k]
        res["extra"] = extra_rows
        case, out, problems = multi_case_to_model(res)
        i = len(cases)
        cases.append(case)
        impl_results.append(out)
        spec_of[i] = spec
        stats["sessions"] += 1
        stats["flavours"][spec["flavour"]] += 1
        stats["by_source"][spec["src"]] = stats["by_source"].get(spec["src"], 0) + 1
        if res["lost"]:
            stats["lost"][res["lost"]] = stats["lost"].get(res["lost"], 0) + 1
        for p in list(res["problems"]) + problems:
            chk.violation("tie", "unmodelled use of the undo machinery (several buffers): " + p, {"kind": "unmodelled", "what": p, "level": "multi"},
                          {"spec": spec, "how": how}, no_input=True)
        stats["rebuilt_binding_objects"] += len(extra_rows) if spec["flavour"] == "prompt" else 0
        last_tok_tab = False
        for e in res["events"]:
            k = e["kind"]
            if k == "key":
                stats["dispatches"] += 1
                stats["dispatch_focus"][str(e["f_before"])] = stats["dispatch_focus"].get(str(e["f_before"]), 0) + 1
                stats["snapshot_decisions"]["saved" if sum(e["saves"]) else "not_saved"] += 1
                if e["f_after"] != e["f_before"]:
                    stats["focus_changes_by_dispatch"] += 1
                stats["buffer_resets_in_dispatch"] += len(e["resets"])
                if any(e["post"][j] != e["pre"][j] for j in range(res["nb"]) if j != e["f_before"]):
                    stats["edits_of_non_focused_buffer"] += 1
                if spec["flavour"] == "prompt" and e["h"] < nrows and rows0[e["h"]][0] != e["row"]:
                    chk.violation("tie", "dispatched binding %r (%s -> %s) is not row %d of the regenerated table" % (e["row"], e["keys"], e["name"], e["h"]),
                                  {"kind": "table-row", "handler": e["name"], "level": "multi"}, {"spec": spec}, no_input=True)
                if e["row"][1] == 1 and bool(e["nav"]) != (e["role"] == 4):
                    chk.violation("tie", "Vi navigation mode at cursor fix-up time was %r for undo binding %s" % (e["nav"], e["keys"]),
                                  {"kind": "nav-flag", "level": "multi"}, {"spec": spec}, no_input=True)
                last_tok_tab = e["keys"] == "c-i"
            elif k == "focus":
                stats["focus_changes_by_application"] += 1
            elif k == "async":
                stats["outside_changes"] += 1
                if last_tok_tab:
                    stats["outside_changes_by_completer"] += 1
            elif k == "redo":
                stats["direct_redos"] += 1
            elif k == "newprompt":
                stats["new_prompts"] = stats.get("new_prompts", 0) + 1
        chk.count_case(case, any(e["kind"] == "key" and any(p != q for (_, p, q) in e["undos"]) for e in res["events"]))
        fails, ost = multi_oracle(res)
        stats["reach_start_checked"] += ost["reach_start_checked"]
        stats["group_runs_checked"] += ost["group_runs_checked"]
        for w, n_ in ost["undisciplined"].items():
            stats["undisciplined_buffers"][w] = stats["undisciplined_buffers"].get(w, 0) + n_
        for (b, clause, fam, detail) in fails:
            oracle_bad.add(i)
            chk.violation("oracle", "buffer %d: %s %s [%s]" % (b, clause, detail, how[:220]),
                          {"clause": fam, "level": "multi", "flavour": spec["flavour"]},
                          {"case": sx_norm(case), "spec": spec, "buffer": b, "how": how})
        if spec["src"] == "scenario" and stats["sessions"] <= 4 or i % 97 == 0:
            chk.sample({"kind": "multi", "flavour": spec["flavour"], "mode": spec["mode"], "docs": spec["docs"], "tokens": spec["tokens"][:12],
                        "events": [(e["kind"], e.get("keys", e.get("i"))) for e in res["events"][:10]]}, limit=6)
    return stats


# --------------------------------------------------------------------------
# kind 4: editing sessions, texts computed by the model

EDIT_ROLES = {1: 19, 2: 17, 3: 18, 11: 15, 12: 16}


def edit_specs(chk):
    rng = chk.rng
    thorough = chk.tier == "thorough"
    specs = []
    texts = ["", "abc", "hello world", "one two\nthree four\nfive", "  x", "界a b"]
    fixed = [
        ("emacs", "abc", 3, ["a", "b", "undo", "!redo"]),
        ("emacs", "one\ntwo", 3, ["left", "left", "left", "left", "X", "right", "right", "bs", "bs", "bs", "undo", "undo", "!redo"]),
        ("emacs", "abc", 0, ["del", "del", "right", "del", "del", "undo", "undo2", "!redo", "!redo"]),
        ("vi", "ab", 1, ["a", "left", "b", "bs", "bs", "bs", "right", "del", "!redo"]),
        ("emacs", "界a", 1, ["wide", "wide", "c-b", "c-b", "c-f", "bs", "cpr", "bs", "undo", "undo", "undo"]),
    ]
    for mode, t, c, toks in fixed:
        specs.append({"mode": mode, "text": t, "cursor": c, "history": [], "tokens": toks, "tail": mode == "emacs", "src": "scenario", "edit": True})
    w = {"a": 8, "b": 6, "sp": 3, "X": 2, "wide": 2, "dot": 2, "bs": 7, "del": 4, "left": 6, "right": 5, "cpr": 2}
    for i in range(1500 if thorough else 150):
        mode = "vi" if i % 4 == 3 else "emacs"
        ww = dict(w)
        if mode == "emacs":
            ww.update({"undo": 8, "undo2": 3, "c-b": 2, "c-f": 2})
        else:
            ww.pop("dot")
        names = list(ww)
        weights = [ww[k] for k in names]
        t = rng.choice(texts)
        toks = []
        for _ in range(rng.randint(4, 40 if thorough else 28)):
            toks.append("!redo" if rng.random() < 0.07 else rng.choices(names, weights)[0])
        specs.append({"mode": mode, "text": t, "cursor": rng.randint(0, len(t)), "history": [], "tokens": toks,
                      "tail": mode == "emacs" and rng.random() < 0.8, "src": "random", "edit": True})
    return specs


def edit_case_to_model(res):
    """-> (case, impl result, atoms, problems)"""
    c = _c07()
    _, out, atoms = c.key_case_to_model(res)
    cmds, problems = [], []
    for e in res["events"]:
        if e["kind"] == "redo":
            cmds.append([2])
        elif e["kind"] == "cpr" or e.get("role") == 7:
            cmds.append([4])
        elif e["kind"] == "reset":
            problems.append("a new prompt inside an editing session")
            cmds.append([4])
        elif e["row"][1] == 1:
            cmds.append([3, e["h"], e["arg"]])
        elif e["role"] in EDIT_ROLES:
            code = EDIT_ROLES[e["role"]]
            cmds.append([1, e["h"], [code, S(e["data"]), e["arg"]] if e["role"] == 1 else [code, e["arg"]]])
        else:
            problems.append("binding %s -> %s has no edit model (role %d)" % (e["keys"], e["name"], e["role"]))
            cmds.append([1, e["h"], [13, S(e["post"][0])]])
    init = res["first"]
    return [4, S(init[0]), init[1], cmds], out, atoms, problems


KILL_CODES = {"kill_line": 1, "kill_word": 2, "unix_word_rubout": 4, "backward_kill_word": 5, "unix_line_discard": 6,
              "yank": 7, "yank_pop": 8}
VI_CODES = {("x", "_delete"): 31, ("X", "_delete_before_cursor"): 32, ("D", "_delete_until_end_of_line"): 33,
            ("d d", "_delete_line"): 34, ("y y", "_yank_line"): 35, ("p", "_paste"): 36, ("P", "_paste_before"): 37}


def edit2_specs(chk):
    """kills, yanks and single-dispatch Vi operators next to the commands of kind 4"""
    rng = chk.rng
    thorough = chk.tier == "thorough"
    specs = []
    texts = ["", "abc", "hello world", "one two\nthree four\nfive", "  x y", "界a b-c"]
    fixed = [
        ("emacs", "one two three", 4, ["c-k", "undo", "!redo", "c-y", "undo", "undo"]),
        ("emacs", "one two three", 0, ["M-d", "M-d", "right", "c-y", "M-y", "undo", "undo", "undo"]),
        ("emacs", "ab cd ef", 8, ["c-w", "c-w", "a", "c-y", "left", "c-u", "undo", "undo2", "!redo"]),
        ("emacs", "x y", 3, ["M-bs", "c-y", "c-y", "M-y", "bs", "M-y", "undo", "undo"]),
        ("vi", "one two\nthree", 0, ["a", "b", "esc", "x", "x", "p", "u", "u", "dd", "P", "u", "!redo"]),
        ("vi", "one\ntwo\nthree", 5, ["esc", "yy", "p", "D", "X", "u", "u", "u", "u"]),
    ]
    for mode, t, c, toks in fixed:
        specs.append({"mode": mode, "text": t, "cursor": c, "history": [], "tokens": toks, "tail": mode == "emacs", "src": "scenario", "edit": True})
    we = {"a": 6, "b": 4, "sp": 4, "bs": 4, "del": 2, "left": 4, "right": 3, "cpr": 1, "undo": 7, "undo2": 2,
          "c-k": 4, "M-d": 4, "c-w": 4, "M-bs": 3, "c-u": 2, "c-y": 5, "M-y": 3, "home": 0, "end": 0}
    wi = {"a": 6, "b": 4, "sp": 4, "bs": 3, "left": 2, "cpr": 1}
    wn = {"x": 6, "X": 3, "D": 2, "dd": 3, "yy": 3, "p": 4, "P": 3, "u": 8, "cpr": 1, "esc": 1}
    for i in range(1200 if thorough else 130):
        mode = "vi" if i % 3 == 2 else "emacs"
        t = rng.choice(texts)
        toks = []
        if mode == "emacs":
            names = [k for k in we if we[k]]
            for _ in range(rng.randint(4, 36 if thorough else 26)):
                toks.append("!redo" if rng.random() < 0.06 else rng.choices(names, [we[k] for k in names])[0])
        else:
            for _ in range(rng.randint(0, 8)):
                toks.append(rng.choices(list(wi), list(wi.values()))[0])
            toks.append("esc")
            for _ in range(rng.randint(3, 24)):
                toks.append("!redo" if rng.random() < 0.06 else rng.choices(list(wn), list(wn.values()))[0])
        specs.append({"mode": mode, "text": t, "cursor": rng.randint(0, len(t)), "history": [], "tokens": toks,
                      "tail": mode == "emacs" and rng.random() < 0.8, "src": "random", "edit": True})
    return specs


def edit2_case_to_model(res):
    case, out, atoms, _ = edit_case_to_model(res)
    cmds, problems = [], []
    k = 0
    for e in res["events"]:
        cur = case[3][k]
        k += 1
        if e["kind"] != "key" or e["role"] == 7 or e["row"][1] == 1 or e["role"] in EDIT_ROLES:
            cmds.append(cur)
            continue
        short = e["name"].split(".")[-1]
        if e["name"].endswith("named_commands." + short) and short in KILL_CODES:
            cmds.append([8, e["h"], [KILL_CODES[short], []], e["arg"]])
        elif (e["keys"], short) in VI_CODES:
            cmds.append([8, e["h"], [VI_CODES[(e["keys"], short)], []], e["arg"]])
        elif e["keys"] == "escape" and short == "_back_to_navigation":
            cmds.append([9, e["h"]])
        else:
            problems.append("binding %s -> %s has no edit model (role %d)" % (e["keys"], e["name"], e["role"]))
            cmds.append(cur)
    return [6, case[1], case[2], cmds], out, atoms, problems


def run_edit(chk, cases, impl_results, oracle_bad, rows0, spec_of, report, second=False):
    c = _c07()
    stats = {"sessions": 0, "commands": 0, "by_model": {}, "effective_undos": 0, "reach_start_checked": 0, "group_runs_checked": 0}
    for spec in (edit2_specs(chk) if second else edit_specs(chk)):
        res = c.run_key_case_sync(spec)
        if res.get("hang"):
            chk.violation("oracle", "editing session did not finish within 20 s", {"clause": "hang", "level": "edit"}, {"spec": spec})
            continue
        case, out, atoms, problems = (edit2_case_to_model if second else edit_case_to_model)(res)
        i = len(cases)
        cases.append(case)
        impl_results.append(out)
        spec_of[i] = spec
        stats["sessions"] += 1
        how = "PromptSession(editing_mode=%s, multiline=True), default buffer reset to Document(%r, %d), keys %r; the model computes every text itself" % (
            spec["mode"], spec["text"], spec["cursor"], spec["tokens"])
        for p in list(res["problems"]) + problems:
            chk.violation("tie", "editing session outside the modelled commands: " + p, {"kind": "unmodelled", "what": p, "level": "edit"},
                          {"spec": spec, "how": how}, no_input=True)
        for e in res["events"]:
            if e["kind"] == "key":
                stats["commands"] += 1
                stats["by_model"][e["name"].split(".")[-1]] = stats["by_model"].get(e["name"].split(".")[-1], 0) + 1
                stats["effective_undos"] += sum(1 for p, q in e["undos"] if p != q)
                if e["h"] < 0 or e["h"] >= len(rows0) or rows0[e["h"]][0] != e["row"]:
                    chk.violation("tie", "dispatched binding %r (%s -> %s) is not row %d of the regenerated table" % (e["row"], e["keys"], e["name"], e["h"]),
                                  {"kind": "table-row", "handler": e["name"], "level": "edit"}, {"spec": spec}, no_input=True)
        chk.count_case(case, any(a["kind"] == "undo" and a["pre"] != a["post"] for a in atoms))
        bad = c.oracle_atoms(atoms)
        if bad:
            report(i, case, atoms, bad, how, {"mode": spec["mode"], "level": "edit"}, spec)
        nchecked, gfails = c.oracle_groups(res["events"])
        stats["group_runs_checked"] += nchecked
        for (a, b, k, pre, post, landed) in gfails:
            oracle_bad.add(i)
            chk.violation("oracle", "a run of %s dispatches (%r -> %r) was not undone as one group: one undo gave %r [%s]" % (
                c.GROUP_ROLES[res["events"][a]["role"]], pre, post, landed, how[:200]), {"clause": "group", "level": "edit"},
                {"case": sx_norm(case), "spec": spec, "how": how})
        if res["tail_ran"] and not res["exhausted"]:
            oracle_bad.add(i)
            chk.violation("oracle", "repeated presses of the undo key did not empty the undo stack [%s]" % how[:200],
                          {"clause": "undo-does-not-terminate", "level": "edit"}, {"case": sx_norm(case), "spec": spec, "how": how})
        if res["exhausted"] and spec.get("tail", True):
            stats["reach_start_checked"] += 1
            if res["final"][0] != res["init"][0]:
                oracle_bad.add(i)
                chk.violation("oracle", "repeated undo ended on %r, the prompt started with %r [%s]" % (res["final"][0], res["init"][0], how[:200]),
                              {"clause": "reaches-start", "level": "edit"}, {"case": sx_norm(case), "spec": spec, "how": how})
        if spec["src"] == "scenario" and stats["sessions"] <= 2:
            chk.sample({"kind": "edit", "mode": spec["mode"], "text": spec["text"], "tokens": spec["tokens"][:12], "commands": case[3][:6]}, limit=4)
    return stats


def replay_multi(spec):
    res = run_multi_case_sync(spec)
    if res.get("hang"):
        print("session hangs")
        return 1
    print("flavour=%s mode=%s docs=%r tokens=%r" % (spec["flavour"], spec["mode"], spec["docs"], spec["tokens"]))
    for e in res["events"]:
        if e["kind"] == "key":
            print("  focus %d  %-10s %-46s save=%r undo_calls=%d resets=%r focus-> %d\n      buffers %r\n      stacks  %r" % (
                e["f_before"], e["keys"], e["name"][-46:], e["saves"], len(e["undos"]), [j for j, _ in e["resets"]], e["f_after"],
                e["post"], e["stacks"]))
        else:
            print("  %s %r: buffers %r" % (e["kind"], e.get("i", ""), e["post"]))
    fails, _ = multi_oracle(res)
    for (b, clause, fam, detail) in fails:
        print("ORACLE FAILS: buffer %d: %s %s" % (b, clause, detail))
    print("after repeated undo: %r" % ([f[0] for f in res["finals"]],))
    return 1 if fails else 0
