"""C18 - formatted-text conversions preserve text; interpolated values are inert.
Models: coq/Model/C18_{Fragments,Ansi,Html,Run}.v; theorems: coq/Props/C18.v.

Case kinds (first element of the sx case):
  1 split_lines   2 to_text/len/explode/to_formatted_text(style=)   3 ANSI(s)
  4 ANSI template % / format   5 ansi_escape + html_escape   6 HTML(s)
  7 HTML template % / format   8 to_formatted_text over every kind of value   9 ansi_strip / ansi_zero_width
  10 _ExplodedList   11 fragment_list_width   12 PygmentsTokens
  13 HTML template by the values-as-data specification (Model/C18_HtmlAny.v; same implementation run as its kind-7 sibling)
  14 ANSI(s) by the token-sequence semantics (Model/C18_AnsiSeq.v)
"""
import itertools
import re
import sys

from common import *  # noqa

PROP = "C18"
TABLES = ["Whitespace", "C18_Tables"]
MODELS = [("c18", "Extract/ExC18.v", "run_C18")]
ZWE = "[ZeroWidthEscape]"
NEUTRALISABLE = "\x1b\b\x9b\x01\x02"          # ansi_escape may turn these into '?'
ANSI_ALPHA = ["a", "\x1b", "[", "\x9b", ";", "m", "3", "1", "\x01", "\x02", "C", "\xb2"]
VAL_ALPHA = ["a", " ", "\x1b", "[", "\x9b", ";", "m", "3", "1", "\x01", "\x02", "C", "\xb2", "\b",
             "{", "}", "%", ":", "\xe9", "\n"]
HTML_VAL_ALPHA = ["a", " ", "<", ">", "&", '"', "'", "=", "\x1b", "\x9b", "\x01", "\x02", "{", "}", "%",
                  ":", ";", "/", "\n", "\xa0", "\xe9", "b", "]", "[", "\r"]
BREAKOUT_ALPHA = ["'", " ", "=", "b", "g", "x", "/"]
HTML_RAW_ALPHA = ["<", ">", "/", "b", " ", "&", ";", "a", "=", "'", '"', "#", "6"]
HTML_SPECIAL_DOCS = ["&#65;&#x42;&#x1F600;", "&#0;", "&#x1b;", "&#xD800;", "&#x110000;", "&#X41;", "&#;", "&#x;", "&#65", "&#1114111;",
                     "&#1114112;", "&#9;&#10;&#13;|", "<b fg=\"&#35;f00\">x</b>", "&#x26;lt;", "&#00065;", "&#xfffe;", "&#xFFFD;", "&#x3c;b&#x3e;",
                     "<i bg='&#32;'>x</i>", "<i bg='a&#9;b'>x</i>", "&#6" + "6" * 30 + ";", "&#xa;&#xd;", "a<!-- c -->b", "a<![CDATA[x]]>b", "a<?p d?>b"]
HTML_SPECIAL_VALUES = ["]]>", "]]", "a]]>b", "&#65;", "&amp;", "&lt;b&gt;", "<b>", "</b>", "<!--", "-->", "<![CDATA[", "<?x?>",
                       "</html-root>", "<html-root>", "red' bg='blue", 'red" bg="blue', "red\xa0bold", "a\tb", "\x1b[0m", "\ufffe",
                       "%s", "{}", "{0}", "%(a)s", "&apos;", "&quot;", "x' y='z", "'/><b>", "\U0001f600", "\x7f\x85",
                       # special "[...]" style tokens: a style string containing one is treated as that token
                       ZWE, "a" + ZWE, "x" + ZWE + "y", "[", "[]", "[ZeroWidthEscape", "[SetCursorPosition]", "[zerowidthescape]",
                       # XML line-end normalisation (finding C18-F14, fixed by 44b4e9c: \\r travels as &#13;)
                       "\r", "a\r", "\r\n", "a\r\nb", "\r\r", "\n\r", "]]\r"]
BENIGN = "\u0101\u0113\u012b\u014d"                                # one private letter per hole; templates never contain them

OPN = {1: "split_lines", 2: "fragment-helpers", 3: "ANSI", 4: "ANSI-interpolation", 5: "escape",
       6: "HTML", 7: "HTML-interpolation", 8: "to_formatted_text", 9: "ANSI-plain-text", 10: "_ExplodedList", 11: "fragment_list_width", 12: "PygmentsTokens",
       13: "HTML-values-as-data", 14: "ANSI-sequence"}


def xml_char(c):
    o = ord(c)
    return o in (9, 10, 13) or 0x20 <= o <= 0xD7FF or 0xE000 <= o <= 0xFFFD or 0x10000 <= o <= 0x10FFFF


# --------------------------------------------------------------------------
# which of the two modelled variants of each repaired function is /repo now?

def probe_cfg():
    from prompt_toolkit.formatted_text import ANSI, HTML
    from prompt_toolkit.formatted_text.ansi import ansi_escape
    from prompt_toolkit.formatted_text.html import html_escape

    def frs(f):
        try:
            return [tuple(x) for x in with_watchdog(f, 5).__pt_formatted_text__()]
        except Exception as e:  # noqa
            return type(e).__name__
    lim = sys.get_int_max_str_digits()
    c1 = ansi_escape("\x1b\b\x9b\x01\x02a") == "?????a"
    dig = (frs(lambda: ANSI("\x1b[\xb2mX")) == [("", "m"), ("", "X")]
           and frs(lambda: ANSI("\x1b[\u06631mX")) == [("", "1"), ("", "m"), ("", "X")]
           and (lim == 0 or frs(lambda: ANSI("\x1b[" + "1" * (lim + 1) + "mX")) == [("", "X")] or
                isinstance(frs(lambda: ANSI("\x1b[" + "1" * (lim + 1) + "mX")), list)))
    apos = html_escape("'") == "&apos;"
    xmlsafe = html_escape("\x1b\x00\ufffe") == "???"
    zw = frs(lambda: ANSI("\x01a\x02\x01b\x02c")) == [(ZWE, "a"), (ZWE, "b"), ("", "c")]
    attr = frs(lambda: HTML('<style fg="a\xa0b">x</style>')) == "ValueError"
    brk = frs(lambda: HTML('<style bg="a[b">x</style>')) == "ValueError"
    cr = html_escape("a\r\n") == "a&#13;\n"
    return [int(c1), int(dig), int(apos), int(xmlsafe), int(zw), int(attr), int(brk), int(cr)]


# --------------------------------------------------------------------------
# implementation runner

def canon_frags(frs):
    return [[S(f[0]), S(f[1]), [int(x) for x in f[2:]]] for f in frs]


def to_tuples(frs):
    return [(unS(f[0]), unS(f[1])) + tuple(f[2]) for f in frs]


def _exc(e):
    from xml.parsers.expat import ExpatError
    if isinstance(e, Hang):
        return [98]
    if isinstance(e, ExpatError):
        return [2]
    if isinstance(e, ValueError):
        return [1]
    if isinstance(e, AssertionError):
        return [4]
    return [99, S(type(e).__name__)]


def _markup(cls, f):
    try:
        try:
            r = with_watchdog(f, 5)
        except Hang:
            # a stalled machine (1.3M cases in memory, shared cores) is not a hang of the code: once more, patiently
            r = with_watchdog(f, 60)
        return [0, canon_frags(list(r.__pt_formatted_text__()))]
    except BaseException as e:  # noqa
        if isinstance(e, (KeyboardInterrupt, SystemExit)):
            raise
        return _exc(e)


def templates_for(parts):
    tm = "%s".join(p.replace("%", "%%") for p in parts)
    tf = "{}".join(p.replace("{", "{{").replace("}", "}}") for p in parts)
    return tm, tf


FORMAT_SPECS = [">4", "<6", "^5", ".3", "8.2", "_^7", "6.4", ">1", ".0"]
# str.format left-aligns strings by default, %Ns right-aligns
PERCENT_SPECS = {">4": "%4s", "<6": "%-6s", ".3": "%.3s", "8.2": "%-8.2s", "6.4": "%-6.4s", ">1": "%1s", ".0": "%.0s"}


def _explained(cls, t, raw, r3):
    """96 when the deviation of `cls(t) % raw` from the reference is exactly what "escape every value, then let
    the % operator convert the escaped strings" gives (the known shape of __mod__), 93 when it is something else."""
    from prompt_toolkit.formatted_text import ANSI
    from prompt_toolkit.formatted_text.ansi import ansi_escape
    from prompt_toolkit.formatted_text.html import html_escape
    esc = ansi_escape if cls is ANSI else html_escape
    r4 = _markup(cls, lambda: cls(t % tuple(esc(i) for i in raw)))
    return 96 if r4 == r3 else 93


def run_template(cls, parts, vals, specs=None, raw=None, pspecs=None):
    """Every engine/field syntax must give the same result; [97, r_mod, r_other] when two disagree:
    the % operator, and format() with {} / {:s} / {!s} / {0}.. / {name} fields.
    With `specs` (one format spec per field) and `raw` values, vals[j] == format(raw[j], specs[j])
    (computed by CPython): the reference is the plain %s template with the already formatted values;
    format() with {:spec} / {0:spec} / {name:spec} fields and the raw values must give the same;
    so must the % operator with the equivalent %<width>.<prec>s conversion ([96, ...] when not)."""
    tm, tf = templates_for(parts)
    arg = tuple(vals) if (len(vals) != 1 or len(vals[0]) % 2 == 0) else vals[0]
    r1 = _markup(cls, lambda: cls(tm) % arg)
    lit = [p.replace("{", "{{").replace("}", "}}") for p in parts]

    def join(field, lits=lit):
        out = lits[0]
        for j in range(len(vals)):
            out += field(j) + lits[j + 1]
        return out
    if specs:
        variants = [(join(lambda j: "{:%s}" % specs[j]), raw, {}),
                    (join(lambda j: "{%d:%s}" % (j, specs[j])), raw, {}),
                    (join(lambda j: "{v%d:%s}" % (j, specs[j])), [], {"v%d" % j: v for j, v in enumerate(raw)})]
    else:
        variants = [(tf, vals, {}),
                    (join(lambda j: "{:s}"), vals, {}),
                    (join(lambda j: "{!s}"), vals, {}),
                    (join(lambda j: "{%d}" % j), vals, {}),
                    (join(lambda j: "{v%d}" % j), [], {"v%d" % j: v for j, v in enumerate(vals)})]
    for t, a, kw in (variants if vals else variants[:1]):
        r2 = _markup(cls, lambda: cls(t).format(*a, **kw))
        if r1 != r2:
            return [97, r1, r2]
    if pspecs:
        # explicit % conversions (%d, %5.1f, %x, %r, ...) on raw, possibly non-string, values: vals[j] == pspecs[j] % (raw[j],)
        plit = [p.replace("%", "%%") for p in parts]
        t = join(lambda j: pspecs[j], plit)
        arg2 = tuple(raw) if (len(raw) != 1 or isinstance(raw[0], (tuple, dict)) or len(vals[0]) % 2 == 0) else raw[0]
        r3 = _markup(cls, lambda: cls(t) % arg2)
        if r1 != r3:
            return [_explained(cls, t, raw, r3), r1, r3]
        return r1
    if specs and all(sp in PERCENT_SPECS for sp in specs):
        plit = [p.replace("%", "%%") for p in parts]
        t = join(lambda j: PERCENT_SPECS[specs[j]], plit)
        r3 = _markup(cls, lambda: cls(t) % tuple(raw))
        if r1 != r3:
            return [_explained(cls, t, raw, r3), r1, r3]
    return r1


# ---- kinds of AnyFormattedText (case kind 8).  A value is a tree:
#   ["none"] | ["str", s] | ["list", frags, as_FormattedText] | ["magic", frags] | ["ansi", s] | ["html", s]
#   | ["call", v] | ["merge", [v...]] | ["template", text, [v...]] | ["other", n]

class _Magic:
    def __init__(self, frs):
        self.frs = frs

    def __pt_formatted_text__(self):
        return self.frs


def fv_build(t):
    from prompt_toolkit.formatted_text import ANSI, HTML, FormattedText, Template, merge_formatted_text
    k = t[0]
    if k == "none":
        return None
    if k == "str":
        return t[1]
    if k == "list":
        return FormattedText(to_tuples(t[1])) if t[2] else to_tuples(t[1])
    if k == "magic":
        return _Magic(to_tuples(t[1]))
    if k == "ansi":
        return ANSI(t[1])
    if k == "html":
        return HTML(t[1])
    if k == "call":
        inner = fv_build(t[1])
        return lambda: inner
    if k == "merge":
        return merge_formatted_text([fv_build(x) for x in t[1]])
    if k == "template":
        return Template(t[1]).format(*[fv_build(x) for x in t[2]])
    if k == "other":
        return t[1]
    raise ValueError(k)


def fv_sx(t):
    k = t[0]
    if k == "none":
        return [0]
    if k == "str":
        return [1, S(t[1])]
    if k == "list":
        return [2, t[1]]
    if k == "magic":
        return [3, t[1]]
    if k == "ansi":
        return [3, [[[], [ord(c)], []] for c in t[1]]]
    if k == "html":
        return [3, [[[], S(t[1]), []]] if t[1] else []]
    if k == "call":
        return [4, fv_sx(t[1])]
    if k == "merge":
        return [5, [fv_sx(x) for x in t[1]]]
    if k == "template":
        return [6, S(t[1]), [fv_sx(x) for x in t[2]]]
    if k == "other":
        return [7, S("%s" % (t[1],))]
    raise ValueError(k)


def fv_text(t):
    """plain text the value stands for; None when converting it must raise"""
    k = t[0]
    if k == "none":
        return ""
    if k in ("str", "ansi", "html"):
        return t[1]
    if k in ("list", "magic"):
        return "".join(unS(f[1]) for f in t[1] if ZWE not in unS(f[0]))
    if k == "call":
        return fv_text(t[1])
    if k == "merge":
        parts = [fv_text(x) for x in t[1]]
        return None if None in parts else "".join(parts)
    if k == "template":
        if "{0}" in t[1]:
            return None
        ps = t[1].split("{}")
        vs = [fv_text(x) for x in t[2]]
        if len(ps) - 1 != len(vs) or None in vs:
            return None
        return "".join(a + b for a, b in zip(ps, vs + [""]))
    return None


def run_convert(tree, style, ac, times=3):
    """Build the object once, convert it `times` times.  Result: the (common) canonical conversion, or
    [95, r1, r2, ...] when two conversions of the same object differ, or [94, r1, changed] when a list
    returned earlier no longer holds what it held when it was returned."""
    from prompt_toolkit.formatted_text import to_formatted_text
    try:
        obj = with_watchdog(lambda: fv_build(tree), 5)
    except BaseException as e:  # noqa
        if isinstance(e, (KeyboardInterrupt, SystemExit)):
            raise
        return _exc(e)
    results, kept = [], []
    for _ in range(times):
        try:
            r = with_watchdog(lambda: to_formatted_text(obj, style=style, auto_convert=ac), 5)
            snap = canon_frags(list(r))
            kept.append((r, snap))
            results.append([0, snap])
        except BaseException as e:  # noqa
            if isinstance(e, (KeyboardInterrupt, SystemExit)):
                raise
            results.append(_exc(e))
    if any(r != results[0] for r in results):
        return [95] + results
    for r, snap in kept:
        now = canon_frags(list(r))
        if now != snap:
            return [94, [0, snap], [0, now]]
    return results[0]


def run_exploded(frs, ops):
    """explode_text_fragments(frs), then the operations; the list after each one (or an exception code)"""
    from prompt_toolkit.layout.utils import explode_text_fragments
    lst = explode_text_fragments(to_tuples(frs))
    out = []
    for op in ops:
        try:
            if op[0] == 1:
                lst[op[1]] = to_tuples([op[2]])[0]
            elif op[0] == 2:
                lst[op[1]:op[2]] = to_tuples(op[3])
            elif op[0] == 3:
                lst.append(to_tuples([op[1]])[0])
            elif op[0] == 4:
                lst.extend(to_tuples(op[1]))
            elif op[0] == 5:
                lst += to_tuples(op[1])
            again = explode_text_fragments(lst)           # "a null operation" on an exploded list
            out.append(canon_frags(list(again)))
        except BaseException as e:  # noqa
            if isinstance(e, (KeyboardInterrupt, SystemExit)):
                raise
            out.append([96] if isinstance(e, IndexError) else _exc(e))
    return out


def oracle_exploded(frs, ops, res):
    cur = [[f[0], [c], f[2]] for f in frs for c in f[1]]
    for op, after in zip(ops, res):
        name = {1: "lst[%r] = item" % (op[1],), 2: "lst[%r:%r] = items" % tuple(op[1:3]) if op[0] == 2 else "", 3: "append",
                4: "extend", 5: "lst += items"}[op[0]]
        if not (isinstance(after, list) and all(isinstance(f, list) and len(f) == 3 for f in after)):
            if op[0] == 1 and not (-len(cur) <= op[1] < len(cur)):
                return None                     # an index outside the list may raise
            return ("_ExplodedList %s raised (%r)" % (name, after), {"op": "_ExplodedList", "family": "raises"})
        if any(len(f[1]) != 1 for f in after):
            return ("_ExplodedList %s on %s left a fragment that is not a single character: %s" % (name, short(to_tuples(cur), 80), short(to_tuples(after), 120)),
                    {"op": "_ExplodedList", "family": "iadd-not-exploded" if op[0] == 5 else "not-exploded"})
        if op[0] == 1 and -len(cur) <= op[1] < len(cur):
            j = op[1] % len(cur)
            v = op[2]
            want = cur[:j] + [[v[0], [c], v[2]] for c in v[1]] + cur[j + 1:]
            if after != want:
                return ("_ExplodedList %s on %s gave %s, expected item %d replaced: %s" % (name, short(to_tuples(cur), 80), short(to_tuples(after), 100), j, short(to_tuples(want), 100)),
                        {"op": "_ExplodedList", "family": "setitem-minus-one-inserts" if op[1] == -1 else "setitem"})
        if op[0] in (3, 4, 5):
            add = [op[1]] if op[0] == 3 else op[1]
            want = cur + [[f[0], [c], f[2]] for f in add for c in f[1]]
            if after != want:
                return ("_ExplodedList %s: %s, expected %s" % (name, short(to_tuples(after), 100), short(to_tuples(want), 100)),
                        {"op": "_ExplodedList", "family": "extend"})
        cur = after
    return None


def impl_case(case, m=None):
    from prompt_toolkit.formatted_text import ANSI, HTML, to_formatted_text
    from prompt_toolkit.formatted_text.ansi import ansi_escape
    from prompt_toolkit.formatted_text.html import html_escape
    from prompt_toolkit.formatted_text.utils import (fragment_list_len, fragment_list_to_text, split_lines)
    from prompt_toolkit.layout.utils import explode_text_fragments
    k = case[0]
    try:
        if k == 1:
            frs = to_tuples(case[1])
            return [canon_frags(line) for line in with_watchdog(lambda: list(split_lines(frs)), 5)]
        if k == 2:
            frs = to_tuples(case[2])
            st = unS(case[1])
            return [S(fragment_list_to_text(frs)), fragment_list_len(frs), canon_frags(list(explode_text_fragments(frs))),
                    canon_frags(list(to_formatted_text(frs, style=st)))]
        if k in (3, 14):
            s = unS(case[1])
            return _markup(ANSI, lambda: ANSI(s))
        if k == 4:
            return run_template(ANSI, [unS(p) for p in case[1]], [unS(v) for v in case[2]],
                                (m or {}).get("specs"), (m or {}).get("raw"), (m or {}).get("pspecs"))
        if k == 5:
            s = unS(case[1])
            return [S(ansi_escape(s)), S(html_escape(s))]
        if k == 6:
            s = unS(case[1])
            return _markup(HTML, lambda: HTML(s))
        if k == 8:
            return run_convert(m["tree"], unS(case[1]), bool(case[2]))
        if k == 11:
            from prompt_toolkit.formatted_text.utils import fragment_list_width
            return fragment_list_width(to_tuples(case[2]))
        if k == 12:
            from prompt_toolkit.formatted_text import PygmentsTokens
            toks = [(tuple(unS(p) for p in t[0]), unS(t[1])) for t in case[1]]
            obj = PygmentsTokens(toks)
            r1 = canon_frags(list(to_formatted_text(obj)))
            r2 = canon_frags(list(to_formatted_text(obj)))
            return r1 if r1 == r2 else [95, r1, r2]
        if k == 10:
            return run_exploded(case[1], case[2])
        if k == 9:
            from prompt_toolkit.formatted_text import to_plain_text
            s = unS(case[1])
            a = with_watchdog(lambda: ANSI(s), 5)
            return [S(to_plain_text(a)), [S(t) for st, t in a.__pt_formatted_text__() if ZWE in st]]
        if k in (7, 13):
            return run_template(HTML, [unS(p) for p in case[1]], [unS(v) for v in case[2]],
                                (m or {}).get("specs"), (m or {}).get("raw"), (m or {}).get("pspecs"))
    except BaseException as e:  # noqa
        if isinstance(e, (KeyboardInterrupt, SystemExit)):
            raise
        return _exc(e)
    raise ValueError(k)


# --------------------------------------------------------------------------
# oracle: the property statements over the implementation's own results

def view(frs):
    """characters with their style and tuple tail; a newline is only a line break"""
    out = []
    for st, tx, rest in frs:
        for c in tx:
            out.append(None if c == 10 else (tuple(st), tuple(rest), c))
    return out


def oracle_split(frs, lines):
    if not isinstance(lines, list) or (lines and lines[0] in (98, 99)):
        return ("split_lines raised", "raise")
    joined = []
    for i, ln in enumerate(lines):
        if i:
            joined.append(None)
        v = view(ln)
        if None in v:
            return ("a line contains a newline", "newline-in-line")
        joined += v
    if joined != view(frs):
        return ("joining the lines with newlines does not give back the characters with their styles", "join")
    return None


def oracle_helpers(st, frs, res):
    if not (isinstance(res, list) and len(res) == 4):
        return ("fragment helper raised", "raise")
    text, ln, ex, styled = res
    want = [c for f in frs if ZWE not in unS(f[0]) for c in f[1]]
    if text != want:
        return ("fragment_list_to_text is not the concatenation of the non-zero-width texts", "to_text")
    if ln != len(want):
        return ("fragment_list_len != len(fragment_list_to_text)", "len")
    flat = [[f[0], [c], f[2]] for f in frs for c in f[1]]
    if ex != flat:
        return ("explode_text_fragments: not one fragment per character with the fragment's style", "explode")
    if [f[1:] for f in styled] != [f[1:] for f in frs]:
        return ("to_formatted_text(style=) changed text", "style")
    for a, b in zip(styled, frs):
        if unS(a[0]) != ((unS(st) + " " + unS(b[0])) if st else unS(b[0])):
            return ("to_formatted_text(style=): style not prefixed", "style")
    return None


_TOK = re.compile(
    "\x01([^\x02]*)\x02"                       # 1 zero-width region
    "|(\x01[^\x02]*\\Z)"                        # 2 unterminated zero-width region
    "|(?:\x1b\\[|\x9b)([0-9;]*)([^0-9;])"      # 3,4 control sequence: parameters, final character
    "|((?:\x1b\\[|\x9b)[0-9;]*\\Z)"             # 5 truncated control sequence
    "|\x1b([^\\[])"                            # 6 two-character escape
    "|(\x1b\\Z)"                                # 7 lone ESC at the end
    "|([^\x01\x1b\x9b])",                      # 8 visible character
    re.S)


def _capped(digits):
    d = digits.lstrip("0")
    if len(d) > 4:
        return 9999
    return min(int(d or "0"), 9999)


def ansi_expected(s, quirk=False):
    """(visible text, zero-width payloads, ambiguous) of an ANSI string: control
    sequences (7/8-bit CSI + ASCII parameters + final character), ESC x, and
    \\001..\\002 regions removed; `CSI n C` is n spaces.  quirk=True: the
    character following \\002 is taken literally when it is \\001 (the code
    as it stands)."""
    pos, vis, zws, amb = 0, [], [], False
    while pos < len(s):
        m = _TOK.match(s, pos)
        pos = m.end()
        if m.group(1) is not None:
            zws.append(m.group(1))
            if quirk and pos < len(s) and s[pos] == "\x01":
                vis.append("\x01")
                pos += 1
        elif m.group(4) is not None:
            fin = m.group(4)
            if ord(fin) > 127 and fin.isdigit():
                amb = True                      # a non-ASCII digit where a parameter could stand
            if fin == "C":
                vis.append(" " * _capped(m.group(3).split(";")[0]))
        elif m.group(8) is not None:
            vis.append(m.group(8))
    return "".join(vis), zws, amb


def ansi_raise_cause(s):
    lim = sys.get_int_max_str_digits()
    if any(c.isdigit() and not c.isdecimal() for c in s):
        return "non-decimal-digit"
    if lim and re.search("[0-9]{%d,}" % (lim + 1), s):
        return "int-digit-limit"
    return "other"


def oracle_ansi(s, res):
    """ANSI(s): never raises; visible text = s without its control sequences."""
    if res[0] != 0:
        return ("ANSI(%r) raised %s" % (s[:40], {1: "ValueError", 98: "Hang"}.get(res[0], "an exception")),
                {"family": "parse-raises", "cause": ansi_raise_cause(s)})
    frs = [(unS(a), unS(b)) for a, b, _ in res[1]]
    vis = "".join(t for st, t in frs if ZWE not in st)
    zws = [t for st, t in frs if ZWE in st]
    if not any(c in s for c in "\x01\x1b\x9b"):
        if frs != [("", c) for c in s]:
            return ("plain text did not come back as unstyled one-character fragments", {"family": "plain"})
    # (a non-ASCII digit after CSI is an ordinary final character since 86103a9: nothing is ambiguous any more)
    ev, ez, _ = ansi_expected(s)
    if (vis, zws) != (ev, ez):
        qv, qz, _ = ansi_expected(s, quirk=True)
        if (vis, zws) == (qv, qz):
            return ("ANSI(%r): a zero-width region directly after another one is not recognised: visible text %r, expected %r"
                    % (s[:40], vis[:40], ev[:40]), {"family": "zero-width-adjacent"})
        return ("ANSI(%r): visible text %r / zero-width %r, expected %r / %r" % (s[:40], vis[:40], zws[:3], ev[:40], ez[:3]),
                {"family": "visible-text"})
    return None


def html_unescape5(s):
    return (s.replace("&lt;", "<").replace("&gt;", ">").replace("&quot;", '"').replace("&apos;", "'")
            .replace("&#13;", "\r").replace("&amp;", "&"))


def oracle_escape(v, res):
    if not (isinstance(res, list) and len(res) == 2):
        return ("escape raised", {"op": "escape", "family": "raise"})
    ae, he = unS(res[0]), unS(res[1])
    if len(ae) != len(v) or any(a != b and not (a == "?" and b in NEUTRALISABLE) for a, b in zip(ae, v)):
        return ("ansi_escape(%r) = %r changed a character other than neutralising a control character" % (v, ae),
                {"op": "ANSI-interpolation", "family": "escape-changed-text"})
    if "\x1b" in ae or "\x9b" in ae or "\x01" in ae:
        fam = "unescaped-esc" if "\x1b" in ae else ("unescaped-8bit-csi" if "\x9b" in ae else "unescaped-zero-width-marker")
        return ("ansi_escape(%r) = %r still contains a sequence introducer" % (v, ae),
                {"op": "ANSI-interpolation", "family": fam})
    he2 = "".join(c if xml_char(c) else "?" for c in v)
    un = html_unescape5(he)
    if un != v and un != he2:
        return ("html_escape(%r) = %r does not unescape to the value" % (v, he),
                {"op": "HTML-interpolation", "family": "escape-roundtrip"})
    if "<" in he or '"' in he or re.search("&(?!(amp|lt|gt|quot|apos|#13);)", he):
        return ("html_escape(%r) = %r contains a markup character" % (v, he),
                {"op": "HTML-interpolation", "family": "escape-leaves-markup"})
    return None


def flat(frs):
    out = []
    for st, tx, _ in frs:
        st, tx = unS(st), unS(tx)
        if ZWE in st:
            out.append((st, tx, True))
        else:
            out += [(st, c, False) for c in tx]
    return out


def _inert_check(kind, parts, vals, holes, run):
    """-> None | description of how the value was not inert"""
    ben = [BENIGN[j] * len(v) for j, v in enumerate(vals)]
    rb = run(parts, ben)
    rv = run(parts, vals)
    if rb[0] != 0:
        return None     # not a usable template
    # the documented fg/bg guard: a value with whitespace at an attribute position may be refused
    # (only attribute holes count; text-hole values never excuse a ValueError.  Since ae5d17b a "[" in an
    # attribute value is refused the same way: that ValueError is the expected behaviour.)
    guard = any(h != "t" and (any(c.isspace() for c in v) or "[" in v) for h, v in zip(holes, vals))
    if rv[0] == 97:
        return ("%s template %r with (formatted) values %r: the %% operator and a format() field syntax disagree: %r vs %r"
                % (kind, parts, vals, short(rv[1], 120), short(rv[2], 120)))
    note96 = None
    if rv[0] in (96, 93):
        note96 = ("%s template %r: the %% operator with a width/precision conversion gives %r, expected the value formatted by "
                  "the conversion and then shown as text: %r%s" % (kind, parts, rv[2], rv[1],
                                                                   "" if rv[0] == 96 else " (and escaping the value before the conversion does not explain it)"))
        if rv[0] == 93:
            note96 = "UNEXPLAINED " + note96
        rv = rv[1]             # the inertness comparison goes on with the reference all format() variants agreed on
    if rv[0] != 0:
        if rv[0] == 1 and guard:
            return note96
        return "%s template %r with values %r raised %s" % (kind, parts, vals, {1: "ValueError", 2: "ExpatError"}.get(rv[0], rv))
    fb, fv = flat(rb[1]), flat(rv[1])
    if len(fb) != len(fv):
        return ("%s template %r, values %r: %d characters/fragments, %d with benign values of the same lengths"
                % (kind, parts, vals, len(fv), len(fb)))
    ptr = [0] * len(vals)
    for (sb, cb, zb), (sv, cv, zv) in zip(fb, fv):
        want_style = want2 = sb
        for j, v in enumerate(vals):
            if holes[j] != "t" and v:
                want_style = want_style.replace(BENIGN[j] * len(v), v)
                want2 = want2.replace(BENIGN[j] * len(v), "".join(c if xml_char(c) else "?" for c in v))
        if sv in (want_style, want2) and zb != zv:
            return ("%s template %r, values %r: the fragment with style %r is zero-width raw output, with a benign value it is ordinary text"
                    % (kind, parts, vals, sv))
        if sv not in (want_style, want2) or zb != zv:
            return "%s template %r, values %r: a fragment has style %r, expected %r" % (kind, parts, vals, sv, want_style)
        if len(sv.split()) != len(sb.split()):
            return ("%s template %r, values %r: style %r has more words than with a benign value (%r)"
                    % (kind, parts, vals, sv, sb))
        if zb:
            if cb != cv:
                return "%s template %r, values %r: zero-width payload changed" % (kind, parts, vals)
            continue
        if cb in BENIGN and BENIGN.index(cb) < len(holes) and holes[BENIGN.index(cb)] == "t":
            j = BENIGN.index(cb)
            want = vals[j][ptr[j]]
            ptr[j] += 1
            okc = cv == want or (cv == "?" and (want in NEUTRALISABLE if kind == "ANSI" else not xml_char(want)))
            if not okc:
                return "%s template %r, values %r: value character %r came out as %r" % (kind, parts, vals, want, cv)
        elif cb != cv:
            return "%s template %r, values %r: template text %r changed to %r" % (kind, parts, vals, cb, cv)
    return note96


def _causes(kind):
    """(family, value rewriting that removes the cause) in the order they are tried, cumulatively"""
    if kind == "ANSI":
        return [("unescaped-8bit-csi", lambda h, v: v.replace("\x9b", "a")),
                ("unescaped-zero-width-marker", lambda h, v: v.replace("\x01", "a"))]
    return [("xml-invalid-char", lambda h, v: "".join(c if xml_char(c) else "a" for c in v)),
            ("cr-line-end-normalised", lambda h, v: v.replace("\r", "a") if h == "t" else v),
            ("apos-in-single-quoted-attr", lambda h, v: v.replace("'", "a") if h == "s" else v),
            ("attr-unicode-space", lambda h, v: "".join("a" if (c.isspace() and c not in " \t\n\r") else c for c in v) if h != "t" else v),
            ("attr-style-marker", lambda h, v: v.replace("[", "a") if h != "t" else v)]


def oracle_inert(kind, parts, vals, holes, run, m=None):
    """Interpolating `vals` must differ from interpolating benign same-length
    words only in those characters (text holes) / that attribute value (attribute
    holes).  holes[j] = 't' | 'd' | 's' (text, double-, single-quoted attribute).
    The family of a failure is the first cause (removed cumulatively, in a fixed
    order) without which the same template and values pass."""
    what = _inert_check(kind, parts, vals, holes, run)
    if what is None:
        return None
    op = kind + "-interpolation"
    if "disagree" in what:
        return (what, {"op": op, "family": "engines-differ"})
    if what.startswith("UNEXPLAINED "):
        return (what, {"op": op, "family": "percent-conversion-unexplained"})
    if "width/precision conversion" in what:
        if m and m.get("pspecs") and any(not isinstance(r, str) for r in m["raw"]):
            return (what + " [%% conversions %r on raw values %r]" % (m["pspecs"], m["raw"]),
                    {"op": op, "family": "percent-conversion-non-string"})
        return (what, {"op": op, "family": "percent-conversion-on-escaped-text"})
    fam = "other"
    cur = list(vals)
    for name, rw in _causes(kind):
        nxt = [rw(h, v) for h, v in zip(holes, cur)]
        if nxt != cur:
            cur = nxt
            if _inert_check(kind, parts, cur, holes, run) is None:
                fam = name
                break
    return (what, {"op": op, "family": fam})


# --------------------------------------------------------------------------
# HTML template grammar (generator + expected fragments from the tree)

NAMES = ["b", "i", "u", "s", "style", "username", "html-root", "x-y.z", "A_1"]
ATTRS = ["fg", "bg", "color"]
ATTVALS = ["red", "#ff0000", "ansiblue", "", "a b", "x&amp;y", "&lt;", "it&apos;s", ">", "&#35;00ff00", "a&#x2d;b",
           "[", ZWE, "a" + ZWE]
TEXTS = ["a", "b c", " ", "\n", "&amp;", "&lt;", "&gt;", "&quot;", "&apos;", "a>b", '"', "'", "\xe9", "x=y", "\u754c", "[", "]", "&#65;", "&#x3c;", "&#x1F600;"]
ENT = {"&amp;": "&", "&lt;": "<", "&gt;": ">", "&quot;": '"', "&apos;": "'"}


def unent(s):
    def one(m):
        n = m.group(1)
        if n.startswith("#x"):
            return chr(int(n[2:], 16))
        if n.startswith("#"):
            return chr(int(n[1:]))
        return ENT[m.group(0)]
    return re.sub("&(amp|lt|gt|quot|apos|#[0-9]+|#x[0-9a-fA-F]+);", one, s)


def gen_tree(rng, depth, holes, maxholes):
    """children list; ('t', [pieces]) | ('e', name, [(attr, quote, [pieces])], children, selfclose).
    A piece is a literal string or the int index of a hole."""
    out = []
    for _ in range(rng.choice([0, 1, 1, 2, 2, 3])):
        if rng.random() < 0.5 or depth == 0:
            pcs = []
            for _ in range(rng.choice([1, 1, 2, 3])):
                if len(holes) < maxholes and rng.random() < 0.4:
                    pcs.append(len(holes))
                    holes.append("t")
                else:
                    pcs.append(rng.choice(TEXTS))
            if out and out[-1][0] == "t":
                out[-1][1].extend(pcs)
            else:
                out.append(["t", pcs])
        else:
            ats = []
            for a in rng.sample(ATTRS, rng.choice([0, 0, 1, 1, 2])):
                q = rng.choice(["'", '"'])
                if len(holes) < maxholes and rng.random() < 0.5:
                    pc = [rng.choice(["", "", "ansi"]), len(holes)]
                    holes.append("s" if q == "'" else "d")
                else:
                    v = rng.choice(ATTVALS)
                    if maxholes and (" " in v or "[" in v):
                        v = "ansiblue"          # a template must itself be a valid HTML() argument (and not zero-width by itself)
                    if q in v:
                        v = "red"
                    pc = [v]
                ats.append((a, q, pc))
            sc = rng.random() < 0.15
            out.append(["e", rng.choice(NAMES), ats, [] if sc else gen_tree(rng, depth - 1, holes, maxholes), sc])
    return out


def render_tree(ch):
    """-> list of literal strings and hole indices"""
    out = []
    for n in ch:
        if n[0] == "t":
            out += n[1]
        else:
            out.append("<" + n[1])
            for a, q, pc in n[2]:
                out.append(" " + a + "=" + q)
                out += pc
                out.append(q)
            if n[4]:
                out.append("/>")
            else:
                out.append(">")
                out += render_tree(n[3])
                out.append("</" + n[1] + ">")
    return out


def to_parts(seq):
    parts, cur = [], ""
    for x in seq:
        if isinstance(x, int):
            parts.append(cur)
            cur = ""
        else:
            cur += x
    parts.append(cur)
    return parts


def expected_html(ch):
    """HTML.__init__'s walk over the tree the generator built (no holes): fragments or 'ValueError'"""
    res = []
    err = []

    def walk(ch, names, fgs, bgs):
        for n in ch:
            if n[0] == "t":
                data = unent("".join(n[1]))
                if data:
                    parts = []
                    if names:
                        parts.append("class:" + ",".join(names))
                    if fgs:
                        parts.append("fg:" + fgs[-1])
                    if bgs:
                        parts.append("bg:" + bgs[-1])
                    res.append((" ".join(parts), data))
            else:
                fg = bg = ""
                for a, q, pc in n[2]:
                    v = unent("".join(pc)).replace("\n", " ").replace("\t", " ")
                    if a in ("fg", "color"):
                        fg = v
                    else:
                        bg = v
                if " " in fg or " " in bg or "[" in fg or "[" in bg:
                    err.append(1)
                nm = n[1] not in ("html-root", "style")
                walk(n[3], names + [n[1]] if nm else names, fgs + [fg] if fg else fgs, bgs + [bg] if bg else bgs)
    walk(ch, [], [], [])
    return "ValueError" if err else res


# --------------------------------------------------------------------------
# ANSI token grammar

SGR_PARAMS = [0, 1, 2, 3, 4, 5, 6, 7, 8, 9, 22, 23, 24, 25, 27, 28, 29, 30, 31, 37, 38, 39, 40, 44, 47, 48, 49,
              90, 97, 100, 107, 255, 256, 9999, 10000, 123456789]


def gen_ansi_tokens(rng, n, holes_ok=0):
    """list of rendered tokens; an int marks a hole (only at token boundaries in ground state)"""
    out = []
    nh = 0
    for _ in range(n):
        r = rng.random()
        if holes_ok and nh < holes_ok and r < 0.25:
            out.append(nh)
            nh += 1
        elif r < 0.5:
            out.append("".join(rng.choice(["a", "b", " ", "\n", "\xe9", "\u754c", "m", "[", ";", "3", "\x02", "%", "{", "}"])
                               for _ in range(rng.randint(1, 4))))
        elif r < 0.8:
            intro = rng.choice(["\x1b[", "\x1b[", "\x9b"])
            k = rng.choice([0, 1, 1, 2, 3, 5])
            ps = []
            for _ in range(k):
                if rng.random() < 0.25:
                    ps += rng.choice([["38", "5", str(rng.choice([0, 1, 15, 16, 231, 253, 254, 255, 300]))],
                                      ["48", "5", str(rng.choice([0, 7, 200]))],
                                      ["38", "2", str(rng.randint(0, 300)), str(rng.randint(0, 255)), str(rng.randint(0, 9))],
                                      ["48", "2", "1", "2"], ["38"], ["38", "5"], ["48", "2", "0", "0", "0", "1"]])
                else:
                    ps.append(rng.choice(["", "0", "00", "007"]) if rng.random() < 0.1 else str(rng.choice(SGR_PARAMS)))
            out.append(intro + ";".join(ps) + rng.choice(["m", "m", "m", "C", "C", "H", "J", "K", "~", "\x1b", " "]))
        elif r < 0.88:
            out.append("\x1b" + rng.choice(["c", "7", "=", "]", "a", "\x1b", "\x9b"]))
        elif r < 0.96:
            out.append("\x01" + "".join(rng.choice(["x", "\x1b", "[", "1", "m", "\x01", "]"]) for _ in range(rng.randint(0, 4)))
                       + "\x02" + rng.choice(["", "", "k", " "]))
        else:
            out.append(rng.choice(["\x1b[" + str(rng.randint(0, 12)) + "C", "\x9b" + str(rng.randint(0, 3)) + ";5C"]))
    return out


ANSI_SPECIALS = [
    "\x1b[\xb2m", "\x9b3\xb3;1mX", "\x1b[\u06631mX", "\x1b[\u0663Cx", "\x1b[1\u2460m",
    "\x01\x1b[1m\x02\x01\x1b[31m\x02>", "\x01a\x02\x01b\x02c", "\x01\x02\x01\x02", "\x01a\x02\x1b[31mb", "\x01a\x02\x9b1mb",
    "\x1b[38;2;9999;1;2mX\x1b[38;5;300mY\x1b[48;5;1mZ\x1b[38;5mW", "\x1b[1;3;4;5;7;8;9;31;42mX\x1b[0;38mY\x1b[38;2;1;2m",
    "\x1b[0001;00031mX", "\x1b[10000CX"[:0] + "\x1b[12Cx", "\x1b[;;mX", "\x1b[m", "\x1b[31", "\x1b", "\x01abc", "\x9b",
    "\x1b[22;23;24;25;27;28;29mX", "\x1b[6mX\x1b[25mY", "\x1b[39;49mX", "\x1b[97;107mX", "\x1b[38;5;253mX\x1b[38;5;254mY",
    "\x1b[48;2;255;255;255mX", "\x1b[38;2;16;15;256mX", "\x1b[38;2;4096;4095;0mX",
]


# sequences of escapes: every sequence of <= 3 (thorough 4) tokens over this alphabet
SEQ_TOKENS = ["a", "\x1b[1m", "\x1b[31m", "\x9b0m", "\x1b[2C", "\x9b;3C", "\x1bc", "\x01z\x02", "\x1b[5H", "\x1b[38;5;9m",
              "\x1b[m", "\x1b[4;"]
SEQ_TRUNCATED = "\x1b[4;"
SEQ_CUF = {"\x1b[2C": "  ", "\x9b;3C": ""}             # `CSI n C` = n spaces (first parameter; empty = 0)
SEQ_SILENT = {"\x1bc", "\x01z\x02", "\x1b[5H"}          # no visible output and no effect on the state


def oracle_ansi_seq(toks, res):
    """Only SGR sequences change the state, and ESC x / zero-width regions / unsupported sequences show nothing
    (C18_ansi_state_only_sgr): dropping them leaves every visible fragment, with its style, as it was."""
    from prompt_toolkit.formatted_text import ANSI
    if res[0] != 0:
        return None                                  # oracle_ansi (kind 3 sibling) reports a raise
    if SEQ_TRUNCATED in toks[:-1]:
        return None                                  # an unterminated sequence swallows what follows: the pieces are no longer the tokens
    # cursor-forward shows its spaces in the style in effect (C18_ansi_cuf_after_sgr): the same input with the
    # spaces written out gives the same fragments
    if any(t in SEQ_CUF for t in toks):
        ref = _markup(ANSI, lambda: ANSI("".join(SEQ_CUF.get(t, t) for t in toks)))
        if ref != res:
            return ("ANSI(%r): fragments %s, but with the cursor-forward sequences written as spaces: %s"
                    % ("".join(toks), short(to_tuples(res[1]), 160), short(to_tuples(ref[1]) if ref[0] == 0 else ref, 160)),
                    {"op": "ANSI", "family": "sequence-cursor-forward-style"})
    kept = [t for t in toks if t not in SEQ_SILENT]
    if kept == toks:
        return None
    ref = _markup(ANSI, lambda: ANSI("".join(kept)))
    vis = [f for f in res[1] if ZWE not in unS(f[0])]
    if ref[0] != 0 or vis != [f for f in ref[1] if ZWE not in unS(f[0])]:
        return ("ANSI(%r): the visible fragments differ from those of %r (the same without ESC c / zero-width regions / "
                "unsupported sequences): %s vs %s" % ("".join(toks), "".join(kept), short(to_tuples(vis), 160),
                                                     short(to_tuples(ref[1]) if ref[0] == 0 else ref, 160)),
                {"op": "ANSI", "family": "sequence-state"})
    return None


# --------------------------------------------------------------------------
# case generation

def words(alpha, maxlen):
    for n in range(maxlen + 1):
        for t in itertools.product(alpha, repeat=n):
            yield "".join(t)


def gen_cases(chk):
    rng = chk.rng
    thorough = chk.tier == "thorough"
    lim = sys.get_int_max_str_digits()
    cases, meta = [], []
    dist = {}

    def add(kind, case, m=None):
        cases.append(case)
        meta.append(m)
        dist[kind] = dist.get(kind, 0) + 1
        if case and case[0] == 7:
            # the values-as-data specification on the same template and values; the implementation result is the sibling's
            cases.append([13, case[1], case[2]])
            meta.append(dict(m or {}, same_as_prev=True))
            k13 = "HTML-values-as-data/" + kind.split("/", 1)[-1]
            dist[k13] = dist.get(k13, 0) + 1
        if case and case[0] == 9:
            cases.append([14, case[1]])
            meta.append(None)
            k14 = "ANSI-sequence/" + kind.split("/", 1)[-1]
            dist[k14] = dist.get(k14, 0) + 1

    # ---- fragments
    ftexts = ["", "a", "\n", "a\n", "\nb", "a\nb", "\n\n", "ab"]
    fstyles = ["", "s", ZWE]
    frag_alpha = [[S(st), S(tx), rest] for st in fstyles for tx in ftexts for rest in ([], [7])]
    maxf = 3 if thorough else 2
    for n in range(maxf + 1):
        for t in itertools.product(frag_alpha, repeat=n):
            if n == 3 and not thorough:
                continue
            add("split_lines/exhaustive", [1, list(t)])
            if n < 3 or rng.random() < 0.2:
                add("helpers/exhaustive", [2, S(rng.choice(["", "", "class:x", "y " + ZWE])), list(t)])
    for _ in range(30000 if thorough else 3000):
        frs = []
        for _ in range(rng.choice([0, 1, 2, 3, 4, 5, 8])):
            tx = "".join(rng.choice(["a", "b", "\n", "\n", "\xe9", "\u754c", " ", "\r"]) for _ in range(rng.choice([0, 1, 2, 3, 6])))
            frs.append([S(rng.choice(["", "bold", "class:a,b fg:#ff0000", ZWE, "x " + ZWE + " y", "[ZeroWidthEscape"])),
                        S(tx), rng.choice([[], [], [1], [2, 3]])])
        add("split_lines/random", [1, frs])
        add("helpers/random", [2, S(rng.choice(["", "class:q", "reverse"])), frs])

    # ---- ANSI strings
    for w in words(ANSI_ALPHA, 5 if thorough else 4):
        add("ANSI/exhaustive<=%d" % (5 if thorough else 4), [3, S(w)])
    if not thorough:
        for _ in range(12000):
            add("ANSI/length5-sample", [3, S("".join(rng.choice(ANSI_ALPHA) for _ in range(5)))])
    for w in words(ANSI_ALPHA, 4):
        add("ANSI-plain-text/exhaustive<=4", [9, S(w)])
    for s in ANSI_SPECIALS:
        add("ANSI/special", [3, S(s)])
        add("ANSI-plain-text/special", [9, S(s)])
    if lim:
        for s in ["\x1b[" + "1" * lim + "mX", "\x1b[" + "1" * (lim + 1) + "mX", "\x9b" + "0" * (lim + 1) + "CX",
                  "\x1b[5;" + "7" * (lim + 7) + ";1mX"]:
            add("ANSI/digit-limit", [3, S(s)])
    for _ in range(40000 if thorough else 4000):
        toks = gen_ansi_tokens(rng, rng.randint(1, 9))
        s = "".join(toks)
        if rng.random() < 0.15 and s:
            s = s[:rng.randint(0, len(s))]        # truncated
        add("ANSI/token-grammar", [3, S(s)])
        add("ANSI-plain-text/token-grammar", [9, S(s)])
    for n in range((4 if thorough else 3) + 1):
        for t in itertools.product(SEQ_TOKENS, repeat=n):
            add("ANSI/token-sequences<=%d" % (4 if thorough else 3), [3, S("".join(t))])
            add("ANSI-sequence/token-sequences<=%d" % (4 if thorough else 3), [14, S("".join(t))], {"toks": list(t)})
    for _ in range(20000 if thorough else 2000):
        add("ANSI/random", [3, S("".join(rng.choice(ANSI_ALPHA + ["0", "9", "5", "8", "2", "4", " ", "\u0663", "H"])
                                             for _ in range(rng.randint(6, 24))))])

    # ---- ANSI templates
    fixed_t = [["a", "b"], ["\x1b[31mX", "Y\x1b[0mZ"], ["", ""], ["\x01p\x02k", "t"], ["\x9b1;4m", "\x1b[12Cz"],
               ["\x1b[38;5;9ma", "b", "c"], ["100%", "{ok}"]]
    vmax = 3 if thorough else 2
    for parts in fixed_t:
        for v in words(VAL_ALPHA, vmax):
            vals = [v] * (len(parts) - 1) if len(parts) == 2 else [v, v[::-1]]
            add("ANSI-template/exhaustive-values<=%d" % vmax, [4, [S(p) for p in parts], [S(x) for x in vals]],
                {"holes": ["t"] * len(vals)})
    for _ in range(20000 if thorough else 2500):
        toks = gen_ansi_tokens(rng, rng.randint(1, 7), holes_ok=3)
        parts = to_parts(toks)
        vals = ["".join(rng.choice(VAL_ALPHA) for _ in range(rng.choice([0, 1, 2, 3, 5]))) for _ in parts[1:]]
        add("ANSI-template/random", [4, [S(p) for p in parts], [S(v) for v in vals]], {"holes": ["t"] * len(vals)})

    # ---- format specs (width / alignment / precision): the value formatted by the spec, then inert text
    spec_vals = list(words(["a", "<", "&", '"', "'", ">", "\x1b"], 2)) + ["a<b>c", "&&&&", "x<y>z", "<&>", "a&b", "\x9b31m", "\xe9<\u754c", ZWE]
    if thorough:
        spec_vals += [w for w in words(["a", "<", "&", '"', "'"], 4) if len(w) >= 3]
    for kk, tpls in ((4, [(["a", "b"], ["t"]), (["\x1b[31m", "|\x1b[0m", "."], ["t", "t"])]),
                     (7, [(["<b>", "</b>|"], ["t"]), (["", ""], ["t"]), (["<i>", "-", "</i> tail"], ["t", "t"]),
                          (["<style fg=\"", "\">x</style>"], ["d"])])):
        for parts, holes in tpls:
            for sp in FORMAT_SPECS:
                if kk == 7 and "<" in sp:
                    continue            # an HTML template is itself parsed as XML: it cannot contain this spec
                for v in spec_vals:
                    raw = [v] if len(holes) == 1 else [v, v[::-1]]
                    sp2 = FORMAT_SPECS[(FORMAT_SPECS.index(sp) + 3) % len(FORMAT_SPECS)]
                    specs = [sp] if len(holes) == 1 else [sp, ".3" if (kk == 7 and "<" in sp2) else sp2]
                    vals = [format(r, q) for r, q in zip(raw, specs)]
                    add("%s-template/format-spec" % ("ANSI" if kk == 4 else "HTML"),
                        [kk, [S(p) for p in parts], [S(x) for x in vals]], {"holes": holes, "specs": specs, "raw": raw})

    # ---- % conversions other than %s, on non-string values: the conversion's OUTPUT, escaped, as inert text
    pconv = [("%d", 5), ("%d", -12), ("%5d", 42), ("%-4d", 7), ("%05.1f", 3.14159), ("%x", 255), ("%X", 255), ("%c", 65), ("%c", "<"),
             ("%r", "<&"), ("%r", 5), ("%s", 5), ("%s", None), ("%10s", 3.5), ("%e", 12345.678), ("%g", 0.5), ("%i", 3), ("%o", 8),
             ("%a", "\xe9<"), ("%s", "plain"), ("%.2s", 12345), ("%s", ZWE), ("%20s", ZWE)]
    for kk, tpls in ((4, [["a", "b"], ["\x1b[31m", "|\x1b[0m"]]), (7, [["<b>", "</b>|"], ["", ""], ["<style fg=\"", "\">x</style>"]])):
        for parts in tpls:
            for sp, rv in pconv:
                val = sp % (rv,)
                add("%s-template/percent-conversions" % ("ANSI" if kk == 4 else "HTML"),
                    [kk, [S(p) for p in parts], [S(val)]],
                    {"holes": ["d" if "fg=" in parts[0] else "t"], "pspecs": [sp], "raw": [rv]})

    # ---- escape functions
    esc_alpha = sorted(set(VAL_ALPHA + HTML_VAL_ALPHA + ["\x00", "\ufffe", "\x7f", "\x85"]))
    for w in words(esc_alpha, 2):
        add("escape/exhaustive<=2", [5, S(w)])
    for _ in range(30000 if thorough else 3000):
        add("escape/random", [5, S("".join(rng.choice(esc_alpha) for _ in range(rng.randint(3, 12))))])

    # ---- HTML documents from the grammar, and near misses
    for _ in range(25000 if thorough else 3000):
        tree = gen_tree(rng, 3, [], 0)
        s = "".join(render_tree(tree))
        add("HTML/grammar", [6, S(s)], {"tree": tree})
        if rng.random() < 0.5 and s:
            i = rng.randrange(len(s))
            mut = rng.choice([s[:i] + s[i + 1:], s[:i] + rng.choice(HTML_RAW_ALPHA + ["\x1b", "\r", "\t", "]]>"]) + s[i:],
                              s[:i] + s[i:][::-1][:3] + s[i:]])
            add("HTML/mutated", [6, S(mut)])
    for sdoc in HTML_SPECIAL_DOCS:
        add("HTML/special", [6, S(sdoc)])
    for w in words(HTML_RAW_ALPHA, 5 if thorough else 4):
        add("HTML/raw-exhaustive<=%d" % (5 if thorough else 4), [6, S(w)])

    # ---- HTML templates
    fixed_h = [(["<b>", "</b>"], ["t"]), (["", ""], ["t"]), (["<style fg=\"", "\">x</style>y"], ["d"]),
               (["<style fg='", "'>x</style>y"], ["s"]), (["<i>a", "<b>", "</b></i>"], ["t", "t"]),
               (["<u bg=\"", "\" fg='ansired'>", "</u>&amp;"], ["d", "t"])]
    for parts, holes in fixed_h:
        for v in words(HTML_VAL_ALPHA, vmax if len(holes) == 1 else 2):
            vals = [v] if len(holes) == 1 else [v, v[::-1]]
            add("HTML-template/exhaustive-values", [7, [S(p) for p in parts], [S(x) for x in vals]], {"holes": holes})
    for v in HTML_SPECIAL_VALUES:
        for parts, holes in fixed_h[:4]:
            add("HTML-template/special-values", [7, [S(p) for p in parts], [S(v)]], {"holes": holes})
    for v in words(BREAKOUT_ALPHA, 5 if thorough else 4):
        add("HTML-template/single-quote-breakout", [7, [S("<style fg='"), S("'>x</style>")], [S(v)]], {"holes": ["s"]})
    for _ in range(20000 if thorough else 2500):
        holes = []
        tree = gen_tree(rng, 3, holes, rng.choice([1, 2, 3, 4]))
        parts = to_parts(render_tree(tree))
        vals = ["".join(rng.choice(HTML_VAL_ALPHA) for _ in range(rng.choice([0, 1, 1, 2, 3, 5]))) for _ in holes]
        if rng.random() < 0.5:
            vals = [re.sub("[ \n\xa0'\x1b\x01\x02]", "a", v) for v in vals]      # a benign-ish half
        add("HTML-template/random", [7, [S(p) for p in parts], [S(v) for v in vals]], {"holes": holes})

    # ---- fragment_list_width (per-character widths from the running wcwidth) and PygmentsTokens
    from prompt_toolkit.utils import get_cwidth
    wide = ["a", " ", "\u754c", "\xe9", "e\u0301"[1], "\x00", "\x1b", "\n", "\U0001f600", "\u200b", "\t"]
    for _ in range(8000 if thorough else 1200):
        frs = [[S(rng.choice(["", "bold", ZWE, "x " + ZWE])), S("".join(rng.choice(wide) for _ in range(rng.randint(0, 4)))), rng.choice([[], [1]])]
               for _ in range(rng.randint(0, 4))]
        chars = sorted(set(c for f in frs for c in f[1]))
        add("fragment_list_width/random", [11, [[c, get_cwidth(chr(c))] for c in chars], frs])
    names = ["Name", "Exception", "Keyword", "Literal", "String", "Z", "ZeroWidthEscape", "[ZeroWidthEscape]", "a_b", "X1"]
    for _ in range(4000 if thorough else 600):
        toks = [[[S(rng.choice(names)) for _ in range(rng.randint(0, 3))], S("".join(rng.choice(["a", "\n", " ", "\u754c"]) for _ in range(rng.randint(0, 3))))]
                for _ in range(rng.randint(0, 4))]
        add("PygmentsTokens/random", [12, toks])

    # ---- _ExplodedList: assignment by index / slice, append, extend, +=
    fr3 = [[S("a"), S("xy"), []], [S("b"), S("z"), [4]]]
    items = [[S("c"), S("Q"), []], [S("c"), S("QR"), [1]], [S(""), S(""), []], [S(ZWE), S("\n"), []]]
    for base in ([], fr3[:1], fr3):
        n = sum(len(f[1]) for f in base)
        for it in items:
            for i in range(-n - 2, n + 3):
                add("_ExplodedList/exhaustive", [10, base, [[1, i, it]]])
            add("_ExplodedList/exhaustive", [10, base, [[3, it]]])
            add("_ExplodedList/exhaustive", [10, base, [[4, [it, it]]]])
            add("_ExplodedList/exhaustive", [10, base, [[5, [it]]]])
            for lo in range(-n - 1, n + 2):
                for hi in range(-n - 1, n + 2):
                    add("_ExplodedList/exhaustive", [10, base, [[2, lo, hi, [it]]]])
    for _ in range(6000 if thorough else 800):
        base = [[S(rng.choice(["", "s", ZWE])), S("".join(rng.choice("ab\n") for _ in range(rng.randint(0, 3)))), rng.choice([[], [2]])]
                for _ in range(rng.randint(0, 3))]
        ops = []
        for _ in range(rng.randint(1, 5)):
            it = [S(rng.choice(["", "k"])), S("".join(rng.choice("pq") for _ in range(rng.randint(0, 3)))), rng.choice([[], [9]])]
            r = rng.random()
            if r < 0.4:
                ops.append([1, rng.randint(-5, 5), it])
            elif r < 0.6:
                ops.append([2, rng.randint(-5, 5), rng.randint(-5, 5), [it] * rng.randint(0, 2)])
            elif r < 0.75:
                ops.append([3, it])
            elif r < 0.9:
                ops.append([4, [it] * rng.randint(0, 2)])
            else:
                ops.append([5, [it]])
        add("_ExplodedList/random", [10, base, ops])

    # ---- every kind of AnyFormattedText, each object converted three times
    def rand_frs(n=3):
        return [[S(rng.choice(["", "bold", "class:a", ZWE])), S("".join(rng.choice(["a", "b", "\n", " ", "\u754c"]) for _ in range(rng.choice([0, 1, 2, 4])))),
                 rng.choice([[], [], [3]])] for _ in range(rng.randint(0, n))]

    def rand_fv(depth):
        r = rng.random()
        if depth <= 0 or r < 0.45:
            return rng.choice([["none"], ["str", rng.choice(["", "x", "a\nb", "{}", "<b>"])], ["list", rand_frs(), rng.randint(0, 1)],
                               ["magic", rand_frs()], ["ansi", rng.choice(["", "pl", "a b\n"])], ["html", rng.choice(["", "t", "x y"])],
                               ["other", rng.choice([5, -1, 0])]][:7 if rng.random() < 0.15 else 6])
        if r < 0.6:
            return ["call", rand_fv(depth - 1)]
        if r < 0.85:
            return ["merge", [rand_fv(depth - 1) for _ in range(rng.choice([0, 1, 2, 2, 3, 4]))]]
        n = rng.choice([0, 1, 2, 3])
        # never "{0}" here: Template.__init__ refuses it when the OBJECT is built, before any conversion
        text = "".join(rng.choice(["{}", "a", " ", "{", "}", "-", "0", "\n"]) for _ in range(rng.randint(0, 5)))
        text = text.replace("{0}", "{1}")
        want = text.count("{}") if rng.random() < 0.85 else n
        return ["template", text, [rand_fv(depth - 1) for _ in range(want)]]
    leaves = [["none"], ["str", ""], ["str", "s\nt"], ["list", [[S("bold"), S("L"), []]], 0], ["list", [[S(""), S("F\n"), [7]]], 1],
              ["magic", [[S(ZWE), S("zw"), []], [S("u"), S("M"), []]]], ["ansi", "an"], ["html", "ht"], ["other", 5]]
    shapes = []
    for a in leaves:
        shapes += [a, ["call", a], ["call", ["call", a]], ["merge", [a]], ["template", "<{}>", [a]]]
        for b in leaves:
            shapes += [["merge", [a, b]], ["merge", [["merge", [a]], ["call", b]]], ["template", "{}|{}", [a, b]],
                       ["call", ["merge", [a, b]]]]
    shapes += [["merge", []], ["template", "", []], ["template", "{}", []], ["template", "no holes", [["str", "x"]]], ["template", "{0}", []], ["template", "a{0}{}", [["str", "x"]]]]
    # (Template("...{0}...") cannot be constructed: only at top level, where construction order does not matter)
    for t in shapes:
        for st, ac in (("", 0), ("class:z", 0), ("", 1)):
            add("convert/exhaustive-shapes", [8, S(st), ac, fv_sx(t)], {"tree": t})
    for _ in range(20000 if thorough else 2500):
        t = rand_fv(3)
        add("convert/random", [8, S(rng.choice(["", "", "reverse", "class:a " + ZWE])), rng.randint(0, 1), fv_sx(t)], {"tree": t})

    # ---- malformed cases: the model must answer bad_case, never an implementation result
    for bad in ([], [0], [1, 5], [3], [3, [1, 1], S("a")], [4, [S("a")], [S("b")]], [7, [], []], [19, S("a")], [8, S(""), 2, [0]], [8, S(""), 0, [5, [[9]]]], [3, [1, 1, 1, 1, 1, 1], S("a")],
                [1, [[S("a"), S("b")]]], [2, S(""), [[S("a"), 5, []]]]):
        add("malformed", bad, {"malformed": True})
    return cases, meta, dist


# --------------------------------------------------------------------------

def oracle_case(case, res, m):
    """-> None | (what, tags)"""
    k = case[0]
    if k == 1:
        bad = oracle_split(case[1], res)
        return bad and ("%s: %s" % (describe_case(case), bad[0]), {"op": "split_lines", "family": bad[1]})
    if k == 2:
        bad = oracle_helpers(case[1], case[2], res)
        return bad and ("%s: %s" % (describe_case(case), bad[0]), {"op": "fragment-helpers", "family": bad[1]})
    if k == 3:
        bad = oracle_ansi(unS(case[1]), res)
        return bad and (bad[0], dict(bad[1], op="ANSI"))
    if k == 14:
        return oracle_ansi_seq(m["toks"], res) if m and m.get("toks") else None
    if k == 5:
        return oracle_escape(unS(case[1]), res)
    if k in (4, 7):
        from prompt_toolkit.formatted_text import ANSI, HTML
        cls, kind = (ANSI, "ANSI") if k == 4 else (HTML, "HTML")
        parts = [unS(p) for p in case[1]]
        vals = [unS(v) for v in case[2]]
        cache = {tuple(vals): res}

        def run(p, v):
            if tuple(v) not in cache:
                cache[tuple(v)] = run_template(cls, p, v)
            return cache[tuple(v)]
        return oracle_inert(kind, parts, vals, m["holes"], run, m)
    if k == 11:
        from prompt_toolkit.utils import get_cwidth
        want = sum(get_cwidth(chr(c)) for f in case[2] if ZWE not in unS(f[0]) for c in f[1])
        if res != want:
            return ("fragment_list_width(%s) = %r, expected the width of its plain text %r" % (short(to_tuples(case[2]), 120), res, want),
                    {"op": "fragment_list_width", "family": "width"})
        return None
    if k == 12:
        if not (isinstance(res, list) and all(isinstance(f, list) and len(f) == 3 for f in res)):
            return ("PygmentsTokens conversion raised or differed on repetition: %s" % short(res, 160), {"op": "PygmentsTokens", "family": "raises"})
        if "".join(unS(f[1]) for f in res if ZWE not in unS(f[0])) != "".join(unS(t[1]) for t in case[1]):
            return ("PygmentsTokens(%s): plain text differs from the token texts" % short(case[1], 120), {"op": "PygmentsTokens", "family": "visible-text"})
        return None
    if k == 10:
        return oracle_exploded(case[1], case[2], res)
    if k == 9:
        s = unS(case[1])
        if not (isinstance(res, list) and len(res) == 2 and isinstance(res[0], list)):
            return ("to_plain_text(ANSI(%r)) raised" % s[:60], {"op": "ANSI", "family": "parse-raises", "cause": ansi_raise_cause(s)})
        ev, ez, _ = ansi_expected(s)
        if (unS(res[0]), [unS(z) for z in res[1]]) != (ev, ez):
            return ("to_plain_text(ANSI(%r)) = %r / zero-width %r, expected %r / %r" % (s[:60], unS(res[0])[:60], res[1][:3], ev[:60], ez[:3]),
                    {"op": "ANSI", "family": "visible-text"})
        return None
    if k == 8:
        inp = "to_formatted_text(%s, style=%r, auto_convert=%r)" % (short(m["tree"], 160), unS(case[1]), bool(case[2]))
        if res and res[0] == 95:
            return ("%s: converting the same object again gives something else: %s" % (inp, short(res[1:], 240)),
                    {"op": "to_formatted_text", "family": "repeat-differs"})
        if res and res[0] == 94:
            return ("%s: a fragment list returned earlier changed afterwards: %s -> %s" % (inp, short(res[1], 120), short(res[2], 120)),
                    {"op": "to_formatted_text", "family": "returned-list-changed"})
        want = fv_text(m["tree"])
        if m["tree"][0] == "other":
            want = ("%s" % (m["tree"][1],)) if case[2] else None
        if want is None:
            if res[0] == 0:
                return ("%s: expected an exception, got %s" % (inp, short(res, 120)), {"op": "to_formatted_text", "family": "accepts-invalid"})
            return None
        if res[0] != 0:
            return ("%s raised (%r)" % (inp, res), {"op": "to_formatted_text", "family": "raises"})
        st = unS(case[1])
        got = "".join(unS(f[1]) for f in res[1] if ZWE not in unS(f[0]))
        if ZWE in st:
            want = ""
        if got != want:
            return ("%s: plain text %r, expected %r" % (inp, got, want), {"op": "to_formatted_text", "family": "visible-text"})
        return None
    if k == 6 and m and "tree" in m:
        exp = expected_html(m["tree"])
        s = unS(case[1])
        if exp == "ValueError":
            if res != [1]:
                return ("HTML(%r): expected the fg/bg space ValueError, got %r" % (s, res), {"op": "HTML", "family": "space-guard"})
            return None
        if res[0] != 0:
            return ("HTML(%r) raised (%r) on a document of the template grammar" % (s, res), {"op": "HTML", "family": "raises"})
        got = [(unS(a), unS(b)) for a, b, _ in res[1]]
        plain = "".join(t for st, t in got if ZWE not in st)          # what to_plain_text gives
        if plain != "".join(t for _, t in exp):
            marker = ZWE in s and "".join(t for _, t in got) == "".join(t for _, t in exp)
            return ("HTML(%r): plain text %r, expected %r%s" % (s, plain, "".join(t for _, t in exp),
                                                                " (an fg/bg/color attribute containing the marker turns the element's text into zero-width raw output)" if marker else ""),
                    {"op": "HTML", "family": "attr-style-marker" if marker else "visible-text"})
        if got != exp:
            return ("HTML(%r): fragments %r, expected %r" % (s, got, exp), {"op": "HTML", "family": "styles"})
    return None


def nontrivial(case, res):
    k = case[0] if case and isinstance(case[0], int) else 0
    if k == 1:
        return isinstance(res, list) and len(res) > 1
    if k == 2:
        return isinstance(res, list) and len(res) == 4 and len(res[2]) > 0
    if k in (3, 4, 6, 7, 8, 13, 14):
        return isinstance(res, list) and len(res) == 2 and res[0] == 0 and len(res[1]) > 0
    if k == 9:
        return isinstance(res, list) and len(res) == 2 and res[0] != case[1]
    if k == 10:
        return isinstance(res, list) and any(isinstance(r, list) and len(r) > 0 for r in res)
    if k == 11:
        return isinstance(res, int) and res > 0
    if k == 12:
        return isinstance(res, list) and len(res) > 0
    if k == 5:
        return isinstance(res, list) and len(res) == 2 and (res[0] != case[1] or res[1] != case[1])
    return False


def short(x, n=60):
    r = repr(x)
    return r if len(r) <= n else r[:n] + "..."


def describe_case(case):
    try:
        k = case[0]
        if k in (1,):
            return "split_lines(%s)" % short(to_tuples(case[1]), 120)
        if k == 2:
            return "helpers(style=%r, %s)" % (unS(case[1]), short(to_tuples(case[2]), 120))
        if k in (3, 5, 6, 9, 14):
            return "%s(%s)" % (OPN[k], short(unS(case[1]), 120))
        if k == 11:
            return "fragment_list_width(%s)" % short(to_tuples(case[2]), 140)
        if k == 12:
            return "PygmentsTokens(%s)" % short(case[1], 140)
        if k == 10:
            return "_ExplodedList(%s) ops %s" % (short(to_tuples(case[1]), 80), short(case[2], 120))
        if k == 8:
            return "to_formatted_text(<value %s>, style=%r, auto_convert=%r)" % (short(case[3], 100), unS(case[1]), bool(case[2]))
        if k in (4, 7, 13):
            tm, tf = templates_for([unS(p) for p in case[1]])
            return "%s(%s) %% %s" % ("ANSI" if k == 4 else "HTML", short(tm, 100), short(tuple(unS(v) for v in case[2]), 100))
    except Exception:  # noqa
        pass
    return short(case, 160)


def load_corpus_with_meta():
    """corpus/C18/*.json: {"case": ..., "meta": ...}; kinds 4/6/7/8 need their meta (holes / tree) for the oracle,
    so a corpus file of such a kind without it is refused rather than silently run without an oracle."""
    d = os.path.join(VERIF, "corpus", PROP)
    cs, ms = [], []
    if os.path.isdir(d):
        for f in sorted(os.listdir(d)):
            if f.endswith(".json"):
                j = json.load(open(os.path.join(d, f)))
                c = sx_norm(j["case"])
                m = j.get("meta")
                if c and c[0] in (4, 7, 8, 13) and m is None:
                    raise SystemExit("corpus file %s: a case of kind %r needs its meta" % (f, c[0]))
                cs.append(c)
                ms.append(m)
    return cs, ms


def main(tier):
    chk = Check(PROP, tier)
    pr = chk.proofs("Props/C18.v", tables=TABLES)
    okm, logm = build_model("c18", "Extract/ExC18.v", "run_C18", tables=TABLES)
    if not okm:
        chk.violation("tie", "model does not build: " + logm[-400:], {"kind": "model-build"}, {"log": logm[-3000:]}, no_input=True)
        return chk.finish()

    # The model follows the code that is in /repo now (all six C18 repairs).  The probe is only a
    # consistency check: a /repo in which one of the repaired functions behaves like the pinned
    # snapshot again is reported (and the oracle below supplies the failing inputs).
    variant = probe_cfg()
    chk.coverage["variant_probe"] = variant
    if variant != [1] * 8:
        names = ["ansi_escape neutralises \\x9b \\001 \\002", "CSI parameters: ASCII digits, bounded int", "html_escape escapes '",
                 "html_escape neutralises characters XML cannot carry", "zero-width region returns to the top of the loop",
                 "fg/bg guard rejects every whitespace character", "fg/bg guard rejects '['",
                 "html_escape writes \\r as &#13;"]
        lost = [n for n, b in zip(names, variant) if not b]
        chk.violation("tie", "/repo no longer behaves like the repaired code the model follows: " + "; ".join(lost),
                      {"kind": "variant-probe", "lost": ",".join(str(i) for i, b in enumerate(variant) if not b)},
                      {"probe": variant, "expected": [1] * 8, "lost": lost,
                       "failing_input": "see the other replay files of this run"}, no_input=True)
    cases, meta, dist = gen_cases(chk)
    corpus, corpus_meta = load_corpus_with_meta()
    cases = corpus + cases
    meta = corpus_meta + meta
    impl_results = []
    oracle_bad = set()
    skipped_unusable = 0
    for i, (c, m) in enumerate(zip(cases, meta)):
        if m and m.get("malformed"):
            impl_results.append(["MALFORMED"])
            chk.count_case(c, False)
            continue
        if m and m.get("same_as_prev"):
            impl_results.append(impl_results[-1])        # kind 13: the kind-7 sibling's run (oracle already applied to it)
            chk.count_case(c, nontrivial(c, impl_results[-1]))
            continue
        res = sx_norm(impl_case(c, m))
        impl_results.append(res)
        chk.count_case(c, nontrivial(c, res))
        try:
            bad = oracle_case(c, res, m) if (m is not None or c[0] not in (4, 6, 7, 8)) else None
        except Hang:
            bad = ("implementation hung", {"op": OPN.get(c[0], "?"), "family": "hang"})
        if bad:
            oracle_bad.add(i)
            what, tags = bad
            if m and m.get("specs"):
                what += " [format specs %r applied to raw values %r]" % (m["specs"], m["raw"])
            chk.violation("oracle", what, tags, {"case": c, "meta": m, "observed": res, "input": describe_case(c),
                                                "how": "see harness/c18.py impl_case: the real ANSI/HTML/split_lines on this input"})
        if i % 4999 == 0:
            chk.sample({"input": describe_case(c), "impl_result": short(res, 200)})
    chk.coverage["input_distribution"] = dict(dist, corpus=len(corpus))

    # the model answers Err 3 outside its XML subset: those cases are not compared
    model_results = run_model("c18", cases)
    cmp_cases, cmp_impl, cmp_idx = [], [], []
    outside = no_claim = claimed = 0
    for i, (c, a, mm, m) in enumerate(zip(cases, impl_results, model_results, meta)):
        if m and m.get("malformed"):
            if mm != [-999]:
                chk.violation("tie", "model accepted a malformed case %r" % (c,), {"kind": "malformed"}, {"case": c, "model": mm}, no_input=True)
            continue
        if mm == [3]:
            outside += 1
            continue
        if c and c[0] == 13:
            if mm == [5]:
                no_claim += 1                # a hole the specification makes no claim about
                continue
            claimed += 1
        cmp_cases.append(c)
        # [96, reference, %-conversion result]: the oracle has reported the %-conversion defect; the model
        # (template[escape(format(v, spec))]) is compared with the reference all format() variants agreed on
        cmp_impl.append(a[1] if (isinstance(a, list) and len(a) == 3 and a[0] in (96, 93)) else a)
        cmp_idx.append(i)
    chk.coverage["outside_modelled_xml_subset"] = outside
    chk.coverage["values_as_data_spec"] = {"claimed_and_compared": claimed, "no_claim": no_claim}
    if claimed == 0 or claimed < no_claim:
        chk.violation("tie", "the values-as-data specification made a claim on only %d of %d template cases" % (claimed, claimed + no_claim),
                      {"kind": "spec-vacuous"}, {"claimed": claimed, "no_claim": no_claim}, no_input=True)

    def tagger(c, a, m):
        return {"op": OPN.get(c[0], "?")}
    _, nbad = correspondence(chk, "c18", cmp_cases, cmp_impl, tagger,
                             describe=lambda c, a, m: "%s impl=%s model=%s" % (describe_case(c), short(a, 160), short(m, 160)),
                             oracle_failed=lambda j: cmp_idx[j] in oracle_bad)

    k = 1500 if chk.tier == "thorough" else 300
    pool = [j for j in range(len(cmp_cases)) if len(sx_dump(cmp_cases[j])) < 4000]
    idx = sorted(chk.rng.sample(pool, min(k, len(pool))))
    pairs = [(cmp_cases[j], cmp_impl[j]) for j in idx]
    bad, logs = vm_crosscheck(PROP, "run_C18", "Model.C18_Run", pairs)
    chk.coverage["vm_compute_crosschecked"] = len(pairs)
    model_bad = set(j for j in idx if cmp_impl[j] != model_results[cmp_idx[j]])
    vm_bad = set(idx[b] for b in bad if isinstance(b, int))
    if any(not isinstance(b, int) for b in bad):
        chk.violation("tie", "vm_compute cross-check failed to run: " + (logs[0] if logs else ""), {"kind": "vm"}, {"log": logs}, no_input=True)
    if vm_bad != model_bad:
        d = sorted(vm_bad ^ model_bad)[:5]
        chk.violation("tie", "extracted model and in-Coq evaluation disagree on %r" % [describe_case(cmp_cases[j]) for j in d],
                      {"kind": "extraction"}, {"cases": [cmp_cases[j] for j in d]}, no_input=True)

    proof_gate(chk, pr)
    chk.coverage["rule"] = (
        "cases are run on the real split_lines/fragment helpers/ANSI/HTML/ansi_escape/html_escape (both the %% operator and format()) and on the Coq "
        "model; exhaustive: fragment lists <= %d fragments over 48 fragments, ANSI strings of length <= %d over the 12-letter alphabet "
        "%r, values of length <= %d over %d letters in 7 ANSI and 6 HTML templates, single-quote breakout values <= %d over %r, raw HTML "
        "strings <= %d over %r; plus token-grammar / tree-grammar random streams, mutated documents and a malformed stream; "
        "non-trivial = the call produced at least one fragment (split: more than one line; escape: changed the value); "
        "distinct by hash of the case" % (3 if thorough_(chk) else 2, 5 if thorough_(chk) else 4, ANSI_ALPHA, 3 if thorough_(chk) else 2,
                                          len(VAL_ALPHA), 5 if thorough_(chk) else 4, BREAKOUT_ALPHA, 5 if thorough_(chk) else 4, HTML_RAW_ALPHA))
    chk.assumptions += [
        "expat/minidom are outside the model: HTML is modelled over an XML subset (ASCII names, quoted attributes, five entities and numeric character references, "
        "Char production, line-end/attribute normalisation); documents outside it (model answer 3) are not compared: %d this run" % outside,
        "str.format/Formatter.vformat and the % operator are outside the model: the theorems are about template[escape v]; that both "
        "engines place the escaped value unchanged is exercised by running both on every template case; for fields with a width/"
        "alignment/precision spec the model is given format(value, spec) computed by CPython and the engines get the raw value",
        "str.isdigit/int() are modelled from tables regenerated from the running CPython (decimal runs, non-decimal digits, int digit limit)",
        "mouse handlers / tuple tails are opaque ids carried unchanged",
        "the model runs cfg_now only: the cfg_pinned branches (behind the `_pinned_refuted` theorems) are exercised by no case of this run; "
        "the `*_spec` / `*_listsem` definitions are specifications (escape each conversion's output; plain-list item assignment), tied to no code by nature",
        "C18_html_whole_template / C18_html_plain_text are about normal-form templates; templates over arbitrary literal markup are covered by "
        "C18_html_any_template / C18_html_values_as_data (specification run against the real code as case kind 13; no claim for a hole outside a data "
        "position or a value with \\t \\n at an attribute hole: %d of %d this run) and C18_html_never_zero_width (every markup string)" % (no_claim, claimed + no_claim),
        "wcwidth (per-character widths sent with each case) and the % engine (an arbitrary conversion function) are parameters of the theorems",
    ]
    return chk.finish()


def thorough_(chk):
    return chk.tier == "thorough"


def replay(data):
    rep = data["replay"]
    case = rep.get("case")
    if case is None:
        print("no case in replay file")
        return 2
    m = rep.get("meta")
    res = sx_norm(impl_case(case, m))
    print("input:   " + describe_case(case) + ((" [format specs %r on raw values %r]" % (m["specs"], m["raw"])) if m and m.get("specs") else ""))
    print("result:  " + short(res, 400))
    rc = 0
    bad = None
    if m is not None or case[0] not in (4, 6, 7, 8):
        bad = oracle_case(case, res, m)
    if bad:
        print("ORACLE FAILS: %s  tags=%r" % bad)
        rc = 1
    else:
        print("oracle ok")
    mm = run_model("c18", [case])[0]
    if isinstance(res, list) and len(res) == 3 and res[0] in (96, 93):
        res = res[1]
    print("model agrees" if mm == res else ("model outside its XML subset" if mm == [3] else
                                            ("the values-as-data specification makes no claim here" if (mm == [5] and case[0] == 13) else
                                             "model differs: %s" % short(mm, 400))))
    return rc
