"""C03 - terminal input decoding (Vt100Parser).  Model: coq/Model/C03_Vt100Parser.v;
theorems: coq/Props/C03.v.

A case is a read/flush schedule: a list of ops, (0 data) = parser.feed(data),
(1) = parser.flush().  The result after each op: the key presses emitted by
that op, the coroutine's pending prefix (generator frame local), the paste flag
and the paste buffer."""
import codecs
import itertools
import errno
import os
import re

from common import *  # noqa

PROP = "C03"
TABLES = ["C03_AnsiSequences", "C03_Regexes"]
MODELS = [("c03", "Extract/ExC03.v", "run_C03_all4")]

ESC = "\x1b"
START = "\x1b[200~"
END = "\x1b[201~"
PROBES = ["a", "\x1b", "[", "~", "1", ";", "R", "M", "\n", "O", "<", "٣"]

# the oracle's own copies of the two recognisers (not imported from /repo)
O_CPR = re.compile(r"^\x1b\[\d+;\d+R\Z")
O_MOUSE = re.compile(r"^\x1b\[(<?[\d;]+[mM]|M...)\Z")


# --------------------------------------------------------------------------
# implementation runner

def _canon_key(k, KeysT, kid):
    if isinstance(k, KeysT):
        return [0, kid[k]]
    if isinstance(k, str) and len(k) == 1:
        return [1, ord(k)]
    return [2, S(str(k))]


class Impl:
    """Drives a real Vt100Parser (or a Vt100Input over a pipe)."""

    def __init__(self):
        from prompt_toolkit.input.vt100_parser import Vt100Parser
        from prompt_toolkit.keys import Keys
        self.Vt100Parser = Vt100Parser
        self.Keys = Keys
        self.kid = {k: i for i, k in enumerate(list(Keys))}

    def state(self, p):
        fr = p._input_parser.gi_frame
        prefix = fr.f_locals.get("prefix", "") if fr is not None else None
        # _paste_buffer does not exist before the first paste
        return prefix, bool(p._in_bracketed_paste), getattr(p, "_paste_buffer", "")

    def run(self, case):
        """-> (canonical result, trace); trace = [(op, prefix_before, events, prefix, in_paste, paste_buf, status)]"""
        keys = []
        p = self.Vt100Parser(keys.append)
        out, trace = [], []
        for op in case:
            n0 = len(keys)
            try:
                pre = self.state(p)[0]
            except Exception:  # noqa
                pre = None
            status = 0
            try:
                if op[0] == 0:
                    with_watchdog(lambda: p.feed(unS(op[1])), 5)
                else:
                    with_watchdog(lambda: p.flush(), 5)
            except Hang:
                status = 98
            except RecursionError:
                status = 97
            except StopIteration:
                status = 96
            except Exception:  # noqa
                status = 99
            if status:
                out.append([-status])
                trace.append((op, pre, None, None, None, None, status))
                break
            evs = [(kp.key, kp.data) for kp in keys[n0:]]
            prefix, inp, pb = self.state(p)
            if prefix is None:
                out.append([-95])
                trace.append((op, pre, evs, None, inp, pb, 95))
                break
            out.append([[[_canon_key(k, self.Keys, self.kid), S(d)] for k, d in evs], S(prefix), inp, S(pb), 0])
            trace.append((op, pre, evs, prefix, inp, pb, 0))
        return out, trace

    def run_pipe(self, byte_ops):
        """byte_ops: (0 bytes) write+read_keys, (1) flush_keys, through Vt100Input/PosixStdinReader."""
        from prompt_toolkit.input.vt100 import Vt100Input
        r, w = os.pipe()
        f = os.fdopen(r, "r", encoding="utf-8")
        Vt100Input._fds_not_a_terminal.add(r)
        out = []
        try:
            inp = Vt100Input(f)
            p = inp.vt100_parser
            for op in byte_ops:
                if op[0] == 0:
                    if op[1]:
                        os.write(w, bytes(op[1]))
                    kps = with_watchdog(lambda: inp.read_keys(), 5)
                else:
                    kps = with_watchdog(lambda: inp.flush_keys(), 5)
                prefix, ip, pb = self.state(p)
                pend = list(inp.stdin_reader._stdin_decoder.getstate()[0])
                out.append([[[_canon_key(kp.key, self.Keys, self.kid), S(kp.data)] for kp in kps], S(prefix), ip, S(pb), 0, pend])
        except Exception as e:  # noqa
            out.append([-99])
        finally:
            os.close(w)
            f.close()
        return out


    def regexes(self, s):
        """the four compiled regexes of /repo's vt100_parser on s"""
        from prompt_toolkit.input import vt100_parser as vp
        return [bool(vp._cpr_response_re.match(s)), bool(vp._mouse_event_re.match(s)),
                bool(vp._cpr_response_prefix_re.match(s)), bool(vp._mouse_event_prefix_re.match(s))]

    def decoder(self):
        """a fresh incremental decoder exactly as PosixStdinReader makes it"""
        from prompt_toolkit.input.posix_utils import PosixStdinReader
        if not hasattr(self, "_reader"):
            r, w = os.pipe()
            self._reader = PosixStdinReader(r)
            self._reader_fds = (r, w)
        return self._reader._stdin_decoder_cls(errors=self._reader.errors)

    ERR_MODES = ["surrogateescape", "ignore", "replace", "strict"]

    def run_reader(self, calls, mode=None):
        """calls: [(sel, rd)] with sel 0 ready / 1 not ready / 2 OSError, rd (0 bytes) / (1) OSError; select and os of
        posix_utils are replaced by stubs that produce exactly these outcomes.  mode: index in ERR_MODES = the errors=
        argument of the reader (None: the default); with a mode each step also says whether read() raised UnicodeDecodeError"""
        import types
        from prompt_toolkit.input import posix_utils as pu
        state = {"i": 0, "taken": []}

        def fake_select(r, w, x, timeout=None):
            sel = calls[state["i"]][0]
            if sel == 2:
                raise OSError(errno.EBADF, "injected")
            if sel == 3:
                raise InterruptedError(errno.EINTR, "injected")
            return (list(r), [], []) if sel == 0 else ([], [], [])

        def fake_read(fd, count):
            rd = calls[state["i"]][1]
            if rd[0] == 1:
                raise OSError(errno.EIO, "injected")
            if rd[0] == 2:
                raise BlockingIOError(errno.EAGAIN, "injected")
            if rd[0] == 3:
                raise InterruptedError(errno.EINTR, "injected")
            state["taken"] = list(rd[1])
            return bytes(rd[1])
        old_sel, old_os = pu.select, pu.os
        pu.select = types.SimpleNamespace(select=fake_select)
        pu.os = types.SimpleNamespace(read=fake_read)
        out = []
        try:
            rd = pu.PosixStdinReader(0) if mode is None else pu.PosixStdinReader(0, errors=self.ERR_MODES[mode])
            for i in range(len(calls)):
                state["i"] = i
                state["taken"] = []
                raised = False
                try:
                    text = with_watchdog(lambda: rd.read(), 5)
                except UnicodeDecodeError:
                    if mode is None:
                        raise
                    text, raised = "", True
                out.append([S(text), bool(rd.closed), list(rd._stdin_decoder.getstate()[0]), state["taken"]] + ([] if mode is None else [raised]))
        except Exception as e:  # noqa
            out.append([-99])
        finally:
            pu.select, pu.os = old_sel, old_os
        return out

    def reader_real_fd(self):
        """real descriptors: data, not ready, end of file (then closed for ever), closed descriptor (OSErrors)"""
        from prompt_toolkit.input.posix_utils import PosixStdinReader
        r, w = os.pipe()
        rd = PosixStdinReader(r)
        try:
            if rd.read() != "" or rd.closed:
                return "empty pipe: read() != '' or closed"
            os.write(w, b"a\xc3")
            if rd.read() != "a" or rd.closed:
                return "data 'a' + first byte of a 2-byte sequence: expected 'a'"
            os.write(w, b"\xa9")
            if rd.read() != "\xe9":
                return "second byte of the sequence: expected e-acute"
            os.close(w)
            w = None
            if rd.read() != "" or not rd.closed:
                return "end of file: expected '' and closed"
            if rd.read() != "" or not rd.closed:
                return "after end of file: expected '' and closed"
        finally:
            if w is not None:
                os.close(w)
            os.close(r)
        # (round 7) real error outcomes of os.read: EAGAIN on a non-blocking descriptor, EINTR
        import signal
        import types
        from prompt_toolkit.input import posix_utils as pu
        r, w = os.pipe()
        os.set_blocking(r, False)
        rd = PosixStdinReader(r)
        old_sel = pu.select
        try:
            if rd.read() != "" or rd.closed:
                return "non-blocking empty pipe: expected '' and not closed (select says not ready)"
            # select claims readiness (as after a race with another reader): the real os.read raises BlockingIOError(EAGAIN)
            pu.select = types.SimpleNamespace(select=lambda rl, wl, xl, timeout=None: (list(rl), [], []))
            try:
                os.read(r, 1)
                return "test setup: os.read on the empty non-blocking pipe did not raise"
            except BlockingIOError:
                pass
            if rd.read() != "" or rd.closed:
                return "real EAGAIN from os.read: expected '' and not closed, got closed=%r" % (rd.closed,)
            os.write(w, b"\xc3")
            if rd.read() != "" or rd.closed:
                return "first byte of a sequence after EAGAIN: expected '' and not closed"
            if rd.read() != "" or rd.closed or rd._stdin_decoder.getstate()[0] != b"\xc3":
                return "real EAGAIN with a byte pending: expected '' , not closed, byte kept (model: RdError decodes b'')"
            os.write(w, b"\xa9")
            if rd.read() != "\xe9" or rd.closed:
                return "sequence completed after EAGAIN: expected e-acute"
        finally:
            pu.select = old_sel
            os.close(r)
            os.close(w)
        # EINTR: a signal arrives while os.read blocks; the handler returns, CPython (PEP 475) retries the call, so
        # read() never sees InterruptedError: it returns the data written by the handler and stays open
        r, w = os.pipe()
        rd = PosixStdinReader(r)
        fired = []

        def on_alarm(signum, frame):
            fired.append(1)
            if len(fired) == 1:
                os.write(w, b"z")
            elif len(fired) > 40:
                raise RuntimeError("blocked os.read was not resumed")
        old_handler = signal.signal(signal.SIGALRM, on_alarm)
        old_sel = pu.select
        try:
            pu.select = types.SimpleNamespace(select=lambda rl, wl, xl, timeout=None: (list(rl), [], []))
            signal.setitimer(signal.ITIMER_REAL, 0.05, 0.05)
            try:
                t = rd.read()
            except Exception as e:  # noqa
                return "EINTR during a blocking os.read: read() raised %r" % (e,)
            finally:
                signal.setitimer(signal.ITIMER_REAL, 0, 0)
            if t != "z" or rd.closed or not fired:
                return "EINTR during a blocking os.read: expected the retried read to return 'z' and the reader open, got %r closed=%r signals=%d" % (t, rd.closed, len(fired))
        finally:
            signal.setitimer(signal.ITIMER_REAL, 0, 0)
            signal.signal(signal.SIGALRM, old_handler)
            pu.select = old_sel
            os.close(r)
            os.close(w)
        # end of file with an incomplete sequence pending: never delivered (C03_reader_eof_tail_undelivered)
        r, w = os.pipe()
        rd = PosixStdinReader(r)
        try:
            os.write(w, b"a\xc3")
            os.close(w)
            w = None
            got = [rd.read(), rd.read(), rd.read()]
            if got != ["a", "", ""] or not rd.closed or rd._stdin_decoder.getstate()[0] != b"\xc3":
                return "end of file with b'\\xc3' pending: expected 'a', '', '' closed with the byte still undecoded, got %r closed=%r state=%r" % (
                    got, rd.closed, rd._stdin_decoder.getstate())
        finally:
            if w is not None:
                os.close(w)
            os.close(r)
        r, w = os.pipe()
        rd = PosixStdinReader(r)
        os.close(r)
        os.close(w)
        try:
            t = rd.read()     # select raises OSError (closed := True), os.read raises OSError (data := b"")
        except Exception as e:  # noqa
            return "closed descriptor: read() raised %r" % (e,)
        if t != "" or not rd.closed:
            return "closed descriptor: expected '' and closed, got %r closed=%r" % (t, rd.closed)
        return None

    def run_cache(self, queries):
        from prompt_toolkit.input.vt100_parser import _IsPrefixOfLongerMatchCache
        c = _IsPrefixOfLongerMatchCache()
        ans = [bool(c[q]) for q in queries]
        return [ans, [[S(k), bool(v)] for k, v in c.items()]]

    def decode_once(self, bs):
        d = self.decoder()
        text = d.decode(bytes(bs))
        return [S(text), list(d.getstate()[0]), 0]


# --------------------------------------------------------------------------
# oracle: the property text / theorem statements over the implementation's
# own results (never calls the model)

def render(evs, Keys):
    s = ""
    for k, d in evs:
        if k == Keys.BracketedPaste and isinstance(k, Keys):
            s += START + d + END
        else:
            s += d
    return s


def merged(case):
    """the same schedule with adjacent reads merged (flush positions kept)"""
    out = []
    for op in case:
        if op[0] == 0 and out and out[-1][0] == 0:
            out[-1] = [0, out[-1][1] + op[1]]
        elif op[0] == 0:
            out.append([0, list(op[1])])
        else:
            out.append([1])
    return out


def flat(trace):
    evs = []
    for t in trace:
        evs += t[2] or []
    return evs


def raise_family(t):
    """tag of a raising op (RecursionError, status 97, is named: feed() must not recurse per paste)"""
    return "raise-recursion" if t[6] == 97 else "raise"


def oracle_case(impl, case, trace, merged_trace, table):
    """Return None or (clause, family, detail)."""
    Keys = impl.Keys
    if any(t[6] for t in trace):
        t = [t for t in trace if t[6]][0]
        return ("feed/flush raised or hung (status %d)" % t[6], raise_family(t), "")
    if merged_trace is not None and any(t[6] for t in merged_trace):
        t = [t for t in merged_trace if t[6]][0]
        return ("chunking: the same stream read in one piece raised or hung (status %d)" % t[6], raise_family(t), "")
    fed = "".join(unS(op[1]) for op in case if op[0] == 0)
    evs = flat(trace)
    last = trace[-1] if trace else None
    # -- lossless, in order, paste verbatim
    r = render(evs, Keys)
    if not fed.startswith(r):
        return ("lossless: the data carried by the key presses is not a prefix of the input stream", "lossless-order", "carried=%r" % r)
    if last is not None:
        pend = ((START + last[5]) if last[4] else "") + last[3]
        if r + pend != fed:
            return ("lossless: carried data + pending (paste buffer, prefix) != characters fed", "lossless-pending",
                    "carried=%r pending=%r" % (r, pend))
    # -- decode: the key presses come in groups: all keys of the sequence d (table entry, CPR, mouse report), d as data
    #    of the first and "" for the others; or one raw character; or one paste event
    def seq_keys(d):
        if O_CPR.match(d):
            return [Keys.CPRResponse]
        if O_MOUSE.match(d):
            return [Keys.Vt100MouseEvent]
        v = table.get(d)
        if v is None:
            return None
        return list(v) if isinstance(v, tuple) else [v]
    i = 0
    offs = []          # (stream offset, length of data) of every non-paste group
    o = 0
    while i < len(evs):
        k, d = evs[i]
        if isinstance(k, Keys) and k == Keys.BracketedPaste:
            if END in d:
                return ("paste content contains the end mark", "paste", "")
            o += len(START) + len(d) + len(END)
            i += 1
        elif not isinstance(k, Keys):
            if k != d or len(d) != 1:
                return ("raw character key press with different data", "decode", "")
            if seq_keys(d) is not None:
                return ("decode: %r was delivered as a raw character although it is a known sequence" % d, "decode", "")
            offs.append((o, 1))
            o += 1
            i += 1
        else:
            ks = seq_keys(d) if d != "" else None
            if ks is None or [e[0] for e in evs[i:i + len(ks)]] != ks or any(e[1] != "" for e in evs[i + 1:i + len(ks)]):
                return ("decode: key presses %r (data %r) are not the keys of that sequence" % ([e[0] for e in evs[i:i + 3]], d), "decode", "")
            offs.append((o, len(d)))
            o += len(d)
            i += len(ks)
    # -- longest match: where a key press starts, no longer stretch of the stream (up to the next flush) is a known sequence
    fl = []
    n = 0
    for op in case:
        if op[0] == 0:
            n += len(op[1])
        else:
            fl.append(n)
    for (o, ln) in offs:
        horizon = min([f for f in fl if f >= o + ln] + [len(fed)])
        for L in range(ln + 1, min(horizon - o, 24) + 1):
            if seq_keys(fed[o:o + L]) is not None:
                return ("longest match: %r was decoded on its own although %r, available before any flush, is a known sequence" % (
                    fed[o:o + ln], fed[o:o + L]), "longest-match", "")
    # -- chunk independence: same keys and same pending state as with adjacent reads merged
    if merged_trace is not None:
        mevs = flat(merged_trace)
        if evs != mevs:
            return ("chunking: key presses differ from the same stream read in one piece", "chunking", "one-piece=%r" % (mevs[:8],))
        ml = merged_trace[-1] if merged_trace else None
        if last is not None and ml is not None and (last[3], last[4], last[5]) != (ml[3], ml[4], ml[5]):
            return ("chunking: pending state differs from the same stream read in one piece", "chunking", "")
    # -- flush leaves nothing but an unterminated paste
    for t in trace:
        if t[0][0] == 1 and t[3] != "":
            pre = t[1] or ""
            if t[2] and pre.endswith(t[3]) and len(t[3]) < len(pre):
                fam = "leftover-after-nomatch-retry"
            elif not t[2] and t[3] == pre:
                fam = "flush-ignored"
            else:
                fam = "other"
            return ("flush: %r is still buffered after flush() (pending before: %r, flush emitted %d key presses)" % (
                t[3], pre, len(t[2])), "flush-" + fam, "")
    return None


def oracle_table(impl, table):
    """every table entry, fed then flushed, decodes to exactly its keys"""
    Keys = impl.Keys
    bad = []
    for s, v in table.items():
        exp = list(v) if isinstance(v, tuple) else [v]
        _, tr = impl.run([[0, S(s)], [1]])
        got = flat(tr)
        if exp == [Keys.BracketedPaste]:
            ok = got == [] and tr[-1][4] is True and tr[-1][3] == ""
        else:
            ok = [g[0] for g in got] == exp and [g[1] for g in got] == [s] + [""] * (len(exp) - 1) and tr[-1][3] == ""
        if not ok:
            bad.append((s, exp, got))
    # complete cursor-position / mouse reports (the oracle's own regexes) decode to one key press
    for s in sorted(set(cpr_mouse_streams(None))):
        exp = [Keys.CPRResponse] if O_CPR.match(s) else [Keys.Vt100MouseEvent] if O_MOUSE.match(s) else None
        if exp is None or s in table:
            continue
        _, tr = impl.run([[0, S(s)], [1]])
        got = flat(tr)
        if got != [(exp[0], s)] or tr[-1][3] != "":
            bad.append((s, exp, got))
    return bad


# --------------------------------------------------------------------------
# generators

def all_schedules(s, with_flush=True):
    """all 2^(n-1) cut sets of s x (flush after any subset of the reads)"""
    n = len(s)
    out = []
    for cuts in itertools.product([0, 1], repeat=max(0, n - 1)):
        chunks, cur = [], s[:1]
        for i, c in enumerate(cuts):
            if c:
                chunks.append(cur)
                cur = s[i + 1]
            else:
                cur += s[i + 1]
        chunks.append(cur)
        if with_flush:
            for fl in itertools.product([0, 1], repeat=len(chunks)):
                case = []
                for ch, f in zip(chunks, fl):
                    case.append([0, S(ch)])
                    if f:
                        case.append([1])
                out.append(case)
        else:
            out.append([[0, S(ch)] for ch in chunks])
    return out


def rand_schedule(rng, s, pflush=0.25, pcut=0.3):
    case, cur = [], ""
    for ch in s:
        cur += ch
        if rng.random() < pcut:
            case.append([0, S(cur)])
            cur = ""
            if rng.random() < pflush:
                case.append([1])
    if cur:
        case.append([0, S(cur)])
    if rng.random() < 0.6:
        case.append([1])
    return case


def cpr_mouse_streams(rng):
    ds = ["1", "12", "0", "٣", "9١"]
    out = []
    for a in ds:
        for b in ds[:3]:
            out.append("\x1b[%s;%sR" % (a, b))
            out.append("\x1b[<%s;%s;3M" % (a, b))
            out.append("\x1b[%s;%s;3m" % (a, b))
    out += ["\x1b[Mabc", "\x1b[M\x1b[A", "\x1b[Ma\nc", "\x1b[M\n\n\n", "\x1b[M   ", "\x1b[M\x1b\x1b\x1b", "\x1b[Mab", "\x1b[M",
            "\x1b[<M", "\x1b[<;M", "\x1b[;R", "\x1b[1;R", "\x1b[;1R", "\x1b[1;2;3R", "\x1b[1R", "\x1b[<1;2R", "\x1b[<<1M",
            "\x1b[1;2x", "\x1b[1;2\n", "\x1b[12;3", "\x1b[<35;1;2", "\x1b[1;2R\n", "\x1b[<0;1;1m", "\x1b[M\x1b", "\x1b[M\x1b[", "\x1b[M\x1b\t\n", "\x1b[M\n\x1b\t",
            "\x1b[1;5", "\x1b[1;5A", "\x1b[1;5AR", "\x1b[200", "\x1b[200;1R", "\x1b[2001~", "\x1b[<200~", "\x1b[;200~"]
    return out


def paste_streams():
    out = []
    contents = ["", "a", "hello\nworld", "\x1b", "\x1b[A", START, START + "x", "\x1b[201", "\x1b[201\x1b[201", "\x1b[20", "~", "\x1b[1;2R",
                "\x1b\x1b[201", "界\U0001F600"]
    tails = ["", "x", "\x1b", "\x1b[A", START + "y" + END, "\x1b[", END]
    for c in contents:
        for t in tails:
            out.append(START + c + END + t)
        out.append(START + c)                 # unterminated
        out.append("ab" + START + c + END[:3])  # end mark cut short
    out += [END, END + "a", "a" + END, START + START + END + END, START + END + END, START[:-1], START[:-1] + "x",
            "\x1b[M" + START, "\x1b[M\x1b" + START[1:] + "a" + END, "\x1b[1;" + START + "q" + END, "\x1b" + START + "q" + END + "\x1b"]
    return out


def gen_cases(chk, table):
    rng = chk.rng
    thorough = chk.tier == "thorough"
    cases = []
    dist = {}

    def add(kind, cs):
        dist[kind] = dist.get(kind, 0) + len(cs)
        cases.extend(cs)

    tkeys = sorted(table)
    # 1. every table key: whole + flush, char-by-char + flush, whole without flush then a probe
    for k in tkeys:
        add("table_key", [[[0, S(k)], [1]], [[0, S(c)] for c in k] + [[1]], [[0, S(k)], [0, S("a")], [1]]])
    # 2. every proper prefix of every key + probe (+ flush)
    prefixes = sorted(set(k[:i] for k in tkeys for i in range(1, len(k))))
    for p in prefixes:
        for pr in PROBES:
            add("prefix_probe", [[[0, S(p + pr)], [1]], [[0, S(p)], [1], [0, S(pr)], [1]]])
            if thorough:
                add("prefix_probe", [[[0, S(p)], [0, S(pr)]], [[0, S(p + pr + pr)]]])
    # 3. CPR / mouse reports complete, truncated, malformed
    cm = cpr_mouse_streams(rng)
    for s in cm:
        add("cpr_mouse", [[[0, S(s)], [1]], [[0, S(s)]]])
        for i in range(1, len(s)):
            add("cpr_mouse", [[[0, S(s[:i])], [1], [0, S(s[i:])], [1]], [[0, S(s[:i])], [0, S(s[i:])]]])
            for pr in (PROBES if thorough else PROBES[:5]):
                add("cpr_mouse", [[[0, S(s[:i] + pr)], [1]]])
    # 4. paste markers: nested, unterminated, split at every position, with flush between
    for s in paste_streams():
        add("paste", [[[0, S(s)]], [[0, S(s)], [1]], [[0, S(c)] for c in s]])
        for i in range(1, len(s)):
            add("paste", [[[0, S(s[:i])], [0, S(s[i:])]], [[0, S(s[:i])], [1], [0, S(s[i:])], [1]]])
        if thorough:
            for i in range(1, len(s)):
                for j in range(i + 1, min(len(s), i + 8)):
                    add("paste", [[[0, S(s[:i])], [0, S(s[i:j])], [0, S(s[j:])]]])
    # 4b. many pastes in ONE read (feed() recursed per paste before 6a14a13), and the same stream read paste by paste
    for npaste in ((100, 300, 520, 700, 1500) if thorough else (100, 520, 700)):
        units = [START + rng.choice(["", "x", "a\nb", "\x1b[A", "\x1b[201"]) + END + rng.choice(["", "", "q", "\x1b[B"]) for _ in range(npaste)]
        whole = "".join(units) + "z\x1b"
        add("many_pastes", [[[0, S(whole)], [1]],
                            [[0, S(u)] for u in units] + [[0, S("z\x1b")], [1]],
                            [[0, S(whole[:len(whole) // 2])], [0, S(whole[len(whole) // 2:])], [1]]])
    # 5. exhaustive schedules (all cut sets x flush after any read) of short strings
    short = ["\x1b[M\x1b", "\x1b[M\x1b[", "\x1b[1;2R", "\x1b[<1;2M", "\x1b[Mab\n", "\x1b[1;5A", "\x1bOP\x1b", "\x1b[A\x1b[B", "\x1b\x1b[A",
             "\x1b[[A", "a\x1bb", "\x1b[1~\x1b", "\x1b[15~", "\x1b[1;", "\x9b\x7f\x00", "\x1b[;;R", "\x1b[1;2\x1b", "\x1b[2\x1b[2~"]
    pool = [k for k in tkeys if 2 <= len(k) <= 7]
    more = pool if thorough else rng.sample(pool, min(14, len(pool)))
    for s in short + more:
        if len(s) <= (7 if thorough else 6):
            add("exhaustive_schedules", all_schedules(s))
        else:
            add("exhaustive_schedules", all_schedules(s, with_flush=False))
    # exhaustive cut sets (no flush) of longer structured strings
    longer = [START + "a" + END, "x" + START + END + "\x1b", "\x1b[12;34R\x1b[A", "\x1b[<0;10;20M\x1b"]
    for s in longer:
        if len(s) <= 14 or thorough:
            add("exhaustive_cuts", all_schedules(s[:15], with_flush=False))
    # 6. random concatenations of fragments with random chunkings and flushes
    frags = tkeys + cm + PROBES + PROBES + [START, END, START + "p\x1b[" + END, "\x1b[", "\x1b", "\x1bO", "界", "\x1b[M", "\x1b[<", "12", ";"]
    nrand = 30000 if thorough else 2500
    for _ in range(nrand):
        s = ""
        while len(s) < rng.choice([3, 8, 20, 60]):
            f = rng.choice(frags)
            if rng.random() < 0.2 and len(f) > 1:
                f = f[:rng.randint(1, len(f) - 1)]
            s += f
        s = s[:60]
        add("random", [rand_schedule(rng, s, pcut=rng.choice([0.1, 0.3, 0.7, 1.0]))])
    # 7. malformed stream: arbitrary code points
    for _ in range(4000 if thorough else 400):
        s = "".join(rng.choice(["\x1b", "[", chr(rng.randint(0, 0x7f)), chr(rng.randint(0, 0x2fff)), "2", "0", "~", "1", ";", "M", "<"])
                    for _ in range(rng.randint(1, 24)))
        add("malformed", [rand_schedule(rng, s)])
    return cases, dist


def gen_pipe_cases(chk):
    rng = chk.rng
    streams = ["\x1b[A", "é\x1b[1;5Aü", "界\x1b[200~日本\U0001F600\x1b[201~x", "\x1b[٣;١R", "a\x1bb", "\x1b[M\x1b"]
    out = []
    for s in streams:
        b = s.encode("utf-8")
        for i in range(0, len(b) + 1):
            out.append([[0, list(b[:i])], [0, list(b[i:])], [1]])
            out.append([[0, list(b[:i])], [1], [0, list(b[i:])], [1]])
    n = 600 if chk.tier == "thorough" else 60
    for _ in range(n):
        raw = bytes(rng.choice([0x1b, 0x5b, 0x41, 0x80, 0xc3, 0xa9, 0xe7, 0x95, 0x8c, 0xf0, 0x9f, 0x98, 0x80, 0xff, 0x32, 0x7e, 0x30, 0x31])
                    for _ in range(rng.randint(1, 16)))
        ops, i = [], 0
        while i < len(raw):
            j = min(len(raw), i + rng.randint(1, 5))
            ops.append([0, list(raw[i:j])])
            if rng.random() < 0.3:
                ops.append([1])
            i = j
        ops.append([1])
        out.append(ops)
    return out


RE_ALPHA = ["\x1b", "[", "<", ";", "0", "7", "\u0663", "M", "m", "R", "\n", "a", "~"]
U8_ALPHA = [0x00, 0x41, 0x7f, 0x80, 0x8f, 0x90, 0x9f, 0xa0, 0xbf, 0xc0, 0xc1, 0xc2, 0xdf, 0xe0, 0xe1, 0xec, 0xed, 0xee, 0xef,
            0xf0, 0xf1, 0xf3, 0xf4, 0xf5, 0xff]


def regex_scope(chk):
    """every string of length <= 3 over RE_ALPHA, and ESC [ + every tail of length <= 4 (quick) / 5 (thorough)"""
    out = [""]
    for n in range(1, 4):
        out += ["".join(t) for t in itertools.product(RE_ALPHA, repeat=n)]
    for n in range(0, (6 if chk.tier == "thorough" else 5)):
        out += ["\x1b[" + "".join(t) for t in itertools.product(RE_ALPHA, repeat=n)]
    return out


def regex_long(chk):
    """structured strings beyond the exhaustive scope: long runs of (Unicode) digits and ';', every terminator, optional '<',
    X10 payloads, and random one-character damage of such strings"""
    rng = chk.rng
    digs = "0123456789\u0663\u0967\uff15\U0001d7d8"
    out = []
    for _ in range(30000 if chk.tier == "thorough" else 4000):
        kind = rng.randrange(4)
        if kind == 0:
            body = "".join(rng.choice(digs) for _ in range(rng.randint(1, 12))) + ";" + "".join(rng.choice(digs) for _ in range(rng.randint(0, 12))) + rng.choice("RrMm;~\n")
        elif kind == 1:
            body = rng.choice(["<", ""]) + "".join(rng.choice(digs + ";;") for _ in range(rng.randint(0, 30))) + rng.choice(["M", "m", "R", "", "\n", "MM"])
        elif kind == 2:
            body = "M" + "".join(rng.choice(["a", "\n", "\x1b", "\u0663", "~", "\x00", "\U0010ffff"]) for _ in range(rng.randint(0, 4)))
        else:
            body = "".join(rng.choice(RE_ALPHA) for _ in range(rng.randint(0, 12)))
        x = "\x1b[" + body
        if rng.random() < 0.3 and x:
            i = rng.randrange(len(x))
            x = x[:i] + rng.choice(["", rng.choice(RE_ALPHA), x[i] * 2]) + x[i + 1:]
        out.append(x)
    return out


def utf8_scope(chk):
    """every byte string of length <= 3 (quick) / 4 (thorough) over the class-boundary bytes"""
    out = [[]]
    for n in range(1, (5 if chk.tier == "thorough" else 4)):
        out += [list(t) for t in itertools.product(U8_ALPHA, repeat=n)]
    return out


def gen_reader_cases(chk):
    rng = chk.rng
    datas = [[0x61], [0xc3], [0xa9, 0x1b], [0xe7, 0x95], [0x8c], [0xff, 0x41], [0xf0, 0x9f, 0x98], [0x80]]
    outcomes = [[0, []], [1]] + [[0, d] for d in datas]
    out = []
    # every pair of calls over all select outcomes x a few read outcomes, then a data call
    for s1 in (0, 1, 2):
        for r1 in outcomes[:5]:
            for s2 in (0, 1, 2):
                for r2 in outcomes[:4]:
                    out.append([[s1, r1], [s2, r2], [0, [0, [0x62]]]])
    for _ in range(2000 if chk.tier == "thorough" else 300):
        out.append([[rng.choice([0, 0, 0, 1, 2]), rng.choice(outcomes + outcomes[2:])] for _ in range(rng.randint(1, 8))])
    return out


def gen_reader_mode_cases(chk):
    """(mode, calls) for the errors= argument: malformed, truncated and well-formed data cut across calls"""
    rng = chk.rng
    datas = [[0x61], [0xc3], [0xa9, 0x1b], [0xe7, 0x95], [0x8c], [0xff, 0x41], [0xf0, 0x9f, 0x98], [0x80], [0xc3, 0x28],
             [0xe2, 0x82], [0xe2, 0x28, 0xa1], [0xf0, 0x90, 0x28], [0xf0, 0x9f, 0x98, 0x41], [0xed, 0xa0], [0xed, 0xa0, 0x80],
             [0xe0, 0x80], [0xf4, 0x90], [0xc0, 0xaf], [0xe2, 0x82, 0xac], [0xf0, 0x9f, 0x98, 0x80]]
    outcomes = [[0, []], [1], [2], [3]] + [[0, d] for d in datas]
    out = []
    for mode in range(4):
        for d1 in datas:
            for d2 in datas:
                out.append([mode, [[0, [0, d1]], [0, [0, d2]], [0, [0, [0x62]]]]])
        for _ in range(600 if chk.tier == "thorough" else 120):
            out.append([mode, [[rng.choice([0, 0, 0, 0, 0, 1, 2, 3]), rng.choice(outcomes + outcomes[4:] * 2)] for _ in range(rng.randint(1, 7))]])
        # every byte string of length <= 2 (3 in thorough) over the class-boundary bytes, one call, then a probe call
        for n in range(1, (4 if chk.tier == "thorough" else 3)):
            for t in itertools.product(U8_ALPHA, repeat=n):
                out.append([mode, [[0, [0, list(t)]], [0, [0, [0x80, 0x62]]]]])
    return out


def gen_encode_cases(chk):
    """code points for the specification's encoder: every boundary of the UTF-8 length classes, the escapes, random scalars"""
    rng = chk.rng
    edges = [0, 1, 0x7f, 0x80, 0x7ff, 0x800, 0xfff, 0x1000, 0xcfff, 0xd000, 0xd7ff, 0xe000, 0xffff, 0x10000, 0x3ffff, 0x40000,
             0xfffff, 0x100000, 0x10ffff] + list(range(0xdc80, 0xdd00))
    n = 20000 if chk.tier == "thorough" else 3000
    rnd = []
    while len(rnd) < n:
        c = rng.choice([rng.randrange(0, 0x800), rng.randrange(0x800, 0x10000), rng.randrange(0x10000, 0x110000)])
        if not (0xd800 <= c < 0xe000):
            rnd.append(c)
    allc = edges + rnd
    return [allc[i:i + 500] for i in range(0, len(allc), 500)]


def gen_cache_cases(chk, table):
    rng = chk.rng
    pool = ["\x1b", "\x1b[", "\x1b[1", "\x1b[1;", "\x1b[1;5", "\x1b[1;5A", "\x1b[M", "\x1b[Ma", "\x1b[Mab", "\x1b[Mabc", "\x1b[<", "\x1b[<1;2",
            "\x1b[12;12", "\x1b[12;12a", "\x1b[12;12R", "a", "", "\x1bO", "\x1bOP", "\x1b[M\n", "\x1b[\u0663", "\x1b[200~", "\x1b[200"]
    pool += rng.sample(sorted(table), 20)
    out = [[q] for q in pool]
    for _ in range(1500 if chk.tier == "thorough" else 250):
        out.append([rng.choice(pool) for _ in range(rng.randint(2, 12))])
    return out


def decode_ops(byte_ops):
    """text schedule the parser must see: incremental UTF-8/surrogateescape decoding of the reads"""
    dec = codecs.getincrementaldecoder("utf-8")(errors="surrogateescape")
    return [[0, S(dec.decode(bytes(op[1])))] if op[0] == 0 else [1] for op in byte_ops]


# --------------------------------------------------------------------------

def show_case(case):
    return " ; ".join(("feed(%r)" % unS(op[1])) if op[0] == 0 else "flush()" for op in case)


def main(tier):
    import time as _time
    chk = Check(PROP, tier)
    _t = [_time.time()]
    phases = {}

    def lap(name):
        now = _time.time()
        phases[name] = round(phases.get(name, 0) + now - _t[0], 1)
        _t[0] = now
    pr = chk.proofs("Props/C03.v", tables=TABLES)
    lap("proofs")
    okm, logm = build_model("c03", "Extract/ExC03.v", "run_C03_all4", tables=TABLES)
    if not okm and not getattr(pr, "gen_ok", True):
        # the table generator failed closed (reported by proof_gate below): go on with the
        # last generated table so that the correspondence run can still find a failing input
        chk.note("gen/gen_t_c03.py failed closed: " + (pr.gen_log or "").strip()[-300:])
        okm, logm = build_model("c03", "Extract/ExC03.v", "run_C03_all4", tables=())
    if not okm:
        chk.violation("tie", "model does not build: " + logm[-400:], {"kind": "model-build"}, {"log": logm[-3000:]}, no_input=True)
        return chk.finish()
    from prompt_toolkit.input.ansi_escape_sequences import ANSI_SEQUENCES
    table = dict(ANSI_SEQUENCES)
    impl = Impl()
    lap("model_build")

    # table clause, directly on the implementation
    for s, exp, got in oracle_table(impl, table):
        chk.violation("oracle", "decode: feed(%r); flush() must emit exactly %r with the sequence as data of the first; got %r" % (s, exp, got),
                      {"clause": "table-decodes"}, {"case": [[0, S(s)], [1]], "clause": "table-decodes"})

    cases, dist = gen_cases(chk, table)
    corpus = load_corpus(PROP)
    cases = corpus + cases
    impl_results = []
    oracle_bad = set()
    merged_cache = {}
    for i, c in enumerate(cases):
        out, trace = impl.run(c)
        impl_results.append(out)
        m = merged(c)
        if m == c:
            mtrace = None
        else:
            key = sx_dump(m)
            if key not in merged_cache:
                merged_cache[key] = impl.run(m)[1]
            mtrace = merged_cache[key]
        fed = "".join(unS(op[1]) for op in c if op[0] == 0)
        chk.count_case(c, bool(flat(trace)) and (ESC in fed) and len(fed) > 1)
        bad = oracle_case(impl, c, trace, mtrace, table)
        if bad:
            oracle_bad.add(i)
            clause, fam, detail = bad
            chk.violation("oracle", "%s [%s] %s" % (clause, show_case(c), detail),
                          {"clause": fam},
                          {"case": c, "clause": clause, "detail": detail,
                           "how": "from prompt_toolkit.input.vt100_parser import Vt100Parser; keys = []; p = Vt100Parser(keys.append); p."
                                  + show_case(c).replace(" ; ", "; p.") + "; print(keys, p._input_parser.gi_frame.f_locals['prefix'])"})
        if i % 1499 == 0:
            chk.sample({"schedule": show_case(c), "impl_result": out[:2]})
    chk.coverage["input_distribution"] = dict(dist, corpus=len(corpus))
    lap("impl_and_oracle")

    def tagger(c, a, m):
        for j, (x, y) in enumerate(zip(a, m if isinstance(m, list) else [])):
            if x != y:
                what = "events" if x[:1] != y[:1] else "pending-state"
                return {"op": "feed" if c[j][0] == 0 else "flush", "differs": what}
        return {"op": "?"}

    def describe(c, a, m):
        if not isinstance(m, list):
            return "%s model=%r" % (show_case(c), m)
        for j, (x, y) in enumerate(zip(a, m)):
            if x != y:
                return "%s: after op %d impl=%r model=%r (events, prefix, in_paste, paste_buffer, oof)" % (show_case(c), j, x, y)
        return "%s impl=%r model=%r" % (show_case(c), a[-1:], m[-1:])

    model_results, nbad = correspondence(
        chk, "c03", cases, impl_results, tagger,
        describe=describe,
        oracle_failed=lambda i: i in oracle_bad)

    lap("schedules_model")
    # Vt100Input + PosixStdinReader over a real pipe (incremental UTF-8 across reads)
    pcases = gen_pipe_cases(chk)
    ptext = [decode_ops(b) for b in pcases]
    pimpl = [impl.run_pipe(b) for b in pcases]
    pmodel = run_model("c03", [[7, b] for b in pcases])
    chk.coverage["input_distribution"]["pipe_vt100input"] = len(pcases)
    for b, t, a, m in zip(pcases, ptext, pimpl, pmodel):
        chk.count_case([7, b], True)
        if sx_norm(a) != m:
            # oracle for the pipe: Vt100Input must emit what a bare Vt100Parser emits for the decoded reads
            direct = [x[:5] for x in sx_norm(impl.run(t)[0])]
            mine = [x[:5] for x in sx_norm(a)]
            j = next((j for j, (x, y) in enumerate(zip(sx_norm(a), m)) if x != y), min(len(a), len(m)) - 1)
            chk.violation("correspondence", "Vt100Input over a pipe differs from the model: reads=%r: after read/flush %d impl=%r model=%r (keys returned, prefix, in_paste, paste_buffer, oof, undecoded bytes)" % (
                [bytes(op[1]) if op[0] == 0 else "flush" for op in b], j, sx_norm(a)[j:j + 1], m[j:j + 1]),
                {"kind": "correspondence", "op": "pipe"}, {"byte_ops": b, "impl": sx_norm(a), "model": m},
                no_input=(direct == mine))
        else:
            chk.coverage["traces_validated_against_impl"] += 1

    lap("pipe")
    # the four regexes of /repo against the hand recognisers, exhaustively on a small scope
    # (round 7) the matcher that is compared is the derivative matcher run on the ASTs regenerated from /repo's pattern
    # strings ((14 str)); the hand recognisers are PROVED equal to it for all strings (C03_*_is_matcher) and are
    # compared on a sample (quick) / the whole scope (thorough) as a check of the extraction
    rs = regex_scope(chk) + regex_long(chk)
    rimpl = [[int(x) for x in impl.regexes(x_)] for x_ in rs]
    rmodel = run_model("c03", [[14, S(x_)] for x_ in rs])
    nre = 0
    for x_, a, m in zip(rs, rimpl, rmodel):
        if a != m:
            nre += 1
            if nre <= 3:
                chk.violation("tie", "re.match differs from the derivative matcher on the regenerated AST on %r: re (cpr, mouse, cpr_prefix, mouse_prefix)=%r matcher=%r" % (x_, a, m),
                              {"kind": "regex"}, {"string": x_, "impl": a, "model": m}, no_input=True)
    ridx = range(len(rs)) if chk.tier == "thorough" else sorted(chk.rng.sample(range(len(rs)), 3000))
    rmodel8 = run_model("c03", [[8, S(rs[i])] for i in ridx])
    for i, m in zip(ridx, rmodel8):
        if rimpl[i] != m:
            nre += 1
            if nre <= 3:
                chk.violation("tie", "hand recogniser differs from re on %r: re (cpr, mouse, cpr_prefix, mouse_prefix)=%r model=%r" % (rs[i], rimpl[i], m),
                              {"kind": "regex"}, {"string": rs[i], "impl": rimpl[i], "model": m}, no_input=True)
    chk.coverage["input_distribution"]["regex_scope"] = len(rs)
    chk.coverage["traces_validated_against_impl"] += len(rs) - nre
    chk.coverage["evaluations"] += len(rs)

    lap("regex")
    # PosixStdinReader's decoder against the Coq UTF-8 decoder, exhaustively on a small scope
    us = utf8_scope(chk)
    uimpl = [impl.decode_once(b) for b in us]
    umodel = run_model("c03", [[9, b] for b in us])
    nu = 0
    for b, a, m in zip(us, uimpl, umodel):
        if sx_norm(a) != m:
            nu += 1
            if nu <= 3:
                chk.violation("tie", "UTF-8 decoder model differs from PosixStdinReader's decoder on %r: impl (text, undecoded)=%r model=%r" % (bytes(b), a, m),
                              {"kind": "utf8"}, {"bytes": b, "impl": sx_norm(a), "model": m}, no_input=True)
    chk.coverage["input_distribution"]["utf8_scope"] = len(us)
    chk.coverage["traces_validated_against_impl"] += len(us) - nu
    chk.coverage["evaluations"] += len(us)

    lap("utf8")
    # PosixStdinReader.read(): the closed flag and the outcomes of select / os.read as labels (stubbed select and os in
    # posix_utils), plus real descriptors for end of file and a closed descriptor
    rcases = gen_reader_cases(chk)
    rimpl2 = [impl.run_reader(c_) for c_ in rcases]
    rmodel2 = run_model("c03", [[10, c_] for c_ in rcases])
    nrd = 0
    for c_, a, m in zip(rcases, rimpl2, rmodel2):
        chk.count_case([10, c_], True)
        if sx_norm(a) != m:
            nrd += 1
            if nrd <= 3:
                chk.violation("correspondence", "PosixStdinReader.read differs from the model: calls (select outcome, os.read outcome)=%r impl (text, closed, undecoded, taken)=%r model=%r" % (c_, sx_norm(a), m),
                              {"kind": "correspondence", "op": "reader"}, {"reader_calls": c_, "impl": sx_norm(a), "model": m}, no_input=True)
    real = impl.reader_real_fd()
    if real:
        chk.violation("correspondence", "PosixStdinReader on a real descriptor: " + real, {"kind": "correspondence", "op": "reader-real-fd"},
                      {"what": real}, no_input=True)
    chk.coverage["input_distribution"]["reader_calls"] = len(rcases)
    chk.coverage["traces_validated_against_impl"] += len(rcases) - nrd

    lap("reader")
    # PosixStdinReader(errors=...): the four handlers, read() raising UnicodeDecodeError under "strict"
    ecases = gen_reader_mode_cases(chk)
    eimpl = [impl.run_reader(c_[1], mode=c_[0]) for c_ in ecases]
    emodel = run_model("c03", [[15, c_[0], c_[1]] for c_ in ecases])
    ne = 0
    for c_, a, m in zip(ecases, eimpl, emodel):
        chk.count_case([15, c_[0], c_[1]], True)
        if sx_norm(a) != m:
            ne += 1
            if ne <= 3:
                chk.violation("correspondence", "PosixStdinReader(errors=%r).read differs from the model: calls=%r impl (text, closed, undecoded, taken, raised)=%r model=%r" % (
                              impl.ERR_MODES[c_[0]], c_[1], sx_norm(a), m),
                              {"kind": "correspondence", "op": "reader-errors", "mode": impl.ERR_MODES[c_[0]]},
                              {"reader_errors": c_[0], "reader_calls": c_[1], "impl": sx_norm(a), "model": m}, no_input=True)
    chk.coverage["input_distribution"]["reader_errors_calls"] = len(ecases)
    chk.coverage["traces_validated_against_impl"] += len(ecases) - ne

    lap("reader_errors")
    # the specification's encoder (Model/C03_Utf8Spec.v encode_se1) against CPython's str.encode('utf-8', 'surrogateescape')
    ncp = nbadcp = 0
    for chunk in gen_encode_cases(chk):
        mres = run_model("c03", [[12, chunk]])[0]
        for cp, mb in zip(chunk, mres if isinstance(mres, list) else [None] * len(chunk)):
            ncp += 1
            if list(chr(cp).encode("utf-8", "surrogateescape")) != mb:
                nbadcp += 1
                if nbadcp <= 3:
                    chk.violation("tie", "the specification's UTF-8 encoder differs from CPython's on U+%04X: CPython %r spec %r" % (
                                  cp, list(chr(cp).encode("utf-8", "surrogateescape")), mb), {"kind": "utf8-spec"}, {"cp": cp, "model": mb}, no_input=True)
    chk.coverage["input_distribution"]["utf8_spec_code_points"] = ncp
    chk.coverage["evaluations"] += ncp

    lap("utf8_spec")
    # the memo table _IsPrefixOfLongerMatchCache: answers and contents after query histories (fresh instance each)
    qcases = gen_cache_cases(chk, table)
    qimpl = [impl.run_cache(q_) for q_ in qcases]
    qmodel = run_model("c03", [[11, [S(x_) for x_ in q_]] for q_ in qcases])
    nq = 0
    for q_, a, m in zip(qcases, qimpl, qmodel):
        chk.count_case([11, [S(x_) for x_ in q_]], True)
        if sx_norm(a) != m:
            nq += 1
            if nq <= 3:
                chk.violation("correspondence", "_IsPrefixOfLongerMatchCache differs from the memo-table model: queries=%r impl=%r model=%r" % (q_, sx_norm(a), m),
                              {"kind": "correspondence", "op": "cache"}, {"queries": q_, "impl": sx_norm(a), "model": m}, no_input=True)
    chk.coverage["input_distribution"]["cache_histories"] = len(qcases)
    chk.coverage["traces_validated_against_impl"] += len(qcases) - nq

    lap("cache")
    # extraction/driver cross-check inside Coq on a sample
    k = 600 if chk.tier == "thorough" else 150
    small = [i for i in range(len(cases)) if sum(len(op[1]) for op in cases[i] if op[0] == 0) <= 80]
    idx = sorted(chk.rng.sample(small, min(k, len(small))))
    pairs = [(cases[i], impl_results[i]) for i in idx]
    bad, logs = vm_crosscheck(PROP, "run_C03_all4", "Model.C03_Vt100Parser Model.C03_Vt100Input Model.C03_Cache Model.C03_Utf8Spec Model.C03_Errors Model.C03_RegexMatch Model.C03_Run7", pairs, per_file=150)
    chk.coverage["vm_compute_crosschecked"] = len(pairs)
    model_bad = set(i for i, (a, m) in enumerate(zip(impl_results, model_results)) if sx_norm(a) != m)
    vm_bad = set(idx[b] for b in bad if isinstance(b, int))
    if any(not isinstance(b, int) for b in bad):
        chk.violation("tie", "vm_compute cross-check failed to run: " + (logs[0] if logs else ""), {"kind": "vm"}, {"log": logs}, no_input=True)
    if vm_bad != (model_bad & set(idx)):
        chk.violation("tie", "extracted model and in-Coq evaluation disagree on cases %r" % sorted(vm_bad ^ (model_bad & set(idx)))[:5],
                      {"kind": "extraction"}, {"cases": [cases[i] for i in sorted(vm_bad ^ (model_bad & set(idx)))[:5]]}, no_input=True)

    lap("vm")
    proof_gate(chk, pr)
    chk.coverage["phase_seconds"] = phases
    chk.coverage["rule"] = ("cases = read/flush schedules (feed(data) / flush() sequences) run on a real Vt100Parser and on the Coq model, "
                            "compared after every op (key presses, generator-local prefix, paste flag, paste buffer); every table key; every "
                            "proper prefix of a key x %d probe characters; CPR/mouse complete/truncated/malformed; paste markers "
                            "nested/unterminated/split; exhaustive schedules (all cut sets x flush after any read) of strings of length <= %d; "
                            "random fragment concatenations to length 60; arbitrary code points; Vt100Input over a pipe with byte-level splits compared with the byte-level model (keys returned, parser state, undecoded bytes); "
                            "exhaustive small scopes for the four regexes against re and for the UTF-8 decoder against PosixStdinReader's decoder. "
                            "non-trivial = stream contains ESC, has more than one character and some key press was emitted; distinct by hash of the schedule"
                            % (len(PROBES), 7 if chk.tier == "thorough" else 6))
    chk.assumptions += ["the parser's pending prefix is read from the suspended generator's frame locals (gi_frame.f_locals['prefix']); the decoder's undecoded bytes from _stdin_decoder.getstate()[0]",
                        "regex recognisers: proved equal, for all strings, to the whole-string language of the regular-expression ASTs that gen/gen_t_c03.py regenerates from /repo's four pattern strings with re's own parser "
                        "(re._parser.parse; unsupported syntax, flags other than re.UNICODE or missing ^...\\Z anchors fail closed; C03_*_is_regex); \\d is re's class regenerated over the whole code space, '.' is checked to exclude only \\n. "
                        "Round 7: an executable derivative matcher (Model/C03_RegexMatch.v) is proved to decide that language and each hand recogniser is proved equal to it on the regenerated AST for all strings (C03_*_is_matcher). "
                        "Assumed: re.match on these anchored patterns accepts exactly that language (backtracking does not change acceptance) - tested on this run by running the extracted matcher against /repo's compiled regexes on every string of length <= 3 over %r, "
                        "on ESC [ + every tail of length <= %d over it, and on structured random strings with digit runs up to length 30, Unicode digits, every terminator and one-character damage (%d strings in all)" % (RE_ALPHA, 5 if chk.tier == "thorough" else 4, len(rs)),
                        "UTF-8: the Coq decoder (Model/C03_Vt100Input.v step/dec) was compared with the decoder PosixStdinReader constructs (utf-8, surrogateescape, incremental) on EVERY byte string of length <= %d over the %d class-boundary bytes %r (%d strings), text and undecoded tail; "
                        "assumed beyond: bytes strictly inside a class behave like its boundaries; other stdin encodings are not modelled. The decoder model is PROVED (all byte strings, all chunkings) to compute the declarative decoding of Model/C03_Utf8Spec.v, "
                        "whose encoder was compared on this run with CPython's str.encode('utf-8', 'surrogateescape') on every length-class boundary, all escapes U+DC80..DCFF and random scalar values (count: input_distribution.utf8_spec_code_points)" % (4 if chk.tier == "thorough" else 3, len(U8_ALPHA), [hex(b) for b in U8_ALPHA], len(us)),
                        "PosixStdinReader.read(): the model takes the outcomes of select (ready / not ready / OSError) and os.read (data / b'' / OSError) as labels; the correspondence injects them by replacing "
                        "posix_utils.select and posix_utils.os with stubs (all pairs of calls + random call sequences; the OSError subclasses InterruptedError(EINTR) and BlockingIOError(EAGAIN) are injected too and are the same label, as read() has one 'except OSError' per call) "
                        "and checks on real descriptors: data / not ready / end of file / closed descriptor / non-blocking empty pipe / a real BlockingIOError(EAGAIN) from os.read with a byte pending (select stubbed to 'ready') / "
                        "a signal interrupting a blocking os.read (PEP 475: the call is retried, read() never sees EINTR); "
                        "the errors= argument (ignore / replace / strict / surrogateescape) is in the model (Model/C03_Errors.v) and compared the same way incl. UnicodeDecodeError raised by read() (input_distribution.reader_errors_calls); "
                        "an incomplete sequence pending at end of file is never delivered (C03_reader_eof_tail_undelivered, checked on a real pipe) - judged outside the property text (it speaks about characters); "
                        "the memo table is compared on a fresh _IsPrefixOfLongerMatchCache() per query history (answers and contents); the module-level instance shared by all parsers is assumed to be only ever filled through __missing__",
                        "no bound on the length of a read: feed() is a loop since 6a14a13 (reads holding 100-700 pastes, 1500 in thorough, are part of every run)",
                        "termios/raw mode of Vt100Input and stdin encodings other than UTF-8 are outside the model"]
    return chk.finish()


def replay(data):
    rep = data["replay"]
    impl = Impl()
    from prompt_toolkit.input.ansi_escape_sequences import ANSI_SEQUENCES
    if "byte_ops" in rep:
        a = impl.run_pipe(rep["byte_ops"])
        m = run_model("c03", [[7, rep["byte_ops"]]])[0]
        print("impl :", sx_norm(a))
        print("model:", m)
        return 0 if sx_norm(a) == m else 1
    if "reader_calls" in rep:
        mode = rep.get("reader_errors")
        a = impl.run_reader(rep["reader_calls"], mode=mode)
        m = run_model("c03", [[10, rep["reader_calls"]] if mode is None else [15, mode, rep["reader_calls"]]])[0]
        print("PosixStdinReader(errors=%r): calls (select outcome, os.read outcome) = %r" % (
            "surrogateescape" if mode is None else impl.ERR_MODES[mode], rep["reader_calls"]))
        print("impl :", sx_norm(a))
        print("model:", m)
        return 0 if sx_norm(a) == m else 1
    if "case" not in rep:
        print("nothing to re-run:", rep)
        return 0
    case = rep["case"]
    out, trace = impl.run(case)
    print("p = Vt100Parser(keys.append)")
    for t in trace:
        print("  %-28s -> keys %r ; pending prefix %r ; in_paste %r ; paste_buffer %r%s" % (
            ("p.feed(%r)" % unS(t[0][1])) if t[0][0] == 0 else "p.flush()", t[2], t[3], t[4], t[5],
            " ; status %d" % t[6] if t[6] else ""))
    m = merged(case)
    mtrace = impl.run(m)[1] if m != case else None
    bad = oracle_case(impl, case, trace, mtrace, dict(ANSI_SEQUENCES))
    rc = 0
    if rep.get("clause") == "table-decodes":
        tb = oracle_table(impl, {unS(case[0][1]): ANSI_SEQUENCES.get(unS(case[0][1]))}) if unS(case[0][1]) in ANSI_SEQUENCES else []
        if tb:
            print("ORACLE FAILS: table entry does not decode to its keys:", tb)
            rc = 1
    if bad:
        print("ORACLE FAILS: %s %s" % (bad[0], bad[2]))
        rc = 1
    else:
        print("oracle ok")
    mr = run_model("c03", [case])[0]
    print("model agrees" if mr == sx_norm(out) else "model differs: %r" % (mr,))
    return rc
