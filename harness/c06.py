"""C06 - incremental screen updates equal a full redraw.
Model: coq/Model/C06_{Terminal,Renderer,Run}.v; theorems: coq/Props/C06.v.
Helpers: c06_term.py (tokeniser + Python terminal), c06_impl.py (drives the real
Renderer on Vt100_Output(StringIO)), c06_gen.py (generators), c06_oracle.py."""
import collections
import itertools

from common import *  # noqa
import c06_gen
import c06_impl
import c06_oracle
from c06_term import PenTable, Term, tokenize

PROP = "C06"
TABLES = []
MODELS = [("c06", "Extract/ExC06.v", "run_C06")]


# --------------------------------------------------------------------------
# implementation runner: real Renderer -> text -> tokens -> Python terminal

CHOICE_EVENTS = collections.Counter()


def nrows_of(spec):
    return max([op[4] for op in spec["ops"] if op[0] == "render"] + [0]) + 2


def impl_case(spec):
    """-> (sx case, canonical impl result, raw outputs, pens)"""
    pens = PenTable()
    case = c06_impl.case_sx(spec, pens)
    outs = c06_impl.run_impl(spec, pens)
    nrows = nrows_of(spec)
    t = Term(1)
    res = []
    toks = tokenize(outs[0], pens)
    for k in toks:
        t.step(k, c06_oracle.width_of)
    res.append([toks, t.dump(nrows)])
    for i, op in enumerate(spec["ops"]):
        if op[0] == "render":
            t.W = op[3]
            t.rows = op[4]
        toks = tokenize(outs[i + 1], pens)
        for k in toks:
            t.step(k, c06_oracle.width_of)
        if (op[0] == "render" and op[2]) or op[0] == "reset":
            t.shift_origin(t.cy)
        res.append([toks, t.dump(nrows)])
    CHOICE_EVENTS["erase_or_scroll_fill_with_pen_other_than_reset"] += t.nz_erase
    CHOICE_EVENTS["text_written_while_autowrap_on"] += t.aw_text
    return case, res, outs, pens


def in_theorem_domain(scr, W):
    """wf_screen of Props/C06.v transcribed (the hypotheses of the theorems on one
    screen): in the visible columns 0..W-1 every cell is narrow with a text, wide
    (not straddling the right edge, followed by its '' shadow) or a shadow right
    after a wide cell; rows live below Screen.height; the cursor column is inside.
    -> (in domain, has a wide cell in a visible column)"""
    from prompt_toolkit.utils import get_cwidth
    ok, wide = True, False
    if scr["height"] < 0:
        ok = False
    cur = scr["cursor"] if scr["cursor"] is not None else (0, 0)
    if not (0 <= cur[0] <= W - 1) or cur[1] < 0:
        ok = False
    for y, row in scr["rows"].items():
        if y >= scr["height"] and row:
            ok = False
        def wd(x):
            return get_cwidth(row[x][0]) if x in row else 1
        for x in range(W):
            ch = row[x][0] if x in row else " "
            w = wd(x)
            if w == 1 and ch != "":
                continue
            if w == 2 and ch != "" and x + 1 <= W - 1 and wd(x + 1) == 0:
                wide = True
                continue
            if w == 0 and ch == "" and x >= 1 and wd(x - 1) == 2:
                continue
            ok = False
    return ok, wide


def default_has_style(spec, cfg):
    from prompt_toolkit.renderer import _StyleStringToAttrsCache, _StyleStringHasStyleCache
    sv, bits, tv = spec["cfgs"][cfg]
    a4s = _StyleStringToAttrsCache(c06_impl._style(sv).get_attrs_for_style_str, c06_impl._transformation(tv))
    return 1 if _StyleStringHasStyleCache(a4s)["[transparent]"] else 0


def half_covered_rows(scr):
    """rows of a screen with a wide character whose right-hand cell is not its
    ('', style) shadow (a float drew over its right half) -> kind "right", or with an
    orphan shadow (the left half was covered) -> kind "left".  {row: set of kinds}"""
    from prompt_toolkit.utils import get_cwidth
    out = {}
    for y, row in scr["rows"].items():
        for x, (ch, st) in row.items():
            if ch and get_cwidth(ch) == 2 and x + 1 in row and row[x + 1][0] != "":
                out.setdefault(y, set()).add("right")
            if ch == "" and (x == 0 or not (x - 1 in row and row[x - 1][0] and get_cwidth(row[x - 1][0]) == 2)):
                # orphan shadow: its wide character was covered, or sits at column -1 (off-screen)
                out.setdefault(y, set()).add("left")
    return out


def screens_since_full_repaint(spec, i):
    """the render operations whose screens the terminal content at operation i can still
    depend on: op i and the renders before it back to the last full repaint (erase,
    reset, final render, change of size or configuration)"""
    out = []
    cur = spec["ops"][i]
    if cur[0] != "render":
        return out
    out.append(cur)
    for j in range(i - 1, -1, -1):
        o = spec["ops"][j]
        if o[0] != "render" or o[2] or (o[1], o[3], o[4]) != (cur[1], cur[3], cur[4]):
            break
        out.append(o)
        cur = o
    return out


def covered_wide_half(spec, i, info):
    """1 iff the failure is local to a half-covered wide character: a CELL mismatch in a
    ROW that contains one in the new screen or in a screen rendered since the last full
    repaint (the damage - a cell the diff believes drawn - persists until that cell
    changes), or a CURSOR mismatch when the previous or the new screen has an orphan
    shadow (drawn as nothing while _cursor_pos advances, which shifts the cursor)."""
    ops = screens_since_full_repaint(spec, i)
    if not ops:
        return 0
    what = info.get("what")
    if what == "cell":
        return 1 if any(info.get("row") in half_covered_rows(o[5]) for o in ops) else 0
    if what in ("cursor", "undef"):
        return 1 if any("left" in k for o in ops[:2] for k in half_covered_rows(o[5]).values()) else 0
    return 0


_A4S = {}


def style_counts(cfg_triple, st):
    """the has_style rule (colour/bgcolor/underline/strike/blink/reverse) evaluated by the
    harness on the real Attrs of the style under this configuration"""
    from prompt_toolkit.renderer import _StyleStringToAttrsCache
    sv, bits, tv = cfg_triple
    if (sv, tv) not in _A4S:
        _A4S[(sv, tv)] = _StyleStringToAttrsCache(c06_impl._style(sv).get_attrs_for_style_str, c06_impl._transformation(tv))
    a = _A4S[(sv, tv)][st]
    return bool(a.color or a.bgcolor or a.underline or a.strike or a.blink or a.reverse)


def row_all_negative(spec, i):
    """some screen up to operation i has a row whose counting cells all sit at column
    indices <= -2 (finding C06-F3: get_max_column_index goes negative, the trim moves
    the cursor to a negative column and _cursor_pos is off by one from then on; the
    shift is sticky, so this tag looks at the whole history)"""
    for op in spec["ops"][:i + 1]:
        if op[0] == "render":
            for row in op[5]["rows"].values():
                idx = [x for x, (ch, st) in row.items() if ch != " " or style_counts(spec["cfgs"][op[1]], st)]
                if idx and max(idx) <= -2:
                    return 1
    return 0


def oracle_tags(spec, fail):
    i, fam, msg, info = fail
    op = spec["ops"][i]
    tags = {"clause": fam, "what": info.get("what"), "covered_wide_half": covered_wide_half(spec, i, info),
            "row_all_negative": row_all_negative(spec, i) if info.get("what") in ("cursor", "cell") else 0}
    if op[0] == "render":
        tags["default_style_has_style"] = default_has_style(spec, op[1])
    return tags


def report_fails(chk, spec, fails, extra_tags, prefix, allow_shrink):
    """one violation per failure of the sequence (every element of `fails` is tagged and
    matched against the known findings on its own).  -> True iff some failure is not a
    known finding."""
    unknown = False
    seen = set()
    # operations at which the oracle itself shows the cursor desynchronised by an orphan shadow
    # cell (finding C06-F2b): _cursor_pos stays off by one until the next full repaint, so later
    # mismatches in the same incremental window (any row) are consequences of that finding
    desync = [f[0] for f in fails if f[3].get("what") == "cursor" and covered_wide_half(spec, f[0], f[3]) == 1]
    for f in fails:
        tags = dict(oracle_tags(spec, f), **extra_tags)
        tags["cursor_desync_since_orphan_shadow"] = 0
        if tags.get("covered_wide_half") == 0 and f[3].get("what") in ("cell", "cursor"):
            window = screens_since_full_repaint(spec, f[0])
            if any(j < f[0] and any(spec["ops"][j] is o for o in window) for j in desync):
                tags["cursor_desync_since_orphan_shadow"] = 1
        key = json.dumps(tags, sort_keys=True)
        if key in seen:
            continue
        seen.add(key)
        small = spec
        if match_known(chk.known, tags) is None:
            unknown = True
            if allow_shrink and chk.violation_count < 3:
                small = shrink_spec(dict(spec, ops=spec["ops"][:f[0] + 1]), f[1])
                f = ([x for x in c06_oracle.check_spec(small) if x[1] == f[1]] or [f])[0]
        chk.violation("oracle", "%s%s at operation %d of %s" % (prefix, f[2], f[0], json.dumps(jsonable_spec(small))[:1500]),
                      tags, {"spec": jsonable_spec(small), "failing_op": f[0], "clause": f[1], "message": f[2], "info": f[3],
                             "how": "harness/c06_impl.py Driver: real Renderer.render on Vt100_Output(StringIO); output interpreted by harness/c06_term.py"})
    return unknown


# --------------------------------------------------------------------------
# generators

CELLS = [None, ("a", ""), (" ", ""), (" ", "bg:#ff0000"), ("b", "bold"), (" ", "bold")]


def small_rows(W):
    for combo in itertools.product(range(len(CELLS)), repeat=W):
        yield {x: CELLS[k] for x, k in enumerate(combo) if CELLS[k] is not None}


def exhaustive_pairs(rng, W, stratum):
    """every (previous row, new row) pair of a one-row screen of width W over
    CELLS, cursor at a random column, inline and full-screen"""
    rows = list(small_rows(W))
    for a in rows:
        for b in rows:
            if stratum < 1.0 and rng.random() >= stratum:
                continue
            fs = rng.random() < 0.5
            mk = lambda r: {"height": 1, "show_cursor": True, "cursor": (rng.randrange(W), 0), "rows": {0: dict(r)}, "zwe": {}}  # noqa
            yield {"fs": fs, "cfgs": [(0, 8, 0)],
                   "ops": [("render", 0, False, W, 2, mk(a)), ("render", 0, False, W, 2, mk(b))]}


def layout_specs(rng, n):
    """screens produced by real layouts (VSplit/HSplit/Window/FormattedTextControl/
    BufferControl + a float) while the text changes; oracle-only stream."""
    from prompt_toolkit.layout import Layout, HSplit, VSplit, Window, FloatContainer, Float
    from prompt_toolkit.layout.controls import FormattedTextControl, BufferControl
    from prompt_toolkit.layout.screen import Screen, WritePosition
    from prompt_toolkit.layout.mouse_handlers import MouseHandlers
    from prompt_toolkit.buffer import Buffer
    from prompt_toolkit.document import Document
    from prompt_toolkit.application import Application
    from prompt_toolkit.application.current import set_app
    from prompt_toolkit.input import DummyInput
    from prompt_toolkit.output.vt100 import Vt100_Output
    from prompt_toolkit.data_structures import Size
    import io
    specs = []
    words = ["", "a", "hello", "界x", "foo bar", "x\ny", "long line of text here", "é-"]
    for _ in range(n):
        W = rng.randint(4, 24)
        H = rng.randint(2, 8)
        state = {"l": "", "r": "", "b": "", "f": ""}
        buf = Buffer()
        buf._load_history_task = True   # no event loop here: skip the asynchronous history load
        lw = Window(FormattedTextControl(lambda: [("class:a", state["l"])]), style=rng.choice(["", "class:b", "bg:#222222"]))
        rw = Window(FormattedTextControl(lambda: [("", state["r"])]), width=rng.randint(1, 6), style=rng.choice(["", "reverse"]))
        bw = Window(BufferControl(buffer=buf), wrap_lines=rng.random() < 0.5)
        body = HSplit([VSplit([lw, rw]), bw, Window(FormattedTextControl(lambda: state["b"]), height=1, style="class:c")])
        floats = [Float(Window(FormattedTextControl(lambda: state["f"]), style="bg:#ff0000"),
                        left=rng.randint(0, 3), top=rng.randint(0, 2))]
        if rng.random() < 0.35:
            # a float with explicit top+height reaching below the last terminal row: Screen.height > rows
            floats.append(Float(Window(FormattedTextControl(lambda: state["f"] or "m"), style="reverse"),
                                left=rng.randint(0, 2), top=max(0, H - 2), height=rng.randint(3, 5), width=3))
        if rng.random() < 0.35:
            # a float with explicit left+width sticking out over the right edge: cells at columns >= width
            floats.append(Float(Window(FormattedTextControl(lambda: (state["f"] or "ov") * 3), style="underline"),
                                left=max(0, W - rng.randint(1, 3)), top=rng.randint(0, 1), width=rng.randint(3, 6), height=1))
        if rng.random() < 0.25:
            # a float with left < 0: cells at negative column indices
            floats.append(Float(Window(FormattedTextControl(lambda: (state["f"] or "ng") * 2), style="reverse"),
                                left=-rng.randint(1, 2), top=rng.randint(0, 1), width=rng.randint(3, 5), height=1))
        root = FloatContainer(body, floats=floats)
        app = Application(layout=Layout(root, focused_element=bw), input=DummyInput(),
                          output=Vt100_Output(io.StringIO(), lambda: Size(rows=H, columns=W), term="xterm"))
        ops = []
        for _ in range(rng.randint(2, 6)):
            for k in state:
                if rng.random() < 0.6:
                    state[k] = rng.choice(words)
            if rng.random() < 0.7:
                txt = " ".join(rng.choice(words) for _ in range(rng.randint(0, 3)))
                buf.set_document(Document(txt, rng.randint(0, len(txt))), bypass_readonly=True)
            screen = Screen()
            app.render_counter += 1

            def draw():
                with set_app(app):
                    root.write_to_screen(screen, MouseHandlers(), WritePosition(0, 0, W, H), "", False, None)
                    screen.draw_all_floats()
            try:
                with_watchdog(draw, 20)
            except Hang:      # a loaded machine, not a verdict: skip this state
                continue
            rows = {}
            for y, row in screen.data_buffer.items():
                if 0 <= y < H:
                    rows[y] = {x: (c.char, c.style) for x, c in row.items()}
            from prompt_toolkit.utils import get_cwidth
            if any(c[0] and get_cwidth(c[0]) == 2 and x == W - 1 for r in rows.values() for x, c in r.items()):
                continue        # wide character straddling the right edge: outside the property's domain
            cur = screen.cursor_positions.get(bw)
            scr = {"height": screen.height, "show_cursor": True,
                   "cursor": (min(cur.x, W - 1), min(cur.y, H - 1)) if cur else (0, 0), "rows": rows, "zwe": {}}
            ops.append(("render", 0, False, W, H, scr))
        if ops:
            specs.append({"fs": rng.random() < 0.5, "cfgs": [(1, rng.choice([1, 4, 8, 24]), 0)], "ops": ops})
    return specs


def dedupe_cfgs(spec):
    seen = {}
    remap = {}
    cfgs = []
    for i, c in enumerate(spec["cfgs"]):
        if c not in seen:
            seen[c] = len(cfgs)
            cfgs.append(c)
        remap[i] = seen[c]
    spec["cfgs"] = cfgs
    spec["ops"] = [(op[0], remap[op[1]]) + tuple(op[2:]) if op[0] == "render" else op for op in spec["ops"]]
    return spec


def gen_specs(chk):
    rng = chk.rng
    thorough = chk.tier == "thorough"
    specs = []
    dist = {}

    def add(kind, it):
        n = 0
        for s in it:
            specs.append((kind, dedupe_cfgs(s)))
            n += 1
        dist[kind] = n
    add("exhaustive_pairs_w1", exhaustive_pairs(rng, 1, 1.0))
    add("exhaustive_pairs_w2", exhaustive_pairs(rng, 2, 1.0))
    add("exhaustive_pairs_w3", exhaustive_pairs(rng, 3, 1.0 if thorough else 0.03))
    add("styled_blank_runs", c06_gen.blank_run_specs(rng))
    add("cells_beyond_right_border", c06_gen.overhang_specs(rng))
    add("negative_columns", c06_gen.neg_cols_specs(rng))
    add("negative_only_rows(C06-F3 regression)", c06_gen.neg_only_specs(rng))
    add("config_change_one_renderer(depth/style/transformation only)", c06_gen.depth_change_specs(rng))
    n_small, n_big, n_tr = (12000, 6000, 1500) if thorough else (1500, 500, 150)
    add("random_small", (c06_gen.rand_spec(rng, 7, 4, rng.randint(1, 8)) for _ in range(n_small)))
    add("random_narrow_only", (c06_gen.rand_spec(rng, 7, 4, rng.randint(1, 8), wide_ok=False) for _ in range(n_small // 3)))
    add("random_12x40", (c06_gen.rand_spec(rng, 40, 12, rng.randint(1, 10)) for _ in range(n_big)))
    add("default_style_visible", (c06_gen.rand_spec(rng, 7, 4, rng.randint(1, 6), transf_ok=True) for _ in range(n_tr)))
    return specs, dist


def describe_spec(spec, upto=None):
    return {"full_screen": spec["fs"], "cfgs(style variant, depth bits, transformation)": spec["cfgs"],
            "ops": [list(op[:5]) + [op[5]] if op[0] == "render" else list(op) for op in spec["ops"][:upto]]}


def jsonable_spec(spec):
    ops = []
    for op in spec["ops"]:
        if op[0] == "render":
            scr = op[5]
            ops.append(["render", op[1], bool(op[2]), op[3], op[4],
                        {"height": scr["height"], "show_cursor": bool(scr["show_cursor"]),
                         "cursor": list(scr["cursor"]) if scr["cursor"] is not None else None,
                         "rows": [[y, [[x, c[0], c[1]] for x, c in sorted(r.items())]] for y, r in sorted(scr["rows"].items())],
                         "zwe": [[y, x, i] for (y, x), i in sorted(scr.get("zwe", {}).items())],
                         "mouse": 1 if scr.get("mouse", 0) else 0, "shape": int(scr.get("shape", 0))}])
        else:
            ops.append([op[0]])
    return {"fs": bool(spec["fs"]), "cfgs": [list(c) for c in spec["cfgs"]], "ops": ops}


def spec_from_json(j):
    ops = []
    for op in j["ops"]:
        if op[0] == "render":
            s = op[5]
            scr = {"height": s["height"], "show_cursor": s["show_cursor"],
                   "cursor": tuple(s["cursor"]) if s["cursor"] is not None else None,
                   "rows": {y: {x: (c, st) for x, c, st in cells} for y, cells in s["rows"]},
                   "zwe": {(y, x): i for y, x, i in s["zwe"]},
                   "mouse": s.get("mouse", 0), "shape": s.get("shape", 0)}
            ops.append(("render", op[1], op[2], op[3], op[4], scr))
        else:
            ops.append((op[0],))
    return {"fs": j["fs"], "cfgs": [tuple(c) for c in j["cfgs"]], "ops": ops}


def shrink_spec(spec, fam):
    """drop operations while the same oracle clause keeps failing"""
    cur = spec
    changed = True
    while changed:
        changed = False
        for i in range(len(cur["ops"])):
            cand = dict(cur, ops=cur["ops"][:i] + cur["ops"][i + 1:])
            try:
                f = c06_oracle.check_spec(cand)
            except Exception:
                continue
            if any(x[1] == fam for x in f):
                cur = cand
                changed = True
                break
    return cur


# --------------------------------------------------------------------------

def main(tier):
    chk = Check(PROP, tier)
    pr = chk.proofs("Props/C06.v", tables=TABLES)
    okm, logm = build_model("c06", "Extract/ExC06.v", "run_C06", tables=TABLES)
    if not okm:
        chk.violation("tie", "model does not build: " + logm[-400:], {"kind": "model-build"}, {"log": logm[-3000:]}, no_input=True)
        return chk.finish()

    specs, dist = gen_specs(chk)
    corpus = []
    cdir = os.path.join(VERIF, "corpus", PROP)
    if os.path.isdir(cdir):
        for f in sorted(os.listdir(cdir)):
            if f.endswith(".json"):
                corpus.append(("corpus", spec_from_json(json.load(open(os.path.join(cdir, f)))["spec"])))
    specs = corpus + specs
    cases, impl_results, kinds = [], [], []
    oracle_bad = set()
    fam_count = {}
    dom = collections.Counter()
    for idx, (kind, spec) in enumerate(specs):
        try:
            case, res, outs, pens = with_watchdog(lambda: impl_case(spec), 20)
        except Exception as e:  # noqa
            chk.violation("oracle", "implementation raised %r while rendering %r" % (e, describe_spec(spec)),
                          {"clause": "raise", "exc": type(e).__name__}, {"spec": jsonable_spec(spec)})
            continue
        # hypothesis Hpv of the theorems on the real tables: attrs that do not count as
        # "has style" must give a pen that is invisible on a blank
        for ci, (stab, atab) in enumerate(case[1]):
            for aid, pen, flags in atab:
                if not any(flags) and c06_oracle.pvis(pens.strs[pen]) != c06_oracle.pvis("\x1b[0m"):
                    chk.violation("tie", "theorem hypothesis Hpv fails on the real tables: attrs without colour/bgcolor/underline/"
                                  "strike/blink/reverse produce the pen %r (cfg %r)" % (pens.strs[pen], spec["cfgs"][ci]),
                                  {"kind": "Hpv"}, {"pen": pens.strs[pen], "cfg": list(spec["cfgs"][ci])}, no_input=True)
        cases.append(case)
        impl_results.append(res)
        kinds.append(kind)
        nontrivial = any(len(r[0]) > 6 for r in res[1:])
        chk.count_case(case, nontrivial)
        for op in spec["ops"]:
            if op[0] == "render":
                okd, wide = in_theorem_domain(op[5], op[3])
                dom["renders_in_theorem_domain" if okd else "renders_outside_theorem_domain(half-covered wide cell, cursor outside, ...)"] += 1
                if okd and wide:
                    dom["renders_in_theorem_domain_with_wide_cells"] += 1
            elif op[0] == "reset":
                dom["bare_resets"] += 1
        fails = c06_oracle.check_spec(spec, outs, pens)
        if fails:
            for f in fails:
                fam_count[f[1]] = fam_count.get(f[1], 0) + 1
            if report_fails(chk, spec, fails, {}, "", True):
                oracle_bad.add(len(cases) - 1)
        if idx % 487 == 0:
            chk.sample({"kind": kind, "spec": jsonable_spec(dict(spec, ops=spec["ops"][:2])), "tokens_of_first_op": res[1][0][:12] if len(res) > 1 else []})
    # oracle-only stream: screens produced by real layouts
    lspecs = layout_specs(chk.rng, 400 if tier == "thorough" else 60)
    nl = 0
    for spec in lspecs:
        try:
            fails = with_watchdog(lambda: c06_oracle.check_spec(spec), 60)
        except Hang:
            chk.note("real-layout sequence skipped: watchdog (machine load)")
            continue
        nl += len(spec["ops"])
        chk.coverage["evaluations"] += 1
        if fails:
            report_fails(chk, spec, fails, {"stream": "layout"}, "real-layout screens: ", False)
    dist["real_layout_sequences(oracle only)"] = len(lspecs)
    dist["real_layout_renders"] = nl
    # the terminal model's two debatable choices (erase fills with the CURRENT pen; wrap is deferred):
    # on the renderer's real output neither is ever exercised, so the verdicts do not depend on them
    chk.coverage["terminal_choice_sensitive_events"] = {k: CHOICE_EVENTS[k] for k in
        ("erase_or_scroll_fill_with_pen_other_than_reset", "text_written_while_autowrap_on")}
    if any(CHOICE_EVENTS.values()):
        chk.note("terminal-model choices exercised by the real output (BCE / deferred wrap): %r - verdicts may depend on them" % dict(CHOICE_EVENTS))
    chk.coverage["input_distribution"] = dict(dist, corpus=len(corpus),
                                              renders=sum(1 for c in cases for o in c[2] if o[0] == 0),
                                              oracle_failures_by_clause=fam_count, **dom)

    def tagger(c, a, m):
        for j, (x, y) in enumerate(zip(a, m if isinstance(m, list) else [])):
            if x != y:
                opk = "constructor" if j == 0 else {0: "render", 1: "erase", 2: "reset"}.get(c[2][j - 1][0], "?")
                part = "tokens" if (not isinstance(y, list) or len(y) < 1 or x[0] != y[0]) else "terminal"
                return {"op": opk, "part": part}
        return {"op": "?"}

    def describe(c, a, m):
        for j, (x, y) in enumerate(zip(a, m if isinstance(m, list) else [])):
            if x != y:
                if isinstance(y, list) and y and x[0] != y[0]:
                    return "step %d tokens impl=%r model=%r" % (j, x[0][:40], y[0][:40])
                return "step %d terminal state differs (Python terminal on real output vs Coq terminal on model tokens)" % j
        return "results differ: %r" % (m if not isinstance(m, list) else "length")

    model_results, nbad = correspondence(chk, "c06", cases, impl_results, tagger, describe=describe, oracle_failed=lambda i: i in oracle_bad)

    k = 300 if chk.tier == "thorough" else 60
    small = [i for i in range(len(cases)) if len(json.dumps(cases[i])) < 6000]
    idx = sorted(chk.rng.sample(small, min(k, len(small))))
    pairs = [(cases[i], impl_results[i]) for i in idx]
    bad, logs = vm_crosscheck(PROP, "run_C06", "Model.C06_Run", pairs, per_file=30)
    chk.coverage["vm_compute_crosschecked"] = len(pairs)
    model_bad = set(i for i, (a, m) in enumerate(zip(impl_results, model_results)) if sx_norm(a) != m)
    vm_bad = set(idx[b] for b in bad if isinstance(b, int))
    if any(not isinstance(b, int) for b in bad):
        chk.violation("tie", "vm_compute cross-check failed to run: " + (logs[0] if logs else ""), {"kind": "vm"}, {"log": logs}, no_input=True)
    if vm_bad != (model_bad & set(idx)):
        chk.violation("tie", "extracted model and in-Coq evaluation disagree on cases %r" % sorted(vm_bad ^ (model_bad & set(idx)))[:5],
                      {"kind": "extraction"}, {"cases": [cases[i] for i in sorted(vm_bad ^ (model_bad & set(idx)))[:3]]}, no_input=True)

    proof_gate(chk, pr)
    chk.coverage["rule"] = (
        "case = (full_screen, style/depth configurations, sequence of render(screen, size, cfg, is_done)/erase/reset) run on the real "
        "Renderer writing to Vt100_Output(StringIO) and on the Coq model; compared: the token stream of every operation and the terminal "
        "state after it (Python terminal on the real bytes vs Coq terminal on the model's tokens); oracle: incremental == from-scratch "
        "(cells modulo attributes invisible on a blank, cursor, visibility, pen, autowrap), rows owned, no scroll, done epilogue, terminal modes. "
        "Exhaustive: all (previous,new) one-row screens of width 1,2 (and 3: %s) over 6 cell kinds; random sequences up to 12x40; "
        "non-trivial = some operation emitted more than 6 tokens; distinct by hash of the case" % ("100%" if tier == "thorough" else "3% sample"))
    chk.assumptions += [
        "the terminal is a model: coq/Model/C06_Terminal.v defines the VT100 subset (CUU/CUD/CUF/CUB with parameter 0 = 1, CR, LF, BS, EL, ED with background-colour-erase, SGR as opaque pen, ?7h/l, ?25h/l, CSI H); the compared terminal is BOUNDED: H rows below the origin (H = the size given to the render; assumed free again after every final render, i.e. CPR/height negotiation is outside), a line feed on the last row scrolls and is counted; rows above the origin (scrollback) exist and must stay untouched",
        "SGR strings are opaque pens; which attributes are invisible on a blank is read off the SGR parameters (bold/italic/hidden, and the foreground colour when nothing is drawn with it)",
        "theorems are for screens whose visible columns hold narrow cells, wide cells followed by their shadow and not straddling the right edge (wf_screen, transcribed as in_theorem_domain and counted in input_distribution); half-covered wide characters (finding C06-F2) are outside; a bare reset() is judged (and proved) where the cursor is in column 0 - after construction, a final render, an erase, a reset, or a render whose cursor column is 0; elsewhere it is correspondence only",
        "cell texts are single code points (width 1 or 2) or the empty shadow cell; mode toggles (alternate screen, bracketed paste, cursor-key mode, mouse support, cursor shapes) are in the model as raw sequences with their bookkeeping state and compared token for token, the oracle compares the resulting mode state with a from-scratch render; the alternate-screen BUFFER contents, titles and terminal resize reflow are outside the model; a cursor shape config switching to _NEVER_CHANGE mid-sequence is not generated (it leaves the old shape by design)"]
    return chk.finish()


def replay(data):
    rep = data["replay"]
    if "spec" in rep:
        spec = spec_from_json(rep["spec"])
        fails = c06_oracle.check_spec(spec)
        pens = PenTable()
        outs = c06_impl.run_impl(spec, pens)
        for i, op in enumerate(spec["ops"]):
            print("op %d %s -> %r" % (i, op[0] if op[0] != "render" else "render(cfg=%r done=%r %dx%d)" % (op[1], op[2], op[3], op[4]), outs[i + 1]))
        for f in fails:
            print("ORACLE FAILS at op %d [%s]: %s" % f[:3])
        if not fails:
            print("oracle ok")
        return 1 if fails else 0
    case = rep["case"]
    m = run_model("c06", [case])[0]
    print("model result differs from the recorded implementation result" if m != rep.get("impl") else "model agrees with recorded result")
    print("impl :", str(rep.get("impl"))[:600])
    print("model:", str(m)[:600])
    return 0
