"""C17 - no keystroke lost, duplicated or misapplied across the accept boundary.
Model: coq/Model/C17_Typeahead.v (+ C17_Emacs.v instance, C17_Run.v); theorems: coq/Props/C17.v.

A scenario drives a real PromptSession on ONE pipe input through a list of
macro operations (write a chunk, start a prompt, let it finish, close).  Hooks
on the session's own objects (input.attach callback, input.flush_keys,
KeyProcessor.feed/process_keys/_call_handler/reset, Application.
_request_absolute_cursor_position, Renderer.wait_for_cpr_responses) record the
transition labels as they really happen and a snapshot after each; the model is
run on the observed labels and must produce the same snapshots."""
import asyncio
import io
import itertools
import os
import re
import sys
import threading
import time

from common import *  # noqa

sys.path.insert(0, os.path.join(VERIF, "gen"))

PROP = "C17"
TABLES = ["Whitespace", "C03_AnsiSequences", "C17_Bindings"]
MODELS = [("c17", "Extract/ExC17.v", "run_C17")]
KEY_OFFSET = 1000
CPR = "\x1b[%d;%dR"
CPR_RE = re.compile(r"\x1b\[\d+;\d+R")

L_WRITE, L_READ, L_FLUSHIN, L_FLUSHKEYS, L_START, L_EXIT, L_EXITEND, L_CPRREQ, L_CLOSE, L_CPRTO = range(10)


# --------------------------------------------------------------------------
# watchdog: common.with_watchdog raises an Exception subclass, which asyncio's
# Handle._run swallows when the alarm goes off inside a loop callback (the loop
# then spins for ever).  Here the alarm raises a KeyboardInterrupt subclass
# (asyncio and prompt_toolkit let it through) and keeps firing.

class Stuck(KeyboardInterrupt):
    pass


def with_watchdog2(fn, seconds):
    import signal

    def on_alarm(signum, frame):
        raise Stuck()
    old = signal.signal(signal.SIGALRM, on_alarm)
    signal.setitimer(signal.ITIMER_REAL, seconds, 0.5)
    try:
        return fn()
    finally:
        signal.setitimer(signal.ITIMER_REAL, 0)
        signal.signal(signal.SIGALRM, old)


# --------------------------------------------------------------------------
# the implementation under hooks

class FakeTty(io.StringIO):
    def isatty(self):
        return True


class Rec:
    """One PromptSession on one pipe input, with recording hooks."""

    def __init__(self, rcpr, inp, extra=False):
        from prompt_toolkit import PromptSession
        from prompt_toolkit.data_structures import Size
        from prompt_toolkit.keys import Keys
        from prompt_toolkit.key_binding import key_processor as kpm
        from prompt_toolkit.output import DummyOutput
        from prompt_toolkit.output.vt100 import Vt100_Output
        import gen_t_c17
        self.effect_of = gen_t_c17.effect_of
        self.Keys = Keys
        self.kid = {k: i for i, k in enumerate(list(Keys))}
        self._Flush = kpm._Flush
        self.rcpr = rcpr
        self.extra = extra
        self.extra_kb = gen_t_c17.extra_key_bindings if extra else None
        self.inp = inp
        self.out = Vt100_Output(FakeTty(), lambda: Size(rows=24, columns=80), term="xterm", enable_cpr=True) if rcpr else DummyOutput()
        self.labels = []
        self.snaps = []
        self.results = []
        self.events = []          # since the last snapshot
        self.handled = []         # every key press that reached a handler, in order (oracle)
        self.late_calls = []      # (effect, keys) of handler calls made after the result was set (oracle)
        self.decoded = []         # every key press the input produced (oracle)
        self.fed = []             # every key press a handler fed with first=True (oracle)
        self.pending = None
        self.started = True
        self.in_prompt = False
        self.exiting = False
        self.desync = None
        self.session = None

    # -- canonical forms
    def code(self, k):
        key = k.key
        if isinstance(key, self.Keys):
            return self.kid[key]
        return KEY_OFFSET + ord(key)

    def kp(self, k):
        if k is self._Flush:
            return [-2, []]
        return [self.code(k), S(k.data)]

    def is_cpr(self, k):
        return k is not self._Flush and k.key == self.Keys.CPRResponse

    def setup(self):
        from prompt_toolkit import PromptSession
        s = PromptSession(key_bindings=self.extra_kb()) if self.extra else PromptSession()
        self.session = s
        app = s.app
        self.app = app
        kp = app.key_processor
        self.kproc = kp
        app.ttimeoutlen = 1000
        app.timeoutlen = None
        app.renderer.CPR_TIMEOUT = 1000
        inp = self.inp
        rec = self

        orig_attach = inp.attach

        def attach(cb):
            def cb2():
                cb()
                rec.snap([L_READ, 1024])
            return orig_attach(cb2)
        inp.attach = attach

        orig_read_keys = inp.read_keys

        def read_keys():
            r = orig_read_keys()
            rec.decoded.extend(r)
            return r
        inp.read_keys = read_keys
        orig_flush_keys = inp.flush_keys

        def flush_keys():
            r = orig_flush_keys()
            rec.decoded.extend(r)
            rec.pending = [L_FLUSHIN]
            return r
        inp.flush_keys = flush_keys

        orig_feed = kp.feed

        def feed(key_press, first=False):
            if key_press is rec._Flush:
                rec.pending = [L_FLUSHKEYS]
            elif first:
                rec.fed.append(key_press)
            return orig_feed(key_press, first)
        kp.feed = feed

        orig_pk = kp.process_keys

        def process_keys():
            try:
                return orig_pk()
            finally:
                if rec.pending is not None:
                    lab, rec.pending = rec.pending, None
                    rec.snap(lab)
        kp.process_keys = process_keys

        orig_call = kp._call_handler

        def call_handler(handler, key_sequence):
            late = 1 if app.is_done else 0
            eff = rec.effect_of(handler.handler)
            ks = list(key_sequence)
            rec.events.append([1, late, eff, [rec.kp(k) for k in ks]])
            rec.handled.extend(ks)
            if late:
                rec.late_calls.append((eff, ks))
            return orig_call(handler, key_sequence)
        kp._call_handler = call_handler

        orig_cpr = getattr(kp, "_handle_cpr_response", None)

        def handle_cpr_response(key_press):
            # the binding the report is delivered to (same search as the method itself)
            for binding in reversed(kp._bindings.get_bindings_for_keys((rec.Keys.CPRResponse,))):
                if binding.keys == (rec.Keys.CPRResponse,) and binding.filter():
                    late = 1 if app.is_done else 0
                    eff = rec.effect_of(binding.handler)
                    rec.events.append([1, late, eff, [rec.kp(key_press)]])
                    rec.handled.append(key_press)
                    if late:
                        rec.late_calls.append((eff, [key_press]))
                    break
            return orig_cpr(key_press)
        if orig_cpr is not None:      # absent: reports go through _call_handler, which is hooked above
            kp._handle_cpr_response = handle_cpr_response

        orig_req = app._request_absolute_cursor_position

        def req():
            w0 = len(app.renderer._waiting_for_cpr_futures)
            if not rec.started:
                rec.started = True
                rec.snap([L_START])
            orig_req()
            if len(app.renderer._waiting_for_cpr_futures) > w0:
                rec.snap([L_CPRREQ])
        app._request_absolute_cursor_position = req

        orig_wait = app.renderer.wait_for_cpr_responses

        async def wait_for_cpr_responses(timeout=1):
            futs = list(app.renderer._waiting_for_cpr_futures)
            if futs:
                rec.exiting = True
                rec.snap([L_EXIT])
            await orig_wait(timeout=0.05)
            rec.timed_out = any(f.cancelled() for f in futs)
        app.renderer.wait_for_cpr_responses = wait_for_cpr_responses
        self.timed_out = False

    # -- snapshots
    def phase(self):
        app = self.app
        if not self.in_prompt:
            return 0
        if app._is_running:
            return 2 if app.is_done else 1
        if app.is_done:
            return 3
        return 0

    def snap(self, label):
        from prompt_toolkit.input import typeahead
        app, kp = self.app, self.kproc
        buf = self.session.default_buffer
        try:
            prefix = self.inp.vt100_parser._input_parser.gi_frame.f_locals.get("prefix", "")
        except Exception:  # noqa
            prefix = ""
        self.labels.append(label)
        self.snaps.append([
            self.phase(),
            [self.kp(k) for k in kp.input_queue],
            [self.kp(k) for k in kp.key_buffer],
            [self.kp(k) for k in typeahead._buffer[self.inp.typeahead_hash()]],
            S(buf.text), buf.cursor_position, 1 if app.quoted_insert else 0,
            len(app.renderer._waiting_for_cpr_futures),
            [list(r) for r in self.results],
            S(prefix),
            self.events,
            [0, 0, [self.kp(k) for k in self.fed]]])
        self.events = []

    # -- operations
    def write(self, text):
        self.inp.send_text(text)
        self.snap([L_WRITE, S(text)])

    def write_bytes(self, data):
        """bytes that may end inside a multi-byte character: the model's pipe holds code points, so the
        label carries the characters completed by this chunk (the reader's incremental decoder keeps
        the rest, exactly like this one)"""
        import codecs
        if not hasattr(self, "_dec"):
            self._dec = codecs.getincrementaldecoder("utf-8")()
        self.inp.send_bytes(bytes(data))
        self.snap([L_WRITE, S(self._dec.decode(bytes(data)))])

    def close(self):
        self.inp.close()
        self.snap([L_CLOSE])

    def before_start(self):
        kp = self.kproc
        self.started = False
        self.exiting = False
        self.timed_out = False
        self.in_prompt = True
        ev = [0]
        if kp.key_buffer or kp.input_queue:
            self.events.append([3, [self.kp(k) for k in kp.key_buffer], [self.kp(k) for k in kp.input_queue]])
            if not kp.input_queue and self.results and self.results[-1] == [1]:
                # the previous prompt ended with EOFError while a prefix of longer bindings was waiting in the key
                # buffer: the input is closed, the waiting key can never complete and reset() discards it
                # (C17_after_accept_any_schedule / C17_eof_witness); accounted for, not a loss across an accept
                self.handled.extend(kp.key_buffer)
        self.events.append(ev)

    def after_prompt(self, result):
        self.in_prompt = False
        self.results.append(result)
        if not self.started:
            # the prompt ended before the input was attached
            self.started = True
            self.desync = "prompt ended before _request_absolute_cursor_position was called"
        if self.exiting:
            self.snap([L_CPRTO] if self.timed_out else [L_EXITEND])
        else:
            self.snap([L_EXIT])

    def finish_prompt(self, fn):
        try:
            r = [0, S(fn())]
        except EOFError:
            r = [1]
        except Stuck:
            raise
        except KeyboardInterrupt:
            r = [2]
        except Exception as e:  # noqa - the prompt raised something else: a result of its own kind
            r = [3, S(type(e).__name__ + ": " + str(e)[:60])]
        self.after_prompt(r)

    async def finish_prompt_async(self):
        try:
            r = [0, S(await self.session.prompt_async())]
        except EOFError:
            r = [1]
        except Stuck:
            raise
        except KeyboardInterrupt:
            r = [2]
        except asyncio.CancelledError:
            raise
        except Exception as e:  # noqa
            r = [3, S(type(e).__name__ + ": " + str(e)[:60])]
        self.after_prompt(r)


async def _pump(n=14):
    for _ in range(n):
        await asyncio.sleep(0)


async def _run_async(rec, ops, maxp):
    task = None
    app = rec.app
    hang = None
    for op in ops:
        kind = op[0]
        if kind == "w":
            fl = op[2] if len(op) > 2 else 0
            if fl & 1:
                app.ttimeoutlen = 0.01
            if fl & 2:
                app.timeoutlen = 0.01
            rec.write(op[1])
            await _pump()
            if fl:
                await asyncio.sleep(0.06)
                await _pump()
                await asyncio.sleep(0.04)
                await _pump()
            app.ttimeoutlen = 1000
            app.timeoutlen = None
        elif kind == "wb":
            rec.write_bytes(op[1])
            await _pump()
        elif kind == "start":
            if task is None or task.done():
                if len(rec.results) >= maxp:
                    continue
                rec.before_start()
                task = asyncio.ensure_future(rec.finish_prompt_async())
                await _pump()
        elif kind == "wait":
            if task is not None and not task.done():
                try:
                    await asyncio.wait_for(asyncio.shield(task), op[1] if len(op) > 1 else 3)
                except asyncio.TimeoutError:
                    if len(op) > 1:
                        continue          # soft wait: the prompt may legitimately still be waiting for keys
                    hang = "prompt %d did not return" % (len(rec.results) + 1)
                    break
                await _pump(4)
        elif kind == "settle":
            # let a prompt that is waiting for cursor position reports time out
            if task is not None and not task.done() and app.is_done:
                try:
                    await asyncio.wait_for(asyncio.shield(task), 3)
                except asyncio.TimeoutError:
                    hang = "prompt %d did not return" % (len(rec.results) + 1)
                    break
                await _pump(4)
        elif kind == "close":
            rec.close()
            await _pump()
        elif kind == "sleep":
            await asyncio.sleep(op[1])
            await _pump()
    if task is not None and not task.done():
        if not rec.inp.pipe._write_closed:
            rec.inp.close()
        try:
            await asyncio.wait_for(task, 3)
        except (asyncio.TimeoutError, asyncio.CancelledError):
            hang = hang or "prompt did not return after close"
    return hang


def run_scenario(sc):
    """-> dict(labels, snaps, results, handled, decoded, late_calls, hang, desync)"""
    from prompt_toolkit.application import create_app_session
    from prompt_toolkit.input import create_pipe_input
    rcpr = sc["rcpr"]
    mode = sc["mode"]
    ops = sc["ops"]
    maxp = sc.get("maxp", 8)
    out = {}

    def body():
        with create_pipe_input() as inp:
            rec = Rec(rcpr, inp, bool(sc.get("extra")))
            with create_app_session(input=inp, output=rec.out):
                hang = None
                if mode == "async":
                    async def main():
                        rec.setup()
                        return await _run_async(rec, ops, maxp)
                    hang = asyncio.run(main())
                elif mode == "fresh":
                    # prompt_toolkit.prompt()-style loop: a NEW PromptSession (Application, KeyProcessor,
                    # Renderer) for every line on the same input; only the results are observed
                    from prompt_toolkit import PromptSession
                    for op in ops:
                        if op[0] == "w":
                            inp.send_text(op[1])
                        elif op[0] == "close":
                            inp.close()
                        elif op[0] == "start" and len(rec.results) < maxp:
                            try:
                                r = [0, S(PromptSession().prompt())]
                            except EOFError:
                                r = [1]
                            except Stuck:
                                raise
                            except KeyboardInterrupt:
                                r = [2]
                            except Exception as e:  # noqa
                                r = [3, S(type(e).__name__ + ": " + str(e)[:60])]
                            rec.results.append(r)
                    out.update(labels=[], snaps=[], results=rec.results, handled=[], decoded=[], late_calls=[],
                               hang=None, desync=None)
                    return
                else:
                    rec.setup()
                    th = None
                    for op in ops:
                        if op[0] == "w":
                            rec.write(op[1])
                        elif op[0] == "close":
                            rec.close()
                        elif op[0] == "thread":
                            def writer(chunks=op[1], delay=op[2]):
                                for c in chunks:
                                    if delay:
                                        time.sleep(delay)
                                    inp.send_text(c)
                                inp.close()
                            th = threading.Thread(target=writer)
                            th.start()
                        elif op[0] == "start":
                            if len(rec.results) >= maxp:
                                continue
                            rec.before_start()
                            rec.finish_prompt(rec.session.prompt)
                    if th is not None:
                        th.join()
                out.update(labels=rec.labels, snaps=rec.snaps, results=rec.results, handled=rec.handled,
                           decoded=rec.decoded, late_calls=rec.late_calls, hang=hang, desync=rec.desync, rec=rec)
    try:
        with_watchdog2(body, 12)
    except (Stuck, Hang):
        out.setdefault("labels", [])
        out.setdefault("snaps", [])
        out.setdefault("results", [])
        out.setdefault("late_calls", [])
        out.pop("rec", None)
        out["hang"] = "watchdog: scenario did not finish in 12 s"
    return out


# --------------------------------------------------------------------------
# scripts: lines of tokens; an independent line interpreter gives the expected results

WORD_RE = re.compile(r"[A-Za-z0-9_]+|[^A-Za-z0-9_\s]+")
TOK_BYTES = {
    "left": ["\x1b[D", "\x02"], "right": ["\x1b[C", "\x06"], "home": ["\x01", "\x1b[H"], "end": ["\x05", "\x1b[F"],
    "bs": ["\x7f"], "del": ["\x1b[3~"], "ctrl-d": ["\x04"], "bword": ["\x1bb"], "fword": ["\x1bf"],
    "kill": ["\x0b"], "discard": ["\x15"], "f1": ["\x1bOP"], "enter": ["\r"], "lf": ["\n"], "esc-enter": ["\x1b\r"], "ctrl-c": ["\x03"],
    "ctrl-o": ["\x0f"], "esc-hash": ["\x1b#"],
}
# tokens whose byte string is two key presses of one binding (a report may arrive between them)
TWO_KEY = ("bword", "fword", "esc-enter", "esc-hash", "escq", "cxq", "quoted")


def tok_bytes(tok, rng=None):
    k = tok[0]
    if k == "c":
        return tok[1]
    if k == "escq":
        return "\x1b" + tok[1]
    if k == "cxq":
        return "\x18" + tok[1]
    if k == "quoted":
        return "\x11" + tok[1]
    if k == "paste":
        return "\x1b[200~" + tok[1] + "\x1b[201~"
    if k == "cpr":
        return CPR % (tok[1], tok[2])
    alts = TOK_BYTES[k]
    return alts[tok[1] % len(alts)] if len(tok) > 1 else alts[0]


def expected_results(tokens, closed=True):
    """What the property text promises for a token stream typed into consecutive
    prompts: every key edits the line being typed when it arrives, terminators
    end the line, reports do nothing."""
    res = []
    text, cur = "", 0
    for tok in tokens:
        k = tok[0]
        if k == "c" or k == "paste":
            text = text[:cur] + tok[1] + text[cur:]
            cur += len(tok[1])
        elif k in ("escq", "cxq", "quoted"):
            text = text[:cur] + tok[1] + text[cur:]
            cur += 1
        elif k == "left":
            cur = max(0, cur - 1)
        elif k == "right":
            cur = min(len(text), cur + 1)
        elif k == "home":
            cur = 0
        elif k == "end":
            cur = len(text)
        elif k == "bs":
            if cur > 0:
                text = text[:cur - 1] + text[cur:]
                cur -= 1
        elif k == "del":
            text = text[:cur] + text[cur + 1:]
        elif k == "ctrl-d":
            if text == "":
                res.append([1])
                text, cur = "", 0
            else:
                text = text[:cur] + text[cur + 1:]
        elif k == "bword":
            m = WORD_RE.search(text[:cur][::-1])
            if m:
                cur -= m.end()
        elif k == "fword":
            m = WORD_RE.search(text[cur:][1:])
            if m:
                cur += m.end() + 1
        elif k == "kill":
            text = text[:cur]
        elif k == "discard":
            text, cur = text[cur:], 0
        elif k in ("f1", "cpr", "esc-flush"):
            pass
        elif k in ("enter", "esc-enter", "lf", "ctrl-o"):
            res.append([0, S(text)])      # c-o (operate-and-get-next) accepts the line too
            text, cur = "", 0
        elif k == "esc-hash":
            # insert-comment: '#' in front of every line, then the line is accepted
            res.append([0, S("\n".join("#" + l for l in text.splitlines()))])
            text, cur = "", 0
        elif k == "ctrl-c":
            res.append([2])
            text, cur = "", 0
        else:
            raise ValueError(k)
    if closed:
        res.append([1])
    return res


# --------------------------------------------------------------------------
# oracle over the implementation's own observations (never calls the model)

def oracle(sc, o):
    """-> list of (clause, tags, detail)"""
    bad = []
    rec = o.get("rec")
    if o.get("hang"):
        bad.append(("a prompt did not return although its line (or the end of input) was delivered: " + o["hang"],
                    {"clause": "returns", "family": "hang"}, {}))
        return bad
    if rec is None:
        return bad
    is_cpr = rec.is_cpr
    nc = lambda l: [(rec.code(k), k.data) for k in l if k is not rec._Flush and not is_cpr(k)]  # noqa
    # conservation at the end of the scenario (a loss or duplication is permanent, so the end suffices)
    from prompt_toolkit.input import typeahead
    kp = rec.kproc
    left = list(kp.key_buffer) + list(typeahead._buffer[rec.inp.typeahead_hash()]) + list(kp.input_queue)
    # key presses a handler fed into the processor (C-j feeds a ControlM) were never typed: only the
    # objects the input produced count
    ids = set(id(k) for k in rec.decoded)
    real = lambda l: [k for k in l if id(k) in ids]  # noqa
    if nc(real(rec.handled)) + nc(real(left)) != nc(rec.decoded):
        a, b = nc(real(rec.handled)) + nc(real(left)), nc(rec.decoded)
        i = next((j for j in range(min(len(a), len(b))) if a[j] != b[j]), min(len(a), len(b)))
        fam = "lost" if len(a) < len(b) else ("duplicated" if len(a) > len(b) else "reordered")
        bad.append(("keys that reached handlers ++ key buffer ++ type-ahead ++ queue differ from the decoded keys at index %d" % i,
                    {"clause": "conservation", "family": fam}, {"at": i, "seen": a[i:i + 3], "decoded": b[i:i + 3]}))
    # C17_handler_conservation: the only key presses handlers see beyond the decoded ones are those a
    # handler fed with first=True (C-j feeds ControlM), each exactly once
    extra = sorted(id(k) for k in list(rec.handled) + left if id(k) not in ids and k is not rec._Flush)
    if extra != sorted(id(k) for k in rec.fed):
        fam = "fed-lost" if len(extra) < len(rec.fed) else ("fed-duplicated" if len(extra) > len(rec.fed) else "foreign-key")
        bad.append(("key presses that reached handlers (or wait) without having been decoded: %d, fed by handlers: %d" % (len(extra), len(rec.fed)),
                    {"clause": "conservation", "family": fam}, {}))
    for snap in o["snaps"]:
        if any(it[0] == rec.kid[rec.Keys.CPRResponse] for it in snap[3]):
            bad.append(("a cursor position report was stored as type-ahead", {"clause": "cpr-stored", "family": "typeahead"}, {}))
            break
    for eff, ks in o["late_calls"]:
        if not (len(ks) == 1 and is_cpr(ks[0])):
            bad.append(("a key reached a handler after the result was set: %r" % ([k.data for k in ks],),
                        {"clause": "after-accept", "family": "handler-%d" % eff}, {}))
            break
    # cursor position reports never appear as text
    for r in ([] if sc.get("report_only") else o["results"]):
        if r[0] == 0 and CPR_RE.search(unS(r[1])):
            bad.append(("a cursor position report appears in a returned line: %r" % unS(r[1]),
                        {"clause": "cpr-as-text", "family": "after-quoted-insert" if sc.get("quoted_split") else (sc.get("cpr_class") or "none")}, {}))
            break
    return bad


def classify_results(sc, results):
    """script clause: None or (what, tags)"""
    if "tokens" not in sc:
        return None
    exp = expected_results(sc["tokens"])
    if sc.get("maxp") is not None:
        exp = exp[:sc["maxp"]]
    got = results[:len(exp)] if len(results) > len(exp) and all(r == [1] for r in results[len(exp):]) else results
    if got == exp:
        return None
    i = next((j for j in range(min(len(got), len(exp))) if got[j] != exp[j]), min(len(got), len(exp)))
    return ("prompt %d returned %s, the script says %s" % (i + 1, show_res(got[i]) if i < len(got) else "nothing",
                                                            show_res(exp[i]) if i < len(exp) else "nothing"), i)


def show_res(r):
    if r[0] == 3:
        return "raised " + unS(r[1])
    return repr(unS(r[1])) if r[0] == 0 else ("EOFError" if r[0] == 1 else "KeyboardInterrupt")


# --------------------------------------------------------------------------
# generators

ALPHA = "abcXY  .-_9é"


def rand_line(rng, allow_flush=False):
    toks = []
    for _ in range(rng.choice([0, 1, 2, 3, 4, 6, 9])):
        r = rng.random()
        if r < 0.45:
            toks.append(("c", rng.choice(ALPHA)))
        elif r < 0.75:
            toks.append((rng.choice(["left", "right", "home", "end", "bs", "del", "bword", "fword", "kill", "discard", "f1", "ctrl-d"]),
                         rng.randint(0, 1)))
        elif r < 0.83:
            toks.append(("escq", rng.choice("qzQ,")))
        elif r < 0.88:
            toks.append(("cxq", rng.choice("qz")))
        elif r < 0.93:
            toks.append(("quoted", rng.choice("ab\x01\x1b\r")))
        else:
            toks.append(("paste", "".join(rng.choice("pq r\x1b") for _ in range(rng.randint(0, 4)))))
    toks.append((rng.choice(["enter", "enter", "enter", "lf", "lf", "lf", "esc-enter", "ctrl-c", "ctrl-o", "esc-hash"]), 0))
    return toks


def rand_script(rng, nlines=None):
    n = nlines or rng.randint(2, 5)
    toks = []
    for _ in range(n):
        toks += rand_line(rng)
    return toks


def cut(rng, s, mean):
    """random chunking of s"""
    out, i = [], 0
    while i < len(s):
        n = 1 + int(rng.expovariate(1.0 / mean))
        out.append(s[i:i + n])
        i += n
    return out


def inject_cprs(rng, toks, where):
    """insert cpr tokens; where = 'boundary' (between tokens) | 'key' (also between the
    two key presses of one binding) -> tokens with ('split', tok, cpr) items"""
    out = []
    for t in toks:
        if where == "key" and t[0] in TWO_KEY and rng.random() < 0.5:
            out.append(("split", t, ("cpr", rng.randint(1, 24), rng.randint(1, 80))))
        else:
            out.append(t)
        if rng.random() < 0.25:
            out.append(("cpr", rng.randint(1, 24), rng.randint(1, 80)))
    return out


def cpr_class(toks):
    """where the reports of a token list sit: None (no report) | 'boundary' | 'mid-binding'
    (between the two key presses of one binding) | 'after-quoted-insert' (only after c-q)"""
    kinds = set(t[1][0] for t in toks if t[0] == "split")
    if kinds - {"quoted"}:
        return "mid-binding"
    if kinds:
        return "after-quoted-insert"
    return "boundary" if any(t[0] == "cpr" for t in toks) else None


def has_quoted_split(toks):
    return any(t[0] == "split" and t[1][0] == "quoted" for t in toks)


def bytes_of(toks):
    s = []
    for t in toks:
        if t[0] == "split":
            b = tok_bytes(t[1])
            s.append(b[0] + tok_bytes(t[2]) + b[1:])
        else:
            s.append(tok_bytes(t))
    return "".join(s)


def plain(toks):
    return [t[1] if t[0] == "split" else t for t in toks]


def mk_async(rng, toks, data, rcpr, mean, maxp, extra=None):
    """chunks written while prompts are started at random moments; after the close
    prompts are started until one more than the script's lines has returned"""
    ops = []
    started = False
    chunks = cut(rng, data, mean)
    pre = rng.choice([0, 0, 1, 2, len(chunks)])       # chunks delivered before the first prompt
    for i, c in enumerate(chunks):
        if i >= pre:
            ops.append(("start",))
        ops.append(("w", c))
        if rcpr and rng.random() < 0.4:
            ops.append(("settle",))
    ops.append(("close",))
    for _ in range(maxp + 1):
        ops.append(("start",))
        ops.append(("wait",))
    sc = {"rcpr": rcpr, "mode": "async", "ops": [list(o) for o in ops if o], "tokens": [list(t) for t in plain(toks)], "maxp": maxp}
    if extra:
        sc.update(extra)
    return sc


def mk_sync(toks, data, maxp, extra=None):
    ops = [("w", data), ("close",)] + [("start",)] * maxp
    sc = {"rcpr": 0, "mode": "sync", "ops": [list(o) for o in ops], "tokens": [list(t) for t in plain(toks)], "maxp": maxp}
    if extra:
        sc.update(extra)
    return sc


def mk_thread(rng, toks, data, maxp):
    chunks = cut(rng, data, rng.choice([1, 2, 5]))
    ops = [("thread", chunks, rng.choice([0.0, 0.0005, 0.002]))] + [("start",)] * maxp
    return {"rcpr": 0, "mode": "thread", "ops": [list(o) for o in ops], "tokens": [list(t) for t in plain(toks)], "maxp": maxp}


HAND = [
    # DESIGN F11: a report between Escape and b
    [("c", "f"), ("c", "o"), ("c", "o"), ("c", " "), ("c", "b"), ("c", "a"), ("c", "r"), ("bword", 0), ("c", "X"), ("enter", 0)],
    [("c", "f"), ("c", "o"), ("c", "o"), ("c", " "), ("c", "b"), ("c", "a"), ("c", "r"), ("split", ("bword", 0), ("cpr", 5, 1)), ("c", "X"), ("enter", 0)],
    [("c", "f"), ("c", "o"), ("split", ("quoted", "a"), ("cpr", 5, 1)), ("c", "r"), ("enter", 0), ("c", "z"), ("enter", 0)],
    [("c", "a"), ("cpr", 3, 1), ("c", "b"), ("enter", 0), ("cpr", 4, 1), ("c", "c"), ("bword", 0), ("cpr", 9, 9), ("c", "d"), ("enter", 0)],
    [("c", "a"), ("c", "b"), ("ctrl-c", 0), ("c", "c"), ("c", "d"), ("enter", 0), ("ctrl-d", 0), ("c", "x"), ("enter", 0)],
    [("c", "a"), ("esc-enter", 0), ("split", ("esc-enter", 0), ("cpr", 1, 1)), ("c", "b"), ("enter", 0)],
    [("paste", "p q"), ("left", 0), ("left", 1), ("bs", 0), ("enter", 0), ("paste", ""), ("c", "k"), ("enter", 0)],
    # line feed accepts like carriage return (C-j feeds a ControlM to the FRONT of the queue)
    [("c", "o"), ("c", "n"), ("c", "e"), ("lf", 0), ("c", "t"), ("c", "w"), ("c", "o"), ("lf", 0), ("c", "t"), ("lf", 0)],
    [("c", "a"), ("lf", 0), ("c", "b"), ("bword", 0), ("c", "X"), ("enter", 0), ("cpr", 2, 2), ("c", "c"), ("lf", 0), ("lf", 0), ("c", "d"), ("esc-enter", 0)],
    # the other accepting bindings of the default table: c-o (operate-and-get-next), ESC # (insert-comment)
    [("c", "a"), ("ctrl-o", 0), ("c", "b"), ("enter", 0), ("c", "c"), ("esc-hash", 0), ("esc-hash", 0), ("c", "d"), ("ctrl-o", 0), ("ctrl-o", 0)],
    [("c", "x"), ("quoted", "\r"), ("c", "y"), ("esc-hash", 0), ("c", "z"), ("split", ("esc-hash", 0), ("cpr", 7, 7)), ("c", "w"), ("lf", 0)],
]


def gen_scenarios(chk):
    rng = chk.rng
    thorough = chk.tier == "thorough"
    scs = []
    dist = {}

    def add(kind, sc):
        sc["kind"] = kind
        scs.append(sc)
        dist[kind] = dist.get(kind, 0) + 1

    for toks in HAND:
        data = bytes_of(toks)
        n = len(expected_results(plain(toks)))
        ex = {"cpr_class": cpr_class(toks), "quoted_split": has_quoted_split(toks)}
        add("hand-sync", mk_sync(toks, data, n, ex))
        for mean in (1, 3, 100):
            for rc in (0, 1):
                add("hand-async", mk_async(rng, toks, data, rc, mean, n, ex))
    # exhaustive chunkings of a short two-line script with an escape sequence, an Escape-prefixed binding
    small = [("c", "a"), ("c", "b"), ("bword", 0), ("c", "X"), ("enter", 0), ("left", 0), ("c", "c"), ("enter", 0)]
    data = bytes_of(small)
    cuts = list(itertools.product([0, 1], repeat=len(data) - 1))
    if not thorough:
        cuts = rng.sample(cuts, 60)
    for cs in cuts:
        chunks, cur = [], data[0]
        for c, ch in zip(cs, data[1:]):
            if c:
                chunks.append(cur)
                cur = ch
            else:
                cur += ch
        chunks.append(cur)
        pre = rng.randint(0, len(chunks))
        ops = []
        for i, c in enumerate(chunks):
            if i >= pre:
                ops.append(["start"])
            ops.append(["w", c])
        ops.append(["close"])
        ops += [["start"], ["wait"]] * 4
        add("exhaustive-chunking", {"rcpr": 0, "mode": "async", "ops": ops, "tokens": [list(t) for t in small], "maxp": 3})
    # a new PromptSession per line (what prompt_toolkit.prompt() in a loop does): results only
    nfresh = 120 if thorough else 12
    for _ in range(nfresh):
        toks = rand_script(rng, rng.randint(2, 4))
        n = len(expected_results(toks))
        sc = mk_sync(toks, bytes_of(toks), n)
        sc["mode"] = "fresh"
        add("fresh-session-per-prompt", sc)
    nrand = 1500 if thorough else 170
    for _ in range(nrand):
        toks = rand_script(rng)
        n = len(expected_results(toks))
        data = bytes_of(toks)
        r = rng.random()
        if r < 0.2:
            add("random-sync-all-at-once", mk_sync(toks, data, n))
        elif r < 0.75:
            add("random-async-chunks", mk_async(rng, toks, data, 0, rng.choice([1, 2, 4, 9, 30]), n))
        else:
            add("random-writer-thread", mk_thread(rng, toks, data, n))
    ncpr = 1200 if thorough else 150
    for _ in range(ncpr):
        toks0 = rand_script(rng, rng.randint(2, 4))
        where = rng.choice(["boundary", "boundary", "key"])
        toks = inject_cprs(rng, toks0, where)
        cls = cpr_class(toks)
        n = len(expected_results(plain(toks)))
        data = bytes_of(toks)
        rc = rng.choice([0, 1, 1])
        add("random-cpr-" + where, mk_async(rng, toks, data, rc, rng.choice([1, 3, 8, 40]), n,
                                            {"cpr_class": cls, "quoted_split": has_quoted_split(toks)}))
    # timeouts: a lone Escape flushed by ttimeoutlen, then by timeoutlen; c-x flushed by timeoutlen
    nfl = 120 if thorough else 14
    for _ in range(nfl):
        pre = [("c", rng.choice("ab")) for _ in range(rng.randint(0, 2))]
        post = [("c", rng.choice("bf")), ("enter", 0), ("c", "z"), ("enter", 0)]
        which = rng.choice(["esc", "cx"])
        ops = [["start"], ["w", bytes_of(pre)] if pre else ["sleep", 0], ["w", "\x1b" if which == "esc" else "\x18", 3 if which == "esc" else 2],
               ["w", bytes_of(post)], ["close"]] + [["start"], ["wait"]] * 3
        toks = pre + [("esc-flush",)] + post
        add("flush-timeouts", {"rcpr": 0, "mode": "async", "ops": ops, "tokens": [list(t) for t in toks], "maxp": 3})
    # the ttimeoutlen timer expiring after the result is set (application waiting for reports):
    # flush_input() must not flush the parser then - the rest of the key arrives in the next prompt
    nfx = 40 if thorough else 6
    for _ in range(nfx):
        l1 = [("c", rng.choice("xy")) for _ in range(rng.randint(0, 2))] + [("enter", 0)]
        l2a = [("c", rng.choice("ab")) for _ in range(rng.randint(1, 3))]
        key = rng.choice([("left", 0), ("right", 0), ("del", 0), ("f1", 0), ("end", 1)])
        l2b = [("c", "Y"), ("enter", 0)]
        kb = tok_bytes(key)
        ops = [["start"], ["w", bytes_of(l1 + l2a) + kb[:1], 1], ["settle"], ["start"], ["w", kb[1:] + bytes_of(l2b)], ["close"]] + [["start"], ["wait"]] * 3
        toks = l1 + l2a + [key] + l2b
        add("timeout-while-exiting", {"rcpr": 1, "mode": "async", "ops": ops, "tokens": [list(t) for t in toks], "maxp": 3})
    # a binding that ends the prompt firing from the retry scan with keys left in the buffer: the session
    # gets the user binding ('c-c', 'c-c'), so c-c waits; the key after it makes the scan fire c-c
    # (KeyboardInterrupt) and must then go back to the queue for the next prompt
    nxs = 80 if thorough else 10
    for _ in range(nxs):
        toks = []
        for _ in range(rng.randint(1, 3)):
            toks += [("c", rng.choice("abX ")) for _ in range(rng.randint(0, 3))] + [("ctrl-c", 0)]
            toks += [rng.choice([("enter", 0), ("c", "q"), ("left", 0), ("bword", 0), ("esc-enter", 0), ("f1", 0), ("c", "x")])]
            toks += [("c", rng.choice("yz")) for _ in range(rng.randint(0, 2))] + [("enter", 0)]
        toks += [("c", "z"), ("enter", 0)]
        n = len(expected_results(toks))
        data = bytes_of(toks)
        if rng.random() < 0.3:
            sc = mk_sync(toks, data, n)
        else:
            sc = mk_async(rng, toks, data, rng.randint(0, 1), rng.choice([1, 2, 5, 40]), n)
        sc["extra"] = 1
        add("exit-from-retry-scan", sc)
    # non-ASCII text with chunk boundaries INSIDE multi-byte UTF-8 characters (PosixStdinReader's
    # incremental decoder has to carry the partial character over to the next read)
    nu8 = 150 if thorough else 16
    for _ in range(nu8):
        toks = []
        for _ in range(rng.randint(2, 3)):
            for _ in range(rng.randint(1, 6)):
                r = rng.random()
                if r < 0.6:
                    toks.append(("c", rng.choice("é界😀ïa 日ß")))
                else:
                    toks.append((rng.choice(["left", "right", "home", "end", "bs", "del", "bword", "fword"]), rng.randint(0, 1)))
            toks.append((rng.choice(["enter", "lf"]), 0))
        raw = bytes_of(toks).encode("utf-8")
        # cut points: every position inside a multi-byte character with probability 1/2, others 1/6
        cuts = [i for i in range(1, len(raw)) if rng.random() < (0.5 if (raw[i] & 0xC0) == 0x80 else 0.16)]
        chunks = [raw[a:b] for a, b in zip([0] + cuts, cuts + [len(raw)])]
        n = len(expected_results(toks))
        pre = rng.choice([0, 0, 1, len(chunks)])
        ops = []
        for i, c in enumerate(chunks):
            if i >= pre:
                ops.append(["start"])
            ops.append(["wb", list(c)])
        ops.append(["close"])
        ops += [["start"], ["wait"]] * (n + 1)
        add("utf8-split-inside-characters", {"rcpr": 0, "mode": "async", "ops": ops, "tokens": [list(t) for t in toks], "maxp": n})
    # several lines (and the beginning of one more) in ONE write before the first prompt: the first prompt
    # takes its line out of one read, the following ones complete purely from type-ahead (run_async's
    # early path: get_typeahead -> process_keys -> result set before the input is attached) with keys
    # left over each time (store_typeahead); the pipe stays open, the rest arrives while a prompt waits
    nta = 160 if thorough else 24
    for _ in range(nta):
        toks = rand_script(rng, rng.randint(3, 6))
        pieces = [tok_bytes(t) for t in toks]
        data = "".join(pieces)
        ncomp = rng.randint(max(1, len(toks) * 2 // 3), len(toks))     # tokens completely inside the first write
        cutpos = len("".join(pieces[:ncomp]))
        if ncomp < len(toks) and len(pieces[ncomp]) > 1 and rng.random() < 0.6:
            cutpos += rng.randint(1, len(pieces[ncomp]) - 1)             # ... plus a part of the next key's bytes
        k = len(expected_results(toks[:ncomp], closed=False))
        n = len(expected_results(toks))
        ops = [["w", data[:cutpos]]] + [["start"], ["wait"]] * k + [["start"]]
        ops += [["w", c] for c in cut(rng, data[cutpos:], rng.choice([1, 3, 50]))]
        if rng.random() < 0.5:
            ops.append(["sleep", 0.01])
        ops += [["close"]] + [["start"], ["wait"]] * (n + 1)
        add("typeahead-several-lines-then-more", {"rcpr": rng.choice([0, 0, 1]), "mode": "async", "ops": ops,
                                                  "tokens": [list(t) for t in toks], "maxp": n})
    # reports right after the accepting key and inside the next line, everything in one or two writes: the
    # report is taken out of the queue after the result is set while the keys before and behind it stay,
    # in order, and become type-ahead
    nca = 160 if thorough else 24
    for _ in range(nca):
        toks = []
        for _ in range(rng.randint(2, 4)):
            line = rand_line(rng)
            body, term = line[:-1], line[-1]
            if body and rng.random() < 0.6:
                body.insert(rng.randint(0, len(body)), ("cpr", rng.randint(1, 24), rng.randint(1, 80)))
            toks += body + [term]
            for _ in range(rng.choice([1, 1, 2, 0])):
                toks.append(("cpr", rng.randint(1, 24), rng.randint(1, 80)))
        n = len(expected_results(plain(toks)))
        add("cpr-behind-accept-in-one-read", mk_async(rng, toks, bytes_of(toks), rng.choice([0, 1, 1]), rng.choice([1000, 1000, 25]), n,
                                                     {"cpr_class": "boundary", "quoted_split": False}))
    # several prompt_async() calls in ONE event loop with a busy gap between them: the first prompt ends
    # with half an escape sequence pending in the parser and the ttimeoutlen flush timer armed (10 ms); the
    # loop keeps running for 100 ms with no application - a timer outliving its run must not flush the
    # parser (or feed the key processor) - then the next prompt gets the rest of the key
    ngap = 60 if thorough else 8
    for _ in range(ngap):
        l1 = [("c", rng.choice("xy")) for _ in range(rng.randint(0, 2))] + [(rng.choice(["enter", "lf", "ctrl-c"]), 0)]
        l2a = [("c", rng.choice("ab")) for _ in range(rng.randint(1, 3))]
        key = rng.choice([("left", 0), ("right", 0), ("del", 0), ("f1", 0), ("end", 1), ("bword", 0)])
        l2b = [("c", "Y"), ("enter", 0), ("c", "z"), ("enter", 0)]
        kb = tok_bytes(key)
        ck = rng.choice([1, 2]) if len(kb) > 2 else 1       # the read with the accept ends after ESC, or after ESC [ / ESC O
        ops = [["start"], ["w", bytes_of(l1 + l2a) + kb[:ck], rng.choice([1, 3])], ["sleep", 0.02], ["start"],
               ["w", kb[ck:] + bytes_of(l2b)], ["sleep", 0.02], ["close"]] + [["start"], ["wait"]] * 4
        toks = l1 + l2a + [key] + l2b
        add("busy-gap-between-prompts", {"rcpr": 0, "mode": "async", "ops": ops, "tokens": [list(t) for t in toks], "maxp": 4})
    # the input is closed while a key press that is a prefix of longer bindings (c-x, Escape) waits in the key
    # buffer: the prompt ends with EOFError, the next reset() throws the waiting key away (C17_eof_witness);
    # the returned lines are the script's, every later prompt raises EOFError
    neof = 60 if thorough else 8
    for _ in range(neof):
        toks = rand_script(rng, rng.randint(1, 3))
        tail_text = [("c", rng.choice("ab")) for _ in range(rng.randint(0, 2))]
        pend = rng.choice(["\x18", "\x1b", "\x18"])
        n = len(expected_results(toks))
        data = bytes_of(toks) + bytes_of(tail_text) + pend
        ops = [["start"]] + [["w", c] for c in cut(rng, data, rng.choice([2, 50]))] + [["close"]] + [["start"], ["wait"]] * (n + 2)
        add("eof-with-pending-prefix", {"rcpr": rng.choice([0, 1]), "mode": "async", "ops": ops, "tokens": [list(t) for t in toks], "maxp": n + 2})
    # reports cut into a key's own byte sequence: not something a terminal does; reported separately
    nmid = 200 if thorough else 20
    for _ in range(nmid):
        toks = rand_script(rng, 2)
        data = bytes_of(toks)
        esc = [i for i in range(1, len(data)) if data[i - 1] == "\x1b" and data[i] in "[O"]
        if not esc:
            continue
        i = rng.choice(esc)
        data2 = data[:i] + CPR % (2, 2) + data[i:]
        n = len(expected_results(toks)) + 1
        add("cpr-inside-a-key-sequence", mk_async(rng, toks, data2, rng.randint(0, 1), rng.choice([2, 50]), n,
                                                  {"cpr_class": "inside-key-bytes", "report_only": True}))
    return scs, dist


# --------------------------------------------------------------------------

def flags_of(sc):
    return sc["rcpr"] + (2 if sc.get("extra") else 0)


def run_one(chk, sc, oracle_bad, idx):
    o = run_scenario(sc)
    viol = []
    for what, tags, detail in oracle(sc, o):
        viol.append((what, tags))
    cr = None
    if not o.get("hang") and not sc.get("report_only"):
        cr = classify_results(sc, o["results"])
        if cr is not None:
            what, i = cr
            cls = sc.get("cpr_class")
            fam = "script"
            if cls in ("mid-binding", "after-quoted-insert", "boundary"):
                # is the script right without the reports?  then the reports changed the outcome
                sc0 = dict(sc)
                data0 = bytes_of([t for t in [tuple(x) for x in sc["tokens"]] if t[0] != "cpr"])
                sc0["ops"] = [["w", data0], ["close"]] + [["start"], ["wait"]] * (sc["maxp"] + 1)
                sc0["mode"] = "async"
                sc0["tokens"] = [t for t in sc["tokens"] if t[0] != "cpr"]
                o0 = run_scenario(sc0)
                if classify_results(sc0, o0["results"]) is None:
                    fam = {"mid-binding": "cpr-splits-pending-multikey-sequence",
                           "after-quoted-insert": "cpr-consumed-by-quoted-insert",
                           "boundary": "cpr-at-key-sequence-boundary-changes-result"}[cls]
            viol.append((what, {"clause": "script", "family": fam}))
    if viol:
        oracle_bad.add(idx)
    return o, viol, cr


def describe_sc(sc):
    return {"rcpr": sc["rcpr"], "mode": sc["mode"], "ops": sc["ops"], "tokens": sc.get("tokens"), "maxp": sc.get("maxp"),
            "cpr_class": sc.get("cpr_class"), "quoted_split": sc.get("quoted_split"), "kind": sc.get("kind"), "extra": sc.get("extra"),
            "how": "harness/c17.py run_scenario: PromptSession on create_pipe_input(); ops: w=send_text, start=prompt_async()/prompt(), wait=await it, close=close the write end"}


def main(tier):
    chk = Check(PROP, tier)
    pr = chk.proofs("Props/C17.v", tables=TABLES)
    okm, logm = build_model("c17", "Extract/ExC17.v", "run_C17", tables=TABLES)
    if not okm:
        chk.violation("tie", "model does not build: " + logm[-400:], {"kind": "model-build"}, {"log": logm[-3000:]}, no_input=True)
        return chk.finish()
    import logging
    logging.getLogger("asyncio").setLevel(logging.CRITICAL)

    scs, dist = gen_scenarios(chk)
    for c in load_corpus_scenarios():
        scs.insert(0, c)
    cases, impl_results, kept = [], [], []
    oracle_bad = set()
    report_only = {"cases": 0, "results_differ_from_script": 0}
    t_impl = time.time()
    hangs = 0
    truncated = 0
    for sc in scs:
        if hangs >= 3 or chk.violation_count >= 80:
            chk.note("scenario loop stopped early after %d scenarios: %d prompts did not return, %d violations so far"
                     % (len(cases), hangs, chk.violation_count))
            break
        idx = len(cases)
        o, viol, cr = run_one(chk, sc, oracle_bad, idx)
        for what, tags in viol:
            chk.violation("oracle", what + "  [" + sc.get("kind", "") + "; bytes " + repr(all_bytes(sc))[:200] + "]", tags,
                          {"scenario": describe_sc(sc), "observed_results": [show_res(r) for r in o["results"]],
                           "expected_results": [show_res(r) for r in expected_results([tuple(t) for t in sc["tokens"]])] if "tokens" in sc else None,
                           "clause": what})
        if sc.get("report_only"):
            report_only["cases"] += 1
            if classify_results(sc, o["results"]) is not None:
                report_only["results_differ_from_script"] += 1
        if o.get("hang"):
            hangs += 1
        if o.get("desync"):
            chk.note("harness: " + o["desync"])
        if sc["mode"] in ("thread", "fresh"):
            # chunking decided by the OS: results only; the model runs the all-at-once delivery
            labels = [[L_WRITE, S(all_bytes(sc))], [L_CLOSE]]
            for r in o["results"]:
                labels += [[L_START], [L_READ, 1024], [L_EXIT]]
            cases.append([flags_of(sc), labels, 1])
            impl_results.append([o["results"]])
        else:
            # a misapplied key (known findings) can reach a handler outside the 22 modelled
            # classes: the model cannot follow from there on, the comparison stops before that label
            labels, snaps = o["labels"], o["snaps"]
            cutj = next((j for j, sn in enumerate(snaps) if any(ev[0] == 1 and ev[2] in (97, 98, 99) for ev in sn[10])), None)
            if cutj is not None:
                labels, snaps = labels[:cutj], snaps[:cutj]
                truncated += 1
            cases.append([flags_of(sc), labels])
            impl_results.append(snaps)
        kept.append(sc)
        chk.count_case(json.dumps([flags_of(sc), sc["mode"], sc["ops"]]), len(o["results"]) >= 2 and any(r[0] == 0 for r in o["results"]))
        if idx % 97 == 0:
            chk.sample({"kind": sc.get("kind"), "bytes": all_bytes(sc)[:80], "mode": sc["mode"], "rcpr": sc["rcpr"],
                        "results": [show_res(r) for r in o["results"]], "labels": len(o["labels"])})
    t_impl = time.time() - t_impl

    # thread cases: compare results only (third element marks them)
    model_cases = [c[:2] for c in cases]
    model_raw = run_model("c17", model_cases)
    nbad = 0
    model_results = []
    for i, (c, a, m) in enumerate(zip(cases, impl_results, model_raw)):
        a = sx_norm(a)
        if len(c) == 3:
            # results of the model's final snapshot, cut after the EOF the writer's close produces
            mr = m[-1][8] if isinstance(m, list) and m and isinstance(m[-1], list) and len(m[-1]) > 8 else m
            m2 = [mr]
        else:
            m2 = m
        model_results.append(m2)
        if a != m2:
            nbad += 1
            if nbad > 40:
                continue
            j = next((k for k in range(min(len(a), len(m2))) if a[k] != m2[k]), min(len(a), len(m2))) if isinstance(m2, list) else 0
            lab = c[1][j] if len(c) == 2 and j < len(c[1]) else None
            field = None
            if len(c) == 2 and isinstance(m2, list) and j < len(a) and j < len(m2) and isinstance(m2[j], list):
                names = ["phase", "queue", "key_buffer", "typeahead", "text", "cursor", "quoted", "waiting_cpr", "results", "parser_prefix", "events", "flags"]
                field = next((names[f] for f in range(min(len(a[j]), len(m2[j]))) if a[j][f] != m2[j][f]), None)
            chk.violation("correspondence",
                          "model and implementation differ at label %d %r field %s [%s; bytes %r]: impl %r model %r" % (
                              j, lab, field, kept[i].get("kind"), all_bytes(kept[i])[:120],
                              (a[j] if j < len(a) else None), (m2[j] if isinstance(m2, list) and j < len(m2) else m2)),
                          {"kind": "correspondence", "field": field, "label": lab[0] if lab else None},
                          {"case": sx_norm(c[:2]), "scenario": describe_sc(kept[i]), "impl": a, "model": m2, "model_fn": "c17"},
                          no_input=not (i in oracle_bad))
    chk.coverage["traces_validated_against_impl"] += len(cases) - nbad

    # malformed cases -> bad_case
    malformed = [[4, []], [[], []], [0, [[1, 0]]], [0, [[0, [[1]]]]], [0, [[11]]], 5]
    for c, m in zip(malformed, run_model("c17", malformed)):
        if m != [-999]:
            chk.violation("tie", "malformed case %r gives %r" % (c, m), {"kind": "malformed"}, {"case": c}, no_input=True)

    # extraction / driver cross-check inside Coq
    ok_idx = [i for i, c in enumerate(cases) if len(c) == 2 and len(c[1]) <= 60]
    k = 160 if chk.tier == "thorough" else 40
    idx = sorted(chk.rng.sample(ok_idx, min(k, len(ok_idx))))
    pairs = [(cases[i], impl_results[i]) for i in idx]
    bad, logs = vm_crosscheck(PROP + "_%d" % os.getpid(), "run_C17", "Model.C17_Run", pairs, per_file=40)
    chk.coverage["vm_compute_crosschecked"] = len(pairs)
    model_bad = set(i for i in idx if sx_norm(impl_results[i]) != model_results[i])
    vm_bad = set(idx[b] for b in bad if isinstance(b, int))
    if any(not isinstance(b, int) for b in bad):
        chk.violation("tie", "vm_compute cross-check failed to run: " + (logs[0][-300:] if logs else ""), {"kind": "vm"}, {"log": logs}, no_input=True)
    elif vm_bad != model_bad:
        chk.violation("tie", "extracted model and in-Coq evaluation disagree on cases %r" % sorted(vm_bad ^ model_bad)[:5],
                      {"kind": "extraction"}, {"cases": [cases[i] for i in sorted(vm_bad ^ model_bad)[:5]]}, no_input=True)

    proof_gate(chk, pr)
    chk.coverage["input_distribution"] = dict(dist, impl_seconds=round(t_impl, 1), compared_up_to_an_unmodelled_handler=truncated)
    chk.coverage["reported_separately"] = dict(report_only, what="cursor position reports cut into the byte sequence of a single key (no terminal does this): "
                                               "model and implementation must still agree; difference from the script is only counted here")
    chk.coverage["rule"] = ("case = one scenario: a PromptSession on one pipe input driven through write/start/wait/close operations; "
                            "every transition the implementation really makes (hooked) is a label, the state after it a snapshot "
                            "(phase, input_queue, key_buffer, type-ahead store, buffer text/cursor, quoted_insert, pending CPR requests, results, "
                            "parser prefix, handler calls since the previous label); the extracted model replays the observed labels and must give "
                            "identical snapshots; writer-thread scenarios compare per-prompt results only; non-trivial = at least two prompts "
                            "returned and one of them a line; distinct by hash of the scenario")
    chk.assumptions += [
        "emacs editing mode, default buffer focused; 22 modelled handler classes (incl. every binding of the default table that ends the prompt: Enter, ESC Enter, c-c, c-d, c-o, ESC #); handlers of classes 97/98/99 (call-last-kbd-macro, mouse scroll, history, completion ...) are modelled as inert and never generated; the snapshot comparison stops at the first such handler call the implementation makes",
        "reports cut into the byte sequence of a single key (family cpr-inside-a-key-sequence) are exempt from the script and the report-never-text clauses (such a report can land inside a bracketed paste); model/implementation agreement and conservation are still required",
        "one PromptSession is reused for all prompts of a scenario, except in the family fresh-session-per-prompt (results only)",
        "a key press waiting in the key buffer (prefix of longer bindings) when a prompt ends with EOFError is discarded by the next reset(): the conservation clause counts it as accounted for when the queue is empty then (C17_after_accept_any_schedule, C17_eof_witness; dismissed as a finding: input closed, no returned line changes)",
        "the model's pipe holds code points; the family utf8-split-inside-characters writes BYTES cut inside multi-byte characters and labels each write with the characters it completes (the UTF-8 decoder itself is C03's model; Props/C17.v also instantiates the script theorem over it)",
        "timeouts are labels: ttimeoutlen/timeoutlen are set to 10 ms by the harness where a flush is wanted and to 1000 s/None elsewhere; "
        "Renderer.wait_for_cpr_responses is called with timeout 0.05 s instead of 1 s; Renderer.CPR_TIMEOUT is 1000 s",
        "the renderer's decision to ask for a cursor position report is an environment label (observed), not modelled",
        "Application.exit() called twice (Exception 'Return value already set') is an absorbing 'broken' phase of the model; "
        "unreachable under the exit-binding hypothesis checked on the regenerated table",
    ]
    return chk.finish()


def all_bytes(sc):
    out = []
    for op in sc["ops"]:
        if op[0] == "w":
            out.append(op[1])
        elif op[0] == "thread":
            out.append("".join(op[1]))
    raw = b"".join(bytes(op[1]) for op in sc["ops"] if op[0] == "wb")
    if raw:
        out.append(raw.decode("utf-8", "replace"))
    return "".join(out)


def load_corpus_scenarios():
    d = os.path.join(VERIF, "corpus", PROP)
    out = []
    if os.path.isdir(d):
        for f in sorted(os.listdir(d)):
            if f.endswith(".json"):
                sc = json.load(open(os.path.join(d, f)))["scenario"]
                sc["kind"] = "corpus"
                out.append(sc)
    return out


def replay(data):
    rep = data["replay"]
    sc = rep.get("scenario")
    if sc is None:
        print("replay file has no scenario")
        return 2
    sc = {k: v for k, v in sc.items() if v is not None and k != "how"}
    import logging
    logging.getLogger("asyncio").setLevel(logging.CRITICAL)
    o = run_scenario(sc)
    rc = 0
    print("bytes written: %r" % all_bytes(sc))
    print("results: %r" % [show_res(r) for r in o["results"]])
    if "tokens" in sc:
        print("script says: %r" % [show_res(r) for r in expected_results([tuple(t) for t in sc["tokens"]])[:sc.get("maxp")]])
        cr = classify_results(sc, o["results"])
        if cr:
            print("ORACLE FAILS: " + cr[0])
            rc = 1
    for what, tags, detail in oracle(sc, o):
        print("ORACLE FAILS: %s %r" % (what, tags))
        rc = 1
    if sc["mode"] not in ("thread", "fresh"):
        labels, snaps = o["labels"], o["snaps"]
        cutj = next((j for j, sn in enumerate(snaps) if any(ev[0] == 1 and ev[2] in (97, 98, 99) for ev in sn[10])), None)
        if cutj is not None:
            print("a handler outside the modelled classes is reached at label %d; the model is compared up to there" % cutj)
            labels, snaps = labels[:cutj], snaps[:cutj]
        m = run_model("c17", [[flags_of(sc), labels]])[0]
        print("model agrees on all %d snapshots" % len(snaps) if m == sx_norm(snaps) else "model differs")
    return rc
