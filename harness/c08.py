"""C08 - Vi operators act exactly on the motion's span; yanking never edits.
Model: coq/Model/C08_ViOps.v + C08_TextObjects.v; theorems: coq/Props/C08.v.

Two levels of tie, both on real objects of the repo under test:
  key level    a real PromptSession(vi_mode=True); <count><operator><count><text object>
               fed through app.key_processor; the TextObject the real text-object
               function returned is captured by wrapping vi_state.operator_func.
  object level the real operator function (taken from vi_state.operator_func after
               feeding the operator keys) called with an arbitrary TextObject(start,
               end, type) - every type, in and out of bounds.
"""
import itertools
import weakref

from common import *  # noqa

PROP = "C08"
TABLES = ["Whitespace", "C08_Tables"]
MODELS = [("c08", "Extract/ExC08.v", "run_C08")]
ALPHA = ["a", " ", "\n", "(", ")", "x"]
RAND_ALPHA = ["a", "b", "B", "x", "x", " ", " ", "\n", "\n", "(", ")", "_", ".", "\t", '"', "{", "}"]

# operators: name -> (keys, (kind, p1, p2), class, with_register)
OPS = {
    "d": (["d"], (1, 1, 0), "delete", False),
    "c": (["c"], (1, 0, 0), "change", False),
    '"qd': (['"', "q", "d"], (1, 1, 1), "delete", True),
    '"qc': (['"', "q", "c"], (1, 0, 1), "change", True),
    "y": (["y"], (2, 0, 0), "yank", False),
    '"qy': (['"', "q", "y"], (3, 0, 0), "yank", True),
    '"7d': (['"', "7", "d"], (1, 1, 1), "delete", True),
    '"7y': (['"', "7", "y"], (3, 0, 0), "yank", True),
    "g?": (["g", "?"], (4, 1, 0), "transform", False),
    "gu": (["g", "u"], (4, 2, 0), "transform", False),
    "gU": (["g", "U"], (4, 3, 0), "transform", False),
    "g~": (["g", "~"], (4, 4, 0), "transform", False),
    ">": ([">"], (5, 0, 0), "indent", False),
    "<": (["<"], (6, 0, 0), "indent", False),
    "gq": (["g", "q"], (7, 0, 0), "reshape", False),
}
OP_ORDER = list(OPS)
OPGROUP = {"delete": "cut", "change": "cut", "yank": "cut", "transform": "transform", "indent": "lines", "reshape": "lines"}

TYPES = {"EXCLUSIVE": 0, "INCLUSIVE": 1, "LINEWISE": 2, "BLOCK": 3}


def T_FUNCS():
    import codecs
    return {1: lambda s: codecs.encode(s, "rot_13"), 2: str.lower, 3: str.upper, 4: str.swapcase}


# --------------------------------------------------------------------------
# text objects: name -> dict(keys, tok, group, linewise, move, failed)
# `failed(doc, n, ctx)` is the oracle's notion of "the motion fails or spans
# nothing", computed from the REAL Document queries (not from the model).

def _none0(v):
    return v is None or v == 0


def build_motions():
    M = {}

    def add(name, keys, tok, group, failed, linewise=False, move=True, char=None):
        M[name] = dict(name=name, keys=keys, tok=tok, group=group, failed=failed, linewise=linewise,
                       move=move, char=char)

    add("b", ["b"], (1, 0, 0, 0), "word-backward", lambda d, n: d.find_start_of_previous_word(count=n) is None)
    add("B", ["B"], (1, 1, 0, 0), "word-backward", lambda d, n: d.find_start_of_previous_word(count=n, WORD=True) is None)
    add("$", ["$"], (2, 0, 0, 0), "end-of-line", lambda d, n: d.get_end_of_line_position() == 0)
    add("w", ["w"], (3, 0, 0, 0), "word-forward",
        lambda d, n: d.find_next_word_beginning(count=n) is None and d.get_end_of_document_position() == 0)
    add("W", ["W"], (3, 1, 0, 0), "word-forward",
        lambda d, n: d.find_next_word_beginning(count=n, WORD=True) is None and d.get_end_of_document_position() == 0)
    add("e", ["e"], (4, 0, 0, 0), "word-end", lambda d, n: d.find_next_word_ending(count=n) is None)
    add("E", ["E"], (4, 1, 0, 0), "word-end", lambda d, n: d.find_next_word_ending(count=n, WORD=True) is None)
    for nm, W, tr in (("iw", 0, 0), ("aw", 0, 1), ("iW", 1, 0), ("aW", 1, 1)):
        add(nm, list(nm), (5, W, tr, 0), "word-object",
            (lambda W, tr: lambda d, n: d.find_boundaries_of_current_word(
                WORD=bool(W), include_trailing_whitespace=bool(tr)) == (0, 0))(W, tr), move=False)
    add("ap", ["a", "p"], (6, 0, 0, 0), "paragraph-object",
        lambda d, n: d.start_of_paragraph() == d.end_of_paragraph(count=n), move=False)
    add("^", ["^"], (7, 0, 0, 0), "start-of-line", lambda d, n: d.get_start_of_line_position(after_whitespace=True) == 0)
    add("0", ["0"], (8, 0, 0, 0), "start-of-line", lambda d, n: d.get_start_of_line_position() == 0)

    def ci_failed(l, r, inner):
        def f(d, n):
            if l == r:
                s = d.find_backwards(l, in_current_line=False)
                e = d.find(r, in_current_line=False)
            else:
                s = d.find_enclosing_bracket_left(l, r)
                e = d.find_enclosing_bracket_right(l, r)
            if s is None or e is None:
                return True
            off = 0 if inner else 1
            return e + off <= s + 1 - off
        return f
    for inner in (0, 1):
        for l, r in (('"', '"'), ("'", "'"), ("`", "`"), ("[", "]"), ("<", ">"), ("{", "}"), ("(", ")")):
            for key in sorted({l, r}):
                add("ai"[inner] + key, ["ai"[inner], key], (9, ord(l), ord(r), inner),
                    "bracket-object" if l != r else "quote-object", ci_failed(l, r, inner), move=False)
        add("ai"[inner] + "b", ["ai"[inner], "b"], (9, 40, 41, inner), "bracket-object", ci_failed("(", ")", inner), move=False)
        add("ai"[inner] + "B", ["ai"[inner], "B"], (9, 123, 125, inner), "bracket-object", ci_failed("{", "}", inner), move=False)
    add("{", ["{"], (10, 0, 0, 0), "paragraph-motion", lambda d, n: d.start_of_paragraph(count=n, before=True) == 0)
    add("}", ["}"], (11, 0, 0, 0), "paragraph-motion", lambda d, n: d.end_of_paragraph(count=n, after=True) == 0)
    for ch in ("x", "("):
        o = ord(ch)
        add("f" + ch, ["f", ch], (12, o, 0, 0), "char-find-forward",
            (lambda ch: lambda d, n: d.find(ch, in_current_line=True, count=n) is None)(ch), char=ch)
        add("F" + ch, ["F", ch], (13, o, 0, 0), "char-find-backward",
            (lambda ch: lambda d, n: d.find_backwards(ch, in_current_line=True, count=n) is None)(ch), char=ch)
        add("t" + ch, ["t", ch], (14, o, 0, 0), "char-find-forward",
            (lambda ch: lambda d, n: d.find(ch, in_current_line=True, count=n) is None)(ch), char=ch)
        add("T" + ch, ["T", ch], (15, o, 0, 0), "char-find-backward",
            (lambda ch: lambda d, n: d.find_backwards(ch, in_current_line=True, count=n) in (None, -1))(ch), char=ch)
    # ; and , : variants by the last character find that is installed first
    for nm, code, rev in ((";", 16, False), (",", 17, True)):
        for has, bw in ((0, 0), (1, 0), (1, 1)):
            def rf(rev, has, bw):
                def f(d, n):
                    if not has:
                        return True
                    back = bool(bw) != rev
                    r = d.find_backwards("x", in_current_line=True, count=n) if back else d.find("x", in_current_line=True, count=n)
                    return r is None
                return f
            add("%s[%s]" % (nm, "none" if not has else ("Fx" if bw else "fx")), [nm], (code, 120, bw, has),
                "char-find-repeat", rf(rev, has, bw), char=("x", bool(bw)) if has else None)
    # ; and , on the search the SESSION recorded (vi_state.last_character_find as left by the f F t T keys
    # typed before; nothing recorded = failure).  Their `failed` depends on the session: run_session
    # tracks the last find typed and overrides this default (right for a session without any find).
    add(";[last]", [";"], (32, 0, 0, 0), "char-find-repeat", lambda d, n: True, char=None)
    add(",[last]", [","], (32, 1, 0, 0), "char-find-repeat", lambda d, n: True, char=None)
    add("h", ["h"], (18, 0, 0, 0), "left", lambda d, n: d.get_cursor_left_position(count=n) == 0)
    add("left", ["left"], (18, 0, 0, 0), "left", lambda d, n: d.get_cursor_left_position(count=n) == 0)
    add("j", ["j"], (19, 0, 0, 0), "line-down", lambda d, n: d.on_last_line, linewise=True, move=False)
    add("k", ["k"], (20, 0, 0, 0), "line-up", lambda d, n: d.on_first_line, linewise=True, move=False)
    for nm in ("l", " ", "right"):
        add(nm, [nm], (21, 0, 0, 0), "right", lambda d, n: d.get_cursor_right_position(count=n) == 0)
    add("H", ["H"], (22, 0, 0, 0), "screen", lambda d, n: False, linewise=True)
    add("M", ["M"], (23, 0, 0, 0), "screen", lambda d, n: False, linewise=True)
    add("L", ["L"], (24, 0, 0, 0), "screen", lambda d, n: False, linewise=True)
    add("%", ["%"], (25, 0, 0, 0), "percent", lambda d, n: not (0 < n <= 100), linewise=True)
    add("|", ["|"], (26, 0, 0, 0), "column", lambda d, n: d.get_column_cursor_position(n - 1) == 0)
    add("gg", ["g", "g"], (27, 0, 0, 0), "first-line", lambda d, n: False, linewise=True)
    add("g_", ["g", "_"], (28, 0, 0, 0), "last-non-blank", lambda d, n: d.current_line.rstrip() == "")
    add("ge", ["g", "e"], (29, 0, 0, 0), "word-end-backward", lambda d, n: d.find_previous_word_ending(count=n) is None)
    add("gE", ["g", "E"], (29, 1, 0, 0), "word-end-backward", lambda d, n: d.find_previous_word_ending(count=n, WORD=True) is None)
    add("gm", ["g", "m"], (30, 0, 0, 0), "screen", lambda d, n: True)   # render_info is None in the harness: environment, not a motion failure
    add("G", ["G"], (31, 0, 0, 0), "last-line", lambda d, n: False, linewise=True)
    # not modelled: the TextObject is taken from the implementation (explicit)
    add("n", ["n"], None, "search", lambda d, n: False, move=False)
    add("N", ["N"], None, "search", lambda d, n: False, move=False)
    return M


MOTIONS = build_motions()
# motions whose `failed` is an artefact of the harness environment / unmodelled -> no failed-noop demand
NO_FAIL_DEMAND = {"gm", "H", "M", "L"}


# --------------------------------------------------------------------------
# implementation runner

class Session:
    """One real Vi PromptSession, reset before every case."""

    def __init__(self):
        from prompt_toolkit import PromptSession
        from prompt_toolkit.application import create_app_session
        from prompt_toolkit.application.current import set_app
        from prompt_toolkit.input import create_pipe_input
        from prompt_toolkit.output import DummyOutput
        self._pi = create_pipe_input()
        self.inp = self._pi.__enter__()
        self._as = create_app_session(input=self.inp, output=DummyOutput())
        self._as.__enter__()
        self.session = PromptSession(vi_mode=True, multiline=True, validate_while_typing=False,
                                     complete_while_typing=False, enable_history_search=False)
        self.app = self.session.app
        self.app.timeoutlen = None
        self.app.ttimeoutlen = None
        self._sa = set_app(self.app)
        self._sa.__enter__()
        self.captured = None
        from prompt_toolkit.key_binding.vi_state import ViState
        sess = self

        class RecordingViState(ViState):
            """ViState whose pending operator function records the TextObject it is
            called with (instrumentation only: the stored function is the real one)."""
            @property
            def operator_func(self):
                return self.__dict__.get("_opf")

            @operator_func.setter
            def operator_func(self, f):
                if f is None or getattr(f, "_c08_rec", False):
                    self.__dict__["_opf"] = f
                    return

                def rec(event, text_object):
                    sess.captured = (text_object.start, text_object.end, TYPES[text_object.type.value])
                    return f(event, text_object)
                rec._c08_rec = True
                rec._c08_orig = f
                self.__dict__["_opf"] = rec
        self.app.vi_state = RecordingViState()

    def close(self):
        for cm in (self._sa, self._as, self._pi):
            try:
                cm.__exit__(None, None, None)
            except Exception:  # noqa
                pass

    def reset(self, text, cur, last_find=None):
        from prompt_toolkit.clipboard import InMemoryClipboard
        from prompt_toolkit.document import Document
        from prompt_toolkit.key_binding.vi_state import CharacterFind, InputMode
        app = self.app
        b = self.session.default_buffer
        app.key_processor.reset()
        app.key_processor.empty_queue()
        app.vi_state.reset()
        app.vi_state.named_registers = {}
        app.vi_state.last_character_find = CharacterFind(*last_find) if last_find else None
        app.vi_state.tilde_operator = False
        app.clipboard = InMemoryClipboard()
        b.reset(Document(text, cur))
        app.vi_state.input_mode = InputMode.NAVIGATION
        if app.layout.current_buffer is not b:
            app.layout.focus(b)
        self.captured = None
        return b

    def feed(self, keys):
        from prompt_toolkit.key_binding.key_processor import KeyPress
        from prompt_toolkit.keys import Keys
        kp = self.app.key_processor
        for k in keys:
            if len(k) > 1:
                kp.feed(KeyPress(Keys(k)))
            else:
                kp.feed(KeyPress(k, k))
        kp.process_keys()

    def flush(self):
        from prompt_toolkit.key_binding.key_processor import _Flush
        kp = self.app.key_processor
        kp.feed(_Flush)
        kp.process_keys()

    def observe(self, status):
        from prompt_toolkit.key_binding.vi_state import InputMode
        app = self.app
        b = self.session.default_buffer
        ring = list(app.clipboard._ring)
        clip = None
        if ring:
            clip = [S(ring[0].text), SELT[ring[0].type.value]]
        if len(ring) > 1:
            clip = [S("<<set_data called %d times>>" % len(ring)), 9]
        regs = app.vi_state.named_registers
        reg = None
        if regs:
            k = sorted(regs)[0]
            reg = [ord(k) if len(k) == 1 else -1, [S(regs[k].text), SELT[regs[k].type.value]]]
            if len(regs) > 1:
                reg = [-2, [S("<<several registers>>"), 9]]
        return dict(status=status, text=b.text, cursor=b.cursor_position, clip=clip, reg=reg,
                    ins=1 if app.vi_state.input_mode == InputMode.INSERT else 0,
                    pending=app.vi_state.operator_func is not None)


SELT = {"CHARACTERS": 0, "LINES": 1, "BLOCK": 2}


def exc_status(e):
    if isinstance(e, AssertionError):
        return 1
    if isinstance(e, IndexError):
        return 2
    if isinstance(e, Hang):
        return 98
    return 99


def digits(n):
    """the keys of a typed count; None = no count typed.  A count that is exactly 1 IS typed (1dw, d1w:
    the event._arg branch of the wrapper with n = 1 - 1d% goes to a line, 1dgg to line 1)"""
    return list(str(n)) if n else []


def run_keys(sess, text, cur, opname, mname, c1, c2):
    """<c1><operator><c2><motion> through the key processor.  Returns (obs, tobj, alone_cursor)."""
    m = MOTIONS[mname]
    last_find = None
    if m["group"] == "char-find-repeat" and m["char"]:
        last_find = m["char"]
    sess.reset(text, cur, last_find)
    status = 0
    try:
        def go():
            sess.feed(digits(c1) + OPS[opname][0] + digits(c2) + m["keys"])
        with_watchdog(go, WATCHDOG[0])
    except BaseException as e:  # noqa
        if isinstance(e, (KeyboardInterrupt, SystemExit)):
            raise
        status = exc_status(e)
        sess.last_exc = repr(e)
    obs = sess.observe(status)
    tobj = sess.captured
    alone = None
    if m["move"] and not (mname in ("G", "0") and (c1 or c2)) and nav_fix(text, cur) == cur:
        sess.reset(text, cur, last_find)
        try:
            with_watchdog(lambda: sess.feed((digits((c1 or 1) * (c2 or 1)) if (c1 or c2) else []) + m["keys"]), WATCHDOG[0])
            alone = sess.session.default_buffer.cursor_position
            if sess.session.default_buffer.text != text:
                alone = -100
        except BaseException as e:  # noqa
            if isinstance(e, (KeyboardInterrupt, SystemExit)):
                raise
            alone = -99
    return obs, tobj, alone


def run_session(sess, text, cur, cmds):
    """A multi-command session.  Returns (final canonical result, per-command records); a record is
    (cmd, pre_text, pre_cursor, obs_of_this_command, tobj, failed)."""
    from prompt_toolkit.document import Document
    last = cmds[-1]
    lm = MOTIONS.get(last[3])
    last_find = lm["char"] if (lm and lm["group"] == "char-find-repeat" and lm["char"]) else None
    sess.reset(text, cur, last_find)
    b = sess.session.default_buffer
    app = sess.app
    recs = []
    status = 0
    last_reg = None
    last_tobj, last_failed = None, False
    typed_find = None       # (character, backwards) of the last f F t T typed in this session, found or not
    for cmd in cmds:
        c1, opname, c2, end = cmd
        pre_t, pre_c = b.text, b.cursor_position
        find_before = typed_find
        if end in MOTIONS and MOTIONS[end]["group"] in ("char-find-forward", "char-find-backward"):
            typed_find = (MOTIONS[end]["char"], MOTIONS[end]["group"] == "char-find-backward")
        ring0 = len(app.clipboard._ring)
        regs0 = dict(app.vi_state.named_registers)
        sess.captured = None
        try:
            def go():
                keys = digits(c1) + (OPS[opname][0] + digits(c2) if opname else [])
                if end == "esc":
                    sess.feed(keys + ["escape"])
                    sess.flush()
                elif end == "f-esc":
                    sess.feed(keys + ["f", "escape"])
                    sess.flush()
                else:
                    sess.feed(keys + MOTIONS[end]["keys"])
            with_watchdog(go, WATCHDOG[0])
        except BaseException as e:  # noqa
            if isinstance(e, (KeyboardInterrupt, SystemExit)):
                raise
            status = exc_status(e)
        o = sess.observe(status)
        ring = list(app.clipboard._ring)
        o["clip"] = [S(ring[0].text), SELT[ring[0].type.value]] if len(ring) > ring0 else None
        o["reg"] = None
        for k, v in app.vi_state.named_registers.items():
            if regs0.get(k) is not v:
                o["reg"] = [ord(k) if len(k) == 1 else -1, [S(v.text), SELT[v.type.value]]]
                last_reg = o["reg"]
        tobj, failed = sess.captured, False
        if opname and end in MOTIONS:
            m = MOTIONS[end]
            n = (c1 or 1) * (c2 or 1)
            try:
                ce = eff_cursor(pre_t, pre_c, c1)
                if end == "%" and not (c1 or c2):
                    failed = Document(pre_t, ce).find_matching_bracket_position() == 0
                else:
                    failed = bool(m["failed"](Document(pre_t, ce), n))
            except AssertionError:
                failed = False
            if end in (";[last]", ",[last]"):
                # "; and , repeat the LAST f F t T command": fails when none was typed or when that
                # search (in its own / the opposite direction) finds nothing from here
                if find_before is None:
                    failed = True
                else:
                    back = find_before[1] != (end[0] == ",")
                    dd = Document(pre_t, ce)
                    r_ = (dd.find_backwards(find_before[0], in_current_line=True, count=n) if back
                          else dd.find(find_before[0], in_current_line=True, count=n))
                    failed = r_ is None
            if m["tok"] is None:
                failed = tobj is not None and tobj[0] == 0 and tobj[1] == 0
            if tobj is not None:
                last_tobj, last_failed = tobj, failed and m["tok"] is not None
        recs.append((cmd, pre_t, pre_c, o, tobj, failed))
        if status != 0 or o["ins"]:
            break
    ring = list(app.clipboard._ring)
    final = dict(recs[-1][3])
    final["clip"] = [S(ring[0].text), SELT[ring[0].type.value]] if ring else None
    final["reg"] = last_reg
    if len(recs) < len(cmds) and status == 0:
        final["status"] = 3
    return canon(final, last_tobj, last_failed), recs


def run_object(sess, text, cur, opname, tobj, arg, keydata):
    """The real operator function applied to TextObject(*tobj) with a fabricated event."""
    from prompt_toolkit.key_binding.bindings.vi import TextObject, TextObjectType
    from prompt_toolkit.key_binding.key_processor import KeyPress, KeyPressEvent
    sess.reset(text, cur)
    status = 0
    try:
        def go():
            sess.feed(OPS[opname][0])
            sess.flush()
            f = sess.app.vi_state.operator_func
            if f is None:
                raise RuntimeError("operator not pending")
            f = f._c08_orig
            sess.app.vi_state.operator_func = None
            ev = KeyPressEvent(weakref.ref(sess.app.key_processor), arg=str(arg),
                               key_sequence=[KeyPress(k, k) for k in keydata],
                               previous_key_sequence=[], is_repeat=False)
            ty = [TextObjectType.EXCLUSIVE, TextObjectType.INCLUSIVE, TextObjectType.LINEWISE, TextObjectType.BLOCK][tobj[2]]
            f(ev, TextObject(tobj[0], tobj[1], ty))
        with_watchdog(go, WATCHDOG[0])
    except BaseException as e:  # noqa
        if isinstance(e, (KeyboardInterrupt, SystemExit)):
            raise
        status = exc_status(e)
        sess.last_exc = repr(e)
    return sess.observe(status)


def canon(obs, tobj, failed):
    return [obs["status"], S(obs["text"]), obs["cursor"],
            [obs["clip"]] if obs["clip"] is not None else [],
            [obs["reg"]] if obs["reg"] is not None else [],
            obs["ins"], [list(tobj)] if tobj is not None else [], 1 if failed else 0]


# --------------------------------------------------------------------------
# oracle: the property text, evaluated on the implementation's own results

def nav_fix(text, pos):
    pos = max(0, min(pos, len(text)))
    at_eol = pos == len(text) or text[pos] == "\n"
    line_nonempty = (pos > 0 and text[pos - 1] != "\n") or (pos < len(text) and text[pos] != "\n")
    if at_eol and line_nonempty:
        pos -= 1
    return pos


def row_of(text, pos):
    pos = max(0, min(pos, len(text)))
    return text.count("\n", 0, pos)


def oracle(text, cur, opname, m, n, obs, tobj, failed, alone):
    """Return None or (clause, family).  m is None for object-level cases."""
    keys, _, cls, with_reg = OPS[opname]
    t1, c1 = obs["text"], obs["cursor"]
    grp = m["group"] if m else "explicit"
    if obs["status"] != 0:
        if with_reg and obs["status"] == 2:
            return ("named-register operator raised IndexError (register name read from a key sequence without it)", "named-register:" + grp)
        return ("operator raised (status %d)" % obs["status"], "raise:" + grp)
    if m and m["name"] == "gm":
        return None      # gm without a rendered window is an artefact of the harness environment
    if with_reg:
        if obs["reg"] is not None and obs["reg"][0] != ord(keys[1]):
            return ("named-register operator wrote register %r instead of the typed register %r" % (chr(obs["reg"][0]) if obs["reg"][0] > 0 else "?", keys[1]),
                    "named-register:" + grp)
        if obs["reg"] is None and cls == "yank" and not failed and tobj is not None and tobj[2] in (0, 1):
            lo_, hi_ = cur + min(tobj[0], tobj[1]), cur + max(tobj[0], tobj[1]) + (1 if tobj[2] == 1 else 0)
            if 0 <= lo_ < hi_ <= len(text) and text[lo_:hi_] != "\n":
                return ("named-register yank of a non-empty span did not write the typed register", "named-register:" + grp)
        if obs["clip"] is not None:
            return ("named-register operator changed the unnamed clipboard", "register-clipboard")
    elif obs["reg"] is not None:
        return ("operator without register wrote a named register", "register-clipboard")
    data = (obs["reg"][1] if obs["reg"] is not None else None) if with_reg else obs["clip"]
    # (the cursor "stays" up to the navigation-mode fix-up that runs after every key: a cursor after
    # the last character of a non-empty line - temporary navigation mode, programmatic documents -
    # moves onto that character)
    cur_kept = nav_fix(text, cur) if m is not None else cur
    if cls == "yank" and (t1 != text or c1 != cur_kept):
        return ("yank changed text or cursor", "yank-edits:" + grp)
    if failed and not (m and m["name"] in NO_FAIL_DEMAND):
        if t1 != text or c1 != cur_kept or obs["clip"] is not None or obs["reg"] is not None:
            return ("the motion fails or spans nothing, yet the operator changed %s" % (
                "text" if t1 != text else "cursor" if c1 != cur_kept else "a register"), "failed:" + grp)
        if m is not None and (obs["ins"] or obs.get("pending")):
            return ("the motion fails or spans nothing, yet the operator %s" % (
                "entered insert mode" if obs["ins"] else "stayed pending"), "failed:" + grp)
        return None
    if tobj is None:
        if m is not None and m["name"] not in ("n", "N") and m["name"] not in NO_FAIL_DEMAND:
            return ("the motion did not fail, yet the operator was cancelled (no text object reached it)", "wrongly-cancelled:" + grp)
        return None
    s, e, ty = tobj
    lo, hi = cur + min(s, e), cur + max(s, e) + (1 if ty == 1 else 0)
    if m and m["move"] and alone is not None:
        if alone < 0:
            return ("the motion typed alone raised or edited the text", "motion-alone:" + grp)
        if alone != nav_fix(text, cur + s):
            return ("operator's text object starts at %d but the motion typed alone moves the cursor to %d" % (
                cur + s, alone), "operator-motion-differs:" + grp)
    linewise = ty == 2
    # an inclusive object whose last character is a line ending: get_line_numbers takes the row
    # of the exclusive end, i.e. the NEXT line (one root cause, tagged apart)
    incl_nl = ty == 1 and 0 < hi <= len(text) and text[hi - 1] == "\n"
    if ty == 3:
        return None   # block objects are not produced in navigation mode; model correspondence only
    if cls in ("delete", "change", "yank") and 0 <= lo and hi <= len(text) and ty in (0, 1, 2):
        # exactly the span: text[a:e] with the exclusive-column-0 rule / whole lines
        if linewise:
            a = text.rfind("\n", 0, lo) + 1
            p_ = text.find("\n", hi)
            e_ = p_ + 1 if p_ >= 0 else len(text)
            removed = text[a:e_]
            exp, et = (removed[:-1] if removed.endswith("\n") else removed), 1
        else:
            a, e_ = lo, hi
            if ty == 0 and lo < hi and text[hi - 1] == "\n":
                e_ = hi - 1            # far end in column 0: the line ending before it stays
            if e_ < a:
                e_ = a
            exp, et = text[a:e_], 0
        if cls == "yank":
            # (text and cursor unchanged: checked above) the register holds exactly the spanned characters
            if a == e_ or exp == "":
                if data is not None and unS(data[0]) != "":
                    return ("yank of an empty span (after the column-0 rule) wrote a register", "yank-span:" + grp)
            elif data is None or unS(data[0]) != exp or data[1] != et:
                if with_reg and obs["reg"] is None:
                    return ("yank into a named register: the spanned text was not stored in the typed register", "named-register:" + grp)
                return ("yank did not store exactly the characters of the span %d..%d%s with the right type" % (
                    a, e_, " (whole lines)" if linewise else ""), "yank-span:" + grp)
        elif a == e_:
            if t1 != text or (data is not None and unS(data[0]) != ""):
                return ("the span is empty (after the column-0 rule), yet the operator changed the text or a register", "delete-span:" + grp)
        else:
            if t1 != text[:a] + text[e_:]:
                return ("delete/change did not remove exactly the span %d..%d of the text object%s" % (
                    a, e_, " (whole lines)" if linewise else ""), "delete-span:" + grp)
            if exp != "" and (data is None or unS(data[0]) != exp or data[1] != et):
                if with_reg and obs["reg"] is None:
                    return ("delete/change into a named register: the removed text was not stored in the typed register", "named-register:" + grp)
                return ("register does not hold exactly the removed characters with the right type", "delete-span:" + grp)
            if exp == "" and data is not None and unS(data[0]) != "":
                return ("nothing to store but a register was written", "delete-span:" + grp)
            want_c = a if obs["ins"] else nav_fix(t1, a)
            if m is not None and c1 != want_c:
                return ("after delete/change the cursor is at %d, not at the start of the removed span (%d)" % (c1, want_c), "delete-cursor:" + grp)
    elif cls in ("delete", "change"):
        k = len(text) - len(t1)
        if k < 0:
            return ("delete made the text longer", "delete-grows:" + grp)
        cands = [a for a in range(0, len(t1) + 1) if text[:a] + text[a + k:] == t1]
        if not cands:
            return ("delete: result is not the text with one contiguous span removed", "delete-not-contiguous:" + grp)
        ok = False
        why = "span"
        why_reg = False     # some candidate span was fine except for the register content
        for a in cands:
            b = a + k
            removed = text[a:b]
            if linewise:
                rl, rh = row_of(text, lo), row_of(text, hi)
                if k and not ((a == 0 or text[a - 1] == "\n") and (b == len(text) or text[b - 1] == "\n")):
                    why = "linewise delete did not remove whole lines"
                    continue
                if k and not (rl <= row_of(text, a) and row_of(text, max(a, b - 1)) <= rh):
                    why = "linewise delete removed lines outside the motion"
                    continue
                exp = removed[:-1] if removed.endswith("\n") else removed
                et = 1
            else:
                if k and not (lo <= a and b <= hi):
                    why = "delete removed characters outside the span of the text object"
                    continue
                if k and not (a - (1 if e != 0 and s != 0 else 0) <= cur <= b or (b == cur - 1 and text[b] == "\n")):
                    why = "removed span is not adjacent to the cursor"
                    continue
                exp, et = removed, 0
            if k == 0 or exp == "":
                if data is not None and unS(data[0]) != "":
                    why = "nothing removed but a register was written"
                    continue
            else:
                if data is None or unS(data[0]) != exp or data[1] != et:
                    why_reg = True
                    continue
            ok = True
            break
        if not ok:
            if why_reg:
                why = "register does not hold exactly the removed characters with the right type"
            if with_reg and obs["reg"] is None and why_reg:
                return ("delete/change into a named register: the removed text was not stored in the typed register", "named-register:" + grp)
            return ("delete/change: " + why, "delete-span:" + grp)
    elif cls == "yank":
        pass
    elif cls == "transform":
        a, b = max(0, lo), max(0, min(hi, len(text)))
        if linewise:
            a = text.rfind("\n", 0, a) + 1
            b = text.find("\n", b) if text.find("\n", b) >= 0 else len(text)
        if len(t1) != len(text) or t1[:a] != text[:a] or (b >= a and t1[b:] != text[b:]):
            return ("case operator changed a character outside the span", "transform-frame:" + grp)
    elif cls == "indent":
        l0, l1 = text.split("\n"), t1.split("\n")
        rl, rh = row_of(text, lo), row_of(text, hi if (linewise or m is None) else (hi - 1 if hi > lo else hi))
        if len(l0) != len(l1) or l0[:rl] != l1[:rl] or l0[rh + 1:] != l1[rh + 1:]:
            return ("indent operator changed a line outside the motion's line range",
                    ("inclusive-end-on-newline:" if incl_nl else "indent-frame:") + grp)
    elif cls == "reshape":
        l0 = text.split("\n")
        rl, rh = row_of(text, lo), row_of(text, hi if (linewise or m is None) else (hi - 1 if hi > lo else hi))
        pre = "".join(x + "\n" for x in l0[:rl])
        post = "\n".join(l0[rh + 1:])
        if not t1.startswith(pre) or not t1.endswith(post):
            return ("gq changed a line outside the motion's line range",
                    ("inclusive-end-on-newline:" if incl_nl else "reshape-frame:") + grp)
    return None


# --------------------------------------------------------------------------
# cases

def eff_cursor(text, cur, c1):
    """the cursor the command really starts from: a count typed before the operator is handled in
    navigation mode, and every navigation-mode handler ends with the cursor fix-up"""
    return nav_fix(text, cur) if c1 else cur


def eol_cursors(text):
    """cursor positions after the last character of a non-empty line"""
    return [c for c in range(len(text) + 1) if nav_fix(text, c) != c]


def nav_cursors(text):
    """cursor positions reachable in navigation mode: on a character that is not a
    line ending, or on an empty line"""
    out = []
    for c in range(len(text) + 1):
        if nav_fix(text, c) == c:
            out.append(c)
    return out


def all_texts(maxn, alpha=ALPHA):
    out = [""]
    for n in range(1, maxn + 1):
        out += ["".join(t) for t in itertools.product(alpha, repeat=n)]
    return out


def rand_text(rng, maxlen):
    if rng.random() < 0.3:
        # many short lines: line-oriented motions with counts, paragraphs
        return "\n".join("".join(rng.choice(RAND_ALPHA[:8] + ["(", ")"]) for _ in range(rng.choice([0, 0, 1, 2, 3])))
                         for _ in range(rng.randint(3, 9)))
    n = rng.choice([0, 1, 2, 3, 5, 6, 8, 10, 14, maxlen])
    return "".join(rng.choice(RAND_ALPHA) for _ in range(n))[:maxlen]


# non-ASCII letters / digits / marks next to ASCII word characters and punctuation: the word text
# objects and motions classify characters with ASCII classes ([a-zA-Z0-9_], \\s, the rest)
UNI_ALPHA = ["a", "\u00e9", "\u00b2", "\u754c", "\u0301", ".", " ", "_"]
UNI_MOTIONS = ["w", "W", "b", "B", "e", "E", "ge", "gE", "iw", "aw", "iW", "aW", "h", "l", "$", "0"]
UNI_OPS = ["d", "y", "c", '"qd', ">", "g?"]      # no case operators: their model maps are ASCII


COUNTS_Q = [(None, None), (2, None), (None, 10), (2, 3)]
COUNTS_T = [(None, None), (2, None), (None, 5), (2, 5), (101, None), (None, 10), (2, 10), (None, 101)]
# a count that is exactly 1, typed: before the operator, after it, both, and next to a real count
COUNTS_ONE = [(1, None), (None, 1), (1, 1), (1, 3), (2, 1)]


def key_case(text, cur, opname, mname, c1, c2):
    if c2 and mname in ("G", "0"):
        # <count>G is the go-to-history-line binding and <count>0 extends the count:
        # with a count typed after the operator these keys are not text objects
        c1, c2 = c2, None
    return ("K", text, cur, opname, mname, c1, c2)


def gen_cases(chk):
    rng = chk.rng
    thorough = chk.tier == "thorough"
    cases = []
    dist = {"exhaustive_d": 0, "exhaustive_other_ops": 0, "random_key": 0, "object_level": 0}
    mnames = list(MOTIONS)
    maxn = 4 if thorough else 3
    texts = all_texts(maxn)
    # stratum: probability of keeping a (text, cursor, op, motion, count) point
    p_d = 1.0 if thorough else 0.10
    p_o = 0.004 if thorough else 0.006
    p_d4 = 0.03
    for t in texts:
        curs = nav_cursors(t)
        pd = p_d if len(t) <= 3 else p_d4
        for cur in curs:
            for mn in mnames:
                for (c1, c2) in (COUNTS_T if thorough else COUNTS_Q):
                    if pd >= 1.0 or rng.random() < pd:
                        cases.append(key_case(t, cur, "d", mn, c1, c2))
                        dist["exhaustive_d"] += 1
                    for on in OP_ORDER[1:]:
                        if rng.random() < p_o:
                            cases.append(key_case(t, cur, on, mn, c1, c2))
                            dist["exhaustive_other_ops"] += 1
    # a typed count of exactly 1 (event._arg set with n = 1): all short texts x motions, sampled
    p_one = 0.1 if thorough else 0.02
    for t in texts:
        if len(t) > 3:
            continue
        for cur in nav_cursors(t):
            for mn in mnames:
                for (c1, c2) in COUNTS_ONE:
                    if rng.random() < p_one:
                        cases.append(key_case(t, cur, "d" if rng.random() < 0.5 else rng.choice(OP_ORDER), mn, c1, c2))
                        dist["count_exactly_1"] = dist.get("count_exactly_1", 0) + 1
    # cursors after the last character of a non-empty line (temporary navigation mode, documents
    # set by program): every handler ends with the cursor fix-up, also a cancelled operator
    p_eol = 0.1 if thorough else 0.012
    for t in texts:
        if len(t) > 3:
            continue
        for cur in eol_cursors(t):
            for mn in mnames:
                for (c1, c2) in ((None, None), (2, None)):
                    for on in OP_ORDER:
                        if rng.random() < p_eol:
                            cases.append(key_case(t, cur, on, mn, c1, c2))
                            dist["end_of_line_cursors"] = dist.get("end_of_line_cursors", 0) + 1
    for _ in range(5000 if thorough else 600):
        t = rand_text(rng, 16)
        ec = eol_cursors(t)
        if not ec:
            continue
        cmds = []
        if rng.random() < 0.4:
            cmds.append((rng.choice([None, 3]), rng.choice(OP_ORDER), None, rng.choice(["esc", "f-esc"])))
        kc = key_case(t, 0, rng.choice(OP_ORDER), rng.choice([k for k, v in MOTIONS.items() if v["group"] != "char-find-repeat"]), *rng.choice(COUNTS_Q))
        cmds.append((kc[5], kc[3], kc[6], kc[4]))
        cases.append(("S", t, rng.choice(ec), cmds))
        dist["end_of_line_cursors"] = dist.get("end_of_line_cursors", 0) + 1
    nrand = 30000 if thorough else 4000
    for _ in range(nrand):
        t = rand_text(rng, 24)
        curs = nav_cursors(t)
        cur = rng.choice(curs)
        c1, c2 = rng.choice(COUNTS_T + COUNTS_ONE[:3])
        cases.append(key_case(t, cur, rng.choice(OP_ORDER), rng.choice(mnames), c1, c2))
        dist["random_key"] += 1
    # non-ASCII word characters: word motions and word objects on all short texts over UNI_ALPHA
    p_u = 0.2 if thorough else 0.02
    for t in all_texts(3, UNI_ALPHA):
        for cur in nav_cursors(t):
            for mn in UNI_MOTIONS:
                for on in UNI_OPS:
                    for (c1, c2) in ((None, None), (None, 2)):
                        if rng.random() < p_u:
                            cases.append(key_case(t, cur, on, mn, c1, c2))
                            dist["unicode_words"] = dist.get("unicode_words", 0) + 1
    for _ in range(6000 if thorough else 1200):
        t = "".join(rng.choice(UNI_ALPHA + ["b", "(", "x", "\n"]) for _ in range(rng.choice([4, 6, 8, 12])))
        cur = rng.choice(nav_cursors(t))
        c1, c2 = rng.choice(COUNTS_Q)
        cases.append(key_case(t, cur, rng.choice(UNI_OPS), rng.choice(UNI_MOTIONS + ["iw", "aw", "iw", "aw"]), c1, c2))
        dist["unicode_words"] = dist.get("unicode_words", 0) + 1
    # sessions: a cancelled operator (Esc, f<Esc>) or a completed command, then another command
    nsess = 30000 if thorough else 3500
    plain_ops = ["d", "y", "g~", "gU", ">"]
    sess_motions = [k for k, v in MOTIONS.items() if v["group"] != "char-find-repeat"]
    small12 = [t for t in all_texts(3) if t]
    for _ in range(nsess):
        t = rng.choice(small12) if rng.random() < 0.35 else rand_text(rng, 24)
        cur = rng.choice(nav_cursors(t))
        cmds = []
        r = rng.random()
        if r < 0.6:
            for _k in range(rng.choice([1, 1, 2])):
                cmds.append((rng.choice([None, 3, 4, 10, 1]), rng.choice(OP_ORDER), rng.choice([None, None, 2, 10, 1]),
                             rng.choice(["esc", "esc", "f-esc"])))
        else:
            cmds.append((rng.choice([None, 2, 3]), rng.choice(plain_ops), rng.choice([None, None, 2]),
                         rng.choice(["l", "w", "h", "e", "$", "b", "j", "iw"])))
        c1, c2 = rng.choice(COUNTS_T + COUNTS_ONE[:2])
        kc = key_case(t, cur, rng.choice(OP_ORDER), rng.choice(sess_motions), c1, c2)
        cmds.append((kc[5], kc[3], kc[6], kc[4]))
        cases.append(("S", t, cur, cmds))
        dist["sessions"] = dist.get("sessions", 0) + 1
    # recorded character search (vi_state.last_character_find as session state): a find, a second find
    # (of a character that may be absent; plain or under an operator), then operator + ; / ,
    finds = [k for k, v in MOTIONS.items() if v["group"] in ("char-find-forward", "char-find-backward")]
    step_ops = [None, None, "d", "y", "g~", ">", '"qy']
    for _ in range(12000 if thorough else 1500):
        r = rng.random()
        if r < 0.4:
            t = "".join(rng.choice(["x", "(", "a", "a", " "]) for _ in range(rng.choice([3, 4, 5, 7, 9])))
        elif r < 0.7:
            t = "".join(rng.choice(["x", "a", "b", " ", "\n"]) for _ in range(rng.choice([4, 6, 9, 12])))     # no '(' at all
        else:
            t = rand_text(rng, 20)
        if not t:
            continue
        cur = rng.choice(nav_cursors(t))
        cmds = [(None, rng.choice(step_ops), None, rng.choice(finds))]
        if rng.random() < 0.8:
            cmds.append((rng.choice([None, None, 2]), rng.choice(step_ops), None, rng.choice(finds)))
        c1, c2 = rng.choice(COUNTS_Q + [(None, None)] * 3)
        cmds.append((c1, rng.choice(OP_ORDER), c2, rng.choice([";[last]", ",[last]"])))
        cases.append(("S", t, cur, cmds))
        dist["recorded_find_sessions"] = dist.get("recorded_find_sessions", 0) + 1
    # object level: arbitrary TextObject(start, end, type), any cursor 0..len
    nobj = 40000 if thorough else 4000
    small = all_texts(3)
    for _ in range(nobj):
        t = rng.choice(small) if rng.random() < 0.5 else rand_text(rng, 16)
        cur = rng.randint(0, len(t))
        if rng.random() < 0.8:
            s = rng.randint(-cur, len(t) - cur)
            e = rng.choice([0, 0, rng.randint(-cur, len(t) - cur)])
        else:
            s = rng.randint(-len(t) - 3, len(t) + 3)
            e = rng.choice([0, rng.randint(-len(t) - 3, len(t) + 3)])
        ty = rng.choice([0, 0, 1, 1, 2, 2, 3])
        keyd = rng.choice([["w"], ["f", "x"], ["i", "w"], ["a", "("], ["g", "7"], ["f", "Q"]])
        cases.append(("O", t, cur, rng.choice(OP_ORDER), (s, e, ty), rng.choice([1, 1, 2, 3]), keyd))
        dist["object_level"] += 1
    return cases, dist


def enc_digits(n):
    return [[1, int(ch)] for ch in digits(n)]


def enc_motion(mname, tobj=None):
    m = MOTIONS[mname]
    if mname == "0":
        return [[1, 0]]               # the digit key: a motion only while no count is being typed
    if m["tok"] is None:
        return [[4, [0, 0, 0, 0] if tobj is None else [0, tobj[0], tobj[1], tobj[2]]]]
    return [[4, list(m["tok"])]]


def enc_op(opname):
    return [[2, list(OPS[opname][1]), [ord(k) for k in OPS[opname][0]]]]


def model_case(case, tobj=None):
    """the sx case given to the Coq model.  Key level: a session (text cursor (key ...));
    object level: (text cursor op arg count-typed operator-keys tok fix)"""
    if case[0] == "K":
        _, text, cur, opname, mname, c1, c2 = case
        return [S(text), cur, enc_digits(c1) + enc_op(opname) + enc_digits(c2) + enc_motion(mname, tobj)]
    if case[0] == "S":
        _, text, cur, cmds = case
        keys = []
        for (c1, opname, c2, end) in cmds:
            keys += enc_digits(c1)
            if opname:
                keys += enc_op(opname) + enc_digits(c2)
            keys += [[3]] if end in ("esc", "f-esc") else enc_motion(end, tobj)
        return [S(text), cur, keys]
    _, text, cur, opname, tob, arg, keyd = case
    # the operator function installed by the operator key overwrites the event's key sequence
    # with the operator's own keys, whatever the fabricated event carries
    return [S(text), cur, list(OPS[opname][1]), arg, 1, [ord(k) for k in OPS[opname][0]], [0, tob[0], tob[1], tob[2]], 0]


def alone_model_case(case, alone):
    """the motion typed alone as a model session + the implementation's canonical result"""
    _, text, cur, opname, mname, c1, c2 = case
    n = (c1 or 1) * (c2 or 1)
    mc = [S(text), cur, (enc_digits(n) if (c1 or c2) else []) + enc_motion(mname)]
    if alone < 0:
        return mc, [99, S(text), cur, [], [], 0, [], 0]
    return mc, [0, S(text), alone, [], [], 0, [], 0]


def cmd_keys(cmd):
    c1, opname, c2, end = cmd
    tail = {"esc": "<Esc>", "f-esc": "f<Esc>"}.get(end, " " + end)
    return "".join(digits(c1)) + (opname or "") + "".join(digits(c2)) + tail


def describe_case(case):
    if case[0] == "S":
        return "text=%r cursor=%d keys=%r" % (case[1], case[2], "  ".join(cmd_keys(c) for c in case[3]))
    if case[0] == "K":
        _, text, cur, opname, mname, c1, c2 = case
        return "text=%r cursor=%d keys=%r" % (text, cur, "".join(digits(c1)) + opname + "".join(digits(c2)) + " " + mname)
    _, text, cur, opname, tob, arg, keyd = case
    return "text=%r cursor=%d operator=%s TextObject%r arg=%d key_sequence=%r" % (text, cur, opname, tuple(tob), arg, keyd)


WATCHDOG = [5]


def run_impl(sess, case):
    """-> (canonical result, obs, tobj, failed, alone).  A watchdog expiry (status 98) on a shared,
    loaded machine is retried once with a 60 s budget before it is believed."""
    out = run_impl1(sess, case)
    if out[0][0] == 98:
        WATCHDOG[0] = 60
        try:
            out = run_impl1(sess, case)
        finally:
            WATCHDOG[0] = 5
    return out


def run_impl1(sess, case):
    from prompt_toolkit.document import Document
    if case[0] == "K":
        _, text, cur, opname, mname, c1, c2 = case
        m = MOTIONS[mname]
        n = (c1 or 1) * (c2 or 1)
        obs, tobj, alone = run_keys(sess, text, cur, opname, mname, c1, c2)
        try:
            ce = eff_cursor(text, cur, c1)
            if mname == "%" and not (c1 or c2):
                failed = Document(text, ce).find_matching_bracket_position() == 0
            else:
                failed = bool(m["failed"](Document(text, ce), n))
        except AssertionError:
            failed = False
        if m["tok"] is None:
            failed = tobj is not None and tobj[0] == 0 and tobj[1] == 0    # n / N: no (other) match
        if obs["status"] == 1 and tobj is None:
            failed = False      # the text-object function itself raised
        # (an operator that was cancelled got no text object: the model reports none either)
        return canon(obs, tobj, failed and m["tok"] is not None and tobj is not None), obs, tobj, failed, alone
    if case[0] == "S":
        res, recs = run_session(sess, case[1], case[2], case[3])
        return res, recs, None, False, None
    _, text, cur, opname, tob, arg, keyd = case
    obs = run_object(sess, text, cur, opname, tob, arg, keyd)
    return canon(obs, tob, False), obs, tuple(tob), False, None


def oracle_session(recs):
    """the oracle applied to every command of a session, each against its own pre-state"""
    for (cmd, pre_t, pre_c, o, tobj, failed) in recs:
        c1, opname, c2, end = cmd
        if end in ("esc", "f-esc"):
            if o["status"] != 0 or o["text"] != pre_t or o["cursor"] != nav_fix(pre_t, pre_c) or o["clip"] is not None or o["reg"] is not None or o["pending"]:
                return ("an operator cancelled with Escape changed the text, the cursor or a register, or stayed pending", "cancelled-operator", "cut")
            continue
        if not opname:
            continue
        pre_c = eff_cursor(pre_t, pre_c, c1)
        bad = oracle(pre_t, pre_c, opname, MOTIONS[end], (c1 or 1) * (c2 or 1), o, tobj, failed, None)
        if bad is None and o["status"] == 0:
            bad = oracle_word_object(pre_t, pre_c, end, tobj)
        if bad:
            return (bad[0] + " [command %r of the session]" % cmd_keys(cmd), bad[1], OPGROUP[OPS[opname][2]])
        # the count bookkeeping: the object handed to the operator must be the one the motion gives for
        # count = (count before the operator) x (count before the motion), from this command only
        if tobj is not None and MOTIONS[end]["move"] and end not in ("G", "0") and o["status"] == 0:
            exp = expected_start(pre_t, pre_c, end, (c1 or 1) * (c2 or 1), bool(c1 or c2))
            if exp is not None and exp != tobj[0]:
                return ("the operator was applied to a text object starting at %+d, but <count x count> %s from here starts at %+d [command %r]" % (
                    tobj[0], end, exp, cmd_keys(cmd)), "operator-count:" + MOTIONS[end]["group"], OPGROUP[OPS[opname][2]])
    return None


_WORD_CLASSES = None


def char_class(c, WORD):
    """the classes of document.py's word regexes: 0 blank (\\s), 1 [a-zA-Z0-9_], 2 the rest (ASCII classes,
    also for non-ASCII letters and digits); for WORDs: 0 blank, 1 the rest"""
    import re
    if re.match(r"\s", c):
        return 0
    if WORD:
        return 1
    return 1 if re.match(r"[a-zA-Z0-9_]", c) else 2


def expected_word_object(text, cur, WORD, trailing):
    """(start, end) of iw / aw / iW / aW relative to the cursor when the cursor is on a non-blank
    character: the maximal run of characters of the cursor character's class on the cursor line
    (plus the blanks that follow, for the a-objects); None when the cursor is on a blank / line end"""
    if cur >= len(text) or text[cur] == "\n":
        return None
    k = char_class(text[cur], WORD)
    if k == 0:
        return None
    a = cur
    while a > 0 and text[a - 1] != "\n" and char_class(text[a - 1], WORD) == k:
        a -= 1
    b = cur
    while b < len(text) and text[b] != "\n" and char_class(text[b], WORD) == k:
        b += 1
    if trailing:
        while b < len(text) and text[b] != "\n" and char_class(text[b], WORD) == 0:
            b += 1
    return a - cur, b - cur


def oracle_word_object(text, cur, mname, tobj):
    """None or a clause: the object handed to the operator is the word under the cursor"""
    if mname not in ("iw", "aw", "iW", "aW") or tobj is None:
        return None
    exp = expected_word_object(text, cur, mname[1] == "W", mname[0] == "a")
    if exp is not None and (tobj[0], tobj[1]) != exp:
        return ("%s: the operator was applied to the span %+d..%+d, but the word under the cursor spans %+d..%+d" % (
            mname, tobj[0], tobj[1], exp[0], exp[1]), "word-object-span")
    return None


def expected_start(text, cur, mname, n, hc):
    """relative target of a few plain motions for count n, straight from the real Document queries"""
    from prompt_toolkit.document import Document
    d = Document(text, cur)
    if mname in ("l", " ", "right"):
        return d.get_cursor_right_position(count=n)
    if mname in ("h", "left"):
        return d.get_cursor_left_position(count=n)
    if mname == "w":
        return d.find_next_word_beginning(count=n) or d.get_end_of_document_position()
    if mname == "W":
        return d.find_next_word_beginning(count=n, WORD=True) or d.get_end_of_document_position()
    if mname == "b":
        return d.find_start_of_previous_word(count=n) or 0
    if mname == "$":
        return d.get_end_of_line_position()
    return None


# --------------------------------------------------------------------------

def main(tier):
    chk = Check(PROP, tier)
    pr = chk.proofs("Props/C08.v", tables=TABLES)
    okm, logm = build_model("c08", "Extract/ExC08.v", "run_C08", tables=TABLES)
    if not okm:
        chk.violation("tie", "model does not build: " + logm[-400:], {"kind": "model-build"}, {"log": logm[-3000:]}, no_input=True)
        return chk.finish()

    missing = uncovered_bindings()
    if missing:
        chk.violation("tie", "text objects / operators in the registry that the harness does not drive: %r" % (missing,),
                      {"kind": "binding-coverage"}, {"missing": missing}, no_input=True)

    cases, dist = gen_cases(chk)
    corpus = [tuple(c) for c in load_corpus_raw()]
    cases = corpus + cases
    sess = Session()
    impl_results, mcases = [], []
    extra_cases, extra_results = [], []      # the motions typed alone, as model sessions
    oracle_bad = set()
    fam_count = {}
    nfailed = 0
    try:
        for i, c in enumerate(cases):
            res, obs, tobj, failed, alone = run_impl(sess, c)
            impl_results.append(res)
            mcases.append(model_case(c, obs[-1][4] if c[0] == "S" else tobj))
            o_ = obs[-1][3] if c[0] == "S" else obs
            changed = o_["text"] != c[1] or o_["cursor"] != c[2] or o_["clip"] is not None or o_["reg"] is not None
            chk.count_case(mcases[-1], changed)
            nfailed += 1 if failed else 0
            bad = judge(c, obs, tobj, failed, alone)
            if c[0] == "K" and alone is not None:
                amc, ares = alone_model_case(c, alone)
                extra_cases.append(amc)
                extra_results.append(ares)
            if bad:
                oracle_bad.add(i)
                clause, fam, og = bad
                fam_count[(fam, og)] = fam_count.get((fam, og), 0) + 1
                obs = o_
                chk.violation("oracle", "%s (%s -> status=%d text=%r cursor=%d clipboard=%r register=%r)" % (
                    clause, describe_case(c), obs["status"], obs["text"], obs["cursor"],
                    show_cd(obs["clip"]), show_reg(obs["reg"])),
                    {"family": fam, "opgroup": og},
                    {"case": list(c), "observed": obs, "text_object": tobj, "failed": failed, "motion_alone_cursor": alone,
                     "clause": clause,
                     "how": "PromptSession(vi_mode=True, multiline=True); buffer = Document(text, cursor); navigation mode; feed the keys (harness/c08.py run_keys / run_object)"})
            if i % 1499 == 0:
                obs = o_
                chk.sample({"case": describe_case(c), "impl": {k: obs[k] for k in ("status", "text", "cursor", "clip", "reg")},
                            "text_object": tobj, "failed": failed})
    finally:
        sess.close()
    n_main = len(mcases)
    mcases += extra_cases
    impl_results += extra_results
    dist["motion_alone_sessions"] = len(extra_cases)
    chk.coverage["input_distribution"] = dict(dist, corpus=len(corpus), failed_or_empty_motions=nfailed,
                                              oracle_families={"%s/%s" % k: v for k, v in sorted(fam_count.items())})

    def tag2(c, a, m):
        # c is the model case: a session [text, cur, keys] or an object-level command
        fields = ["status", "text", "cursor", "clipboard", "register", "insert-mode", "text-object", "failed"]
        diff = [fields[j] for j in range(min(len(a), len(m) if isinstance(m, list) else 0, 8)) if a[j] != m[j]]
        if len(c) == 3:
            ops = [k[1][0] for k in c[2] if k[0] == 2]
            toks = [k[1][0] for k in c[2] if k[0] == 4]
            return {"opkind": ops[-1] if ops else 0, "tok": toks[-1] if toks else -1, "keys": len(c[2]), "differs": ",".join(diff) or "shape"}
        return {"opkind": c[2][0], "tok": c[6][0], "differs": ",".join(diff) or "shape"}

    def desc2(c, a, m):
        if len(c) == 3:
            return "text=%r cursor=%d session=%r impl=%r model=%r" % (unS(c[0]), c[1], show_keys(c[2]), show_res(a), show_res(m))
        return "text=%r cursor=%d op=%r arg=%d count_typed=%d opkeys=%r tok=%r impl=%r model=%r" % (
            unS(c[0]), c[1], c[2], c[3], c[4], unS(c[5]), c[6], show_res(a), show_res(m))

    model_results, nbad = correspondence(
        chk, "c08", mcases, impl_results, tag2,
        describe=desc2,
        oracle_failed=lambda i: i in oracle_bad)

    k = 1500 if chk.tier == "thorough" else 300
    idx = sorted(chk.rng.sample(range(len(mcases)), min(k, len(mcases))))
    pairs = [(mcases[i], impl_results[i]) for i in idx]
    bad, logs = vm_crosscheck(PROP, "run_C08", "Model.C08_Session", pairs)
    chk.coverage["vm_compute_crosschecked"] = len(pairs)
    model_bad = set(i for i, (a, m) in enumerate(zip(impl_results, model_results)) if sx_norm(a) != m)
    vm_bad = set(idx[b] for b in bad if isinstance(b, int))
    if any(not isinstance(b, int) for b in bad):
        chk.violation("tie", "vm_compute cross-check failed to run: " + (logs[0] if logs else ""), {"kind": "vm"}, {"log": logs}, no_input=True)
    if vm_bad != (model_bad & set(idx)):
        chk.violation("tie", "extracted model and in-Coq evaluation disagree on cases %r" % sorted(vm_bad ^ (model_bad & set(idx)))[:5],
                      {"kind": "extraction"}, {"cases": [mcases[i] for i in sorted(vm_bad ^ (model_bad & set(idx)))[:5]]}, no_input=True)

    proof_gate(chk, pr)
    chk.coverage["rule"] = (
        "key level: <count><operator><count><text object> fed to the key processor of a real Vi PromptSession on "
        "Document(text, cursor) in navigation mode, all texts of length <= %d over %r x all navigation-mode cursors x %d text objects x "
        "counts %r, operator d at stratum %s (length-4 texts %s), the 14 other operators at %s, plus random longer texts; the same "
        "motion typed alone; object level: the real operator functions applied to random TextObject(start, end, type) of all four types, "
        "in and out of bounds, any cursor. Compared with the Coq model: status, text, cursor, clipboard data+type, named register "
        "name+data+type, insert mode, the TextObject returned by the real text-object function, failed flag. non-trivial = text, cursor "
        "or a register changed; distinct by hash of the model case" % (
            4 if thorough_(chk) else 3, ALPHA, len(MOTIONS), COUNTS_T if thorough_(chk) else COUNTS_Q,
            "100%" if thorough_(chk) else "10%", "3%" if thorough_(chk) else "n/a", "0.4%" if thorough_(chk) else "0.6%"))
    chk.assumptions += [
        "a typed count of exactly 1 (1dw, d1w, 1d1w, 1d3w, 2d1w) is driven by a sampled stratum over all texts of length <= 3 and in the random / session strata, not exhaustively",
        "vi_mode() is true in Document.selection_ranges (every case runs under a Vi application)",
        "case operators: the theorems take an arbitrary string function; the correspondence uses ASCII text, where rot13/lower/upper/swapcase are the model's ASCII maps",
        "gq: str.splitlines(True) modelled for the newline character only; buffer.text_width = 0 (width 80)",
        "H, M, L, gm modelled for window.render_info = None (nothing is rendered in the harness); n, N not modelled (their TextObject is taken from the implementation)",
        "the Document queries behind the text objects are the model of Model/C02_DocQueries.v (tied by C02's own correspondence and by this one)",
        "read-only buffers, undo stack, macro recording and selection-mode operators are outside the model; the tilde operator is off"]
    return chk.finish()


def uncovered_bindings():
    """key sequences registered as Vi operators / text objects in a real session that no
    entry of OPS / MOTIONS types (Keys.Any counts as covered when some character is typed)"""
    from prompt_toolkit.keys import Keys
    sess = Session()
    try:
        have_to, have_op = set(), set()
        for b in sess.app.key_processor._bindings._key_bindings.bindings:
            n = getattr(b.handler, "__name__", "")
            ks = tuple(k.value if isinstance(k, Keys) else k for k in b.keys)
            if n == "_apply_operator_to_text_object":
                have_to.add(ks)
            elif n == "_operator_in_navigation":
                have_op.add(ks)
    finally:
        sess.close()
    anyv = Keys.Any.value

    def covered(ks, typed):
        return any(len(t) == len(ks) and all(a == anyv or a == b for a, b in zip(ks, t)) for t in typed)
    typed_to = [tuple(m["keys"]) for m in MOTIONS.values()]
    typed_op = [tuple(o[0]) for o in OPS.values()] + [("~",)]     # ~ is an operator only with vi_state.tilde_operator (off)
    return sorted([list(k) for k in have_to if not covered(k, typed_to)] +
                  [list(k) for k in have_op if not covered(k, typed_op)])


def judge(c, obs, tobj, failed, alone):
    """-> None or (clause, family, opgroup)"""
    if c[0] == "S":
        return oracle_session(obs)
    if c[0] == "K":
        m = MOTIONS[c[4]]
        n = (c[5] or 1) * (c[6] or 1)
        ce = eff_cursor(c[1], c[2], c[5])
        bad = oracle(c[1], ce, c[3], m, n, obs, tobj, failed, alone)
        if bad is None and tobj is not None and m["move"] and c[4] not in ("G", "0") and obs["status"] == 0:
            exp = expected_start(c[1], ce, c[4], n, bool(c[5] or c[6]))
            if exp is not None and exp != tobj[0]:
                bad = ("the operator was applied to a text object starting at %+d, but <count x count> %s from here starts at %+d" % (
                    tobj[0], c[4], exp), "operator-count:" + m["group"])
        if bad is None and obs["status"] == 0:
            bad = oracle_word_object(c[1], ce, c[4], tobj)
    else:
        bad = oracle(c[1], c[2], c[3], None, c[5], obs, tobj, obj_failed(c), None) if in_bounds(c) else None
    return (bad[0], bad[1], OPGROUP[OPS[c[3]][2]]) if bad else None


def thorough_(chk):
    return chk.tier == "thorough"


def obj_failed(c):
    """object level: an empty exclusive object must be a no-op for the operators that go through
    TextObject.cut / the range guard; the line operators are cancelled by the wrapper, which an
    operator function called directly does not pass through"""
    s, e, ty = c[4]
    return ty == 0 and s == e and OPGROUP[OPS[c[3]][2]] != "lines"


def in_bounds(c):
    _, text, cur, opname, tob, arg, keyd = c
    return 0 <= cur + tob[0] <= len(text) and 0 <= cur + tob[1] <= len(text) and tob[0] <= 0 <= tob[1]


def show_keys(ks):
    out = []
    for k in ks:
        if k[0] == 1:
            out.append(str(k[1]))
        elif k[0] == 2:
            out.append(unS(k[2]))
        elif k[0] == 3:
            out.append("<Esc>")
        else:
            names = [n for n, v in MOTIONS.items() if v["tok"] == tuple(k[1])]
            out.append("<%s>" % (names[0] if names else "obj%r" % (k[1],)))
    return " ".join(out)


def show_cd(cd):
    return None if cd is None else (unS(cd[0]), cd[1])


def show_reg(r):
    return None if r is None else (chr(r[0]) if r[0] > 0 else r[0], unS(r[1][0]), r[1][1])


def show_res(r):
    if not isinstance(r, list) or len(r) < 8:
        return r
    try:
        return [r[0], unS(r[1]), r[2], [show_cd(x) for x in r[3]], [show_reg(x) for x in r[4]], r[5], r[6], r[7]]
    except Exception:  # noqa
        return r


def load_corpus_raw():
    import json
    d = os.path.join(VERIF, "corpus", PROP)
    out = []
    if os.path.isdir(d):
        for f in sorted(os.listdir(d)):
            if f.endswith(".json"):
                c = json.load(open(os.path.join(d, f)))["case"]
                if c[0] == "O":
                    c[4] = tuple(c[4])
                if c[0] == "S":
                    c[3] = [tuple(x) for x in c[3]]
                out.append(c)
    return out


def decode_session(mc):
    """model session case -> ("S", text, cursor, cmds) (None when a key is not typed by the harness)"""
    text, cur, keys = unS(mc[0]), mc[1], mc[2]
    cmds, c1, c2, op = [], "", "", None
    for k in keys:
        if k[0] == 1 and not (k[1] == 0 and not (c2 if op else c1)):
            if op:
                c2 += str(k[1])
            else:
                c1 += str(k[1])
            continue
        if k[0] == 2:
            names = [n for n, v in OPS.items() if list(v[1]) == k[1] and [ord(x) for x in v[0]] == k[2]]
            if not names:
                return None
            op = names[0]
            continue
        if k[0] == 3:
            end = "esc"
        elif k[0] == 1:
            end = "0"
        else:
            names = [n for n, v in MOTIONS.items() if v["tok"] == tuple(k[1])]
            if not names:
                return None
            end = names[0]
        cmds.append((int(c1) if c1 else None, op, int(c2) if c2 else None, end))
        c1, c2, op = "", "", None
    return ("S", text, cur, cmds) if cmds else None


def replay(data):
    rep = data["replay"]
    sess = Session()
    rc = 0
    try:
        c = None
        if "case" in rep and rep["case"] and rep["case"][0] in ("K", "O", "S"):
            c = list(rep["case"])
            if c[0] == "O":
                c[4] = tuple(c[4])
            if c[0] == "S":
                c[3] = [tuple(x) for x in c[3]]
            c = tuple(c)
        elif "case" in rep and len(rep["case"]) == 3:
            print("model session %s\n  impl then  %r\n  model then %r" % (show_keys(rep["case"][2]), show_res(rep.get("impl")), show_res(rep.get("model"))))
            c = decode_session(rep["case"])
        elif "case" in rep and len(rep["case"]) == 8:
            mc = rep["case"]
            opname = [k for k, v in OPS.items() if list(v[1]) == mc[2] and [ord(x) for x in v[0]] == mc[5]]
            if opname:
                c = ("O", unS(mc[0]), mc[1], opname[0], (mc[6][1], mc[6][2], mc[6][3]), mc[3], ["w"])
        if c is None:
            print("cannot rebuild the keys of this replay file: %r" % (rep,))
            return 1
        res, obs, tobj, failed, alone = run_impl(sess, c)
        print(describe_case(c))
        o = obs[-1][3] if c[0] == "S" else obs
        print("  -> status=%d text=%r cursor=%d clipboard=%r register=%r insert=%d text_object=%r failed=%r motion_alone_cursor=%r" % (
            o["status"], o["text"], o["cursor"], show_cd(o["clip"]), show_reg(o["reg"]), o["ins"],
            (obs[-1][4] if c[0] == "S" else tobj), (obs[-1][5] if c[0] == "S" else failed), alone))
        bad = judge(c, obs, tobj, failed, alone)
        print("  ORACLE FAILS: %s [%s/%s]" % bad if bad else "  oracle ok")
        rc = 1 if bad else 0
        tb = obs[-1][4] if c[0] == "S" else tobj
        m = run_model("c08", [model_case(c, tb)])[0]
        print("  model agrees" if m == sx_norm(res) else "  MODEL AND IMPLEMENTATION DIFFER: impl %r model %r" % (show_res(sx_norm(res)), show_res(m)))
        if m != sx_norm(res):
            rc = 1
    finally:
        sess.close()
    return rc
